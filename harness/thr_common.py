"""Shared machinery of the C04 / C05 checks (ThresholdOptimizer): case format, generators, implementation
adapter, protocol lines for the Lean driver (ops `thr.simple`, `thr.eo`), and first-principles oracles in
exact `fractions.Fraction` arithmetic.  Nothing in the oracle part uses fairlearn or the Lean model.

Case (JSON):
  {"constraint": str, "objective": str, "flip": bool, "grid": int,
   "rows": [[group index, label 0/1, "score as fraction string"], ...],   # row order = order handed to fit()
   "container": "ndarray" | "ndarray2d" | "list" | "list2d" | "series" | "dataframe",   # of y / sensitive_features
   "gnames": "str" | "int",                                               # how group indices are named
   "yidx" / "sfidx" / "xidx": "default" | "perm" | "offset" | "str",       # pandas index LABELS of y / sensitive_features / X
   "perm": [permutation of 0..n-1],                                       #   (only for the series / dataframe containers);
   "yname": bool,                                                         # y DataFrame with a named column
   "query": [[group index or -1 (= a value not seen by fit), "score"], ...],  # rows handed to _pmf_predict / predict
   "pseed": int}                                                          # random_state of that predict call
Rows are always paired by POSITION; index labels must never matter.
"""
import itertools
import math
from fractions import Fraction as F

import random
import numpy as np

from . import proto

SIMPLE = {
    "selection_rate_parity": "selection_rate",
    "demographic_parity": "selection_rate",
    "false_positive_rate_parity": "false_positive_rate",
    "false_negative_rate_parity": "false_negative_rate",
    "true_positive_rate_parity": "true_positive_rate",
    "true_negative_rate_parity": "true_negative_rate",
}
OBJ_SIMPLE = ["accuracy_score", "balanced_accuracy_score", "selection_rate", "true_positive_rate",
              "true_negative_rate"]
OBJ_EO = ["accuracy_score", "balanced_accuracy_score"]
GRIDS = [1, 2, 3, 5, 7, 10, 100, 1000]
# |float - exact| on metric values / probabilities (all quantities are O(1)).  MEASURED on the clean tree (review R1-B,
# 1500 generated cases of C04 + C05 incl. near-tie ladders and grid 1000, F18 case excluded): max deviation 6.7e-16 on
# per-row probabilities (implementation vs exact model, same rule), 2.2e-16 on achieved metrics / objective / parity spread,
# 1.4e-14 on x_best * N (N = 1000).  1e-12 is ~1500 x the largest observed deviation and the floor used for binary64 paths
# (was 1e-8).  A fitted p_ignore = (y - y_best) / (y - x) can be off by more when y - x is tiny; `same_rule` then reports
# "different mixture" and the query rows of that group are compared on the training rows only -- never an alarm.
TOL = 1e-12
WTOL = 1e-12        # mixture weights below this are ignored when comparing operations (a weight that is exactly 0 in Rat
#                     comes out of the float interpolation as 0 or a few 1e-17; was 1e-9)


# sha256 of lean/FairModel/Generated/ThresholdTables.lean as lifted from the pinned tree (METRIC_DICT,
# _extend_confusion_matrix, actual/flipped counts, operations, equalized-odds counts, constraint/objective tables).
PINNED_TABLES_SHA256 = "88782a97a44b434bcc82955feb2860c3bab9105de4e8a43adc88e9fc8767d3fc"
_TABLES_STATE = {}
MAX_TIE_REPORTS = 2


# every generated file the Threshold model is built from -> sha256 of its content as lifted from the pinned tree
PINNED_GENERATED = {
    "ThresholdTables.lean": PINNED_TABLES_SHA256,
    "TradeoffSrc.lean": "d61ccec458631118203af93bf40a727da5c5059713053a9a641d539aa80a4059",
    "ThresholderSrc.lean": "e8eca555041924fd761db20bc5b1ecc2f78490203f85fbd3c516d3929ba7ff4c",
    "ThresholdFitSrc.lean": "b4c864c257fde297b40071a4c32b225e4e2c34903cb8005de94db88f04dbf5f6",
}


def generated_changed(pinned):
    """True when one of the generated files `name -> sha256 of the pinned tree's lift` has other content"""
    import hashlib
    import os
    from . import leanrun
    for name, want in pinned.items():
        path = os.path.join(leanrun.LEAN, "FairModel", "Generated", name)
        try:
            with open(path, "rb") as f:
                if hashlib.sha256(f.read()).hexdigest() != want:
                    return True
        except OSError:
            pass
    return False


def tables_changed():
    """True when the translator lifted tables / expressions that differ from the pinned tree's.  The Lean model is built
    FROM these files, so a model-vs-oracle disagreement is then a statement about the source (its formulas no longer are
    the first-principles ones), not a bug of this machinery."""
    if "v" not in _TABLES_STATE:
        import hashlib
        import os
        from . import leanrun
        changed = False
        for name, want in PINNED_GENERATED.items():
            path = os.path.join(leanrun.LEAN, "FairModel", "Generated", name)
            try:
                with open(path, "rb") as f:
                    changed = changed or hashlib.sha256(f.read()).hexdigest() != want
            except OSError:
                pass
        _TABLES_STATE["v"] = changed
    return _TABLES_STATE["v"]


def tie_broken():
    """the source under check is KNOWN to differ from the pinned tree in lifted text: a generated file changed, or one of
    the Threshold lifters refuses the source (then the generated files keep their old content)"""
    if "broken" not in _TABLES_STATE:
        broken = tables_changed()
        if not broken:
            from . import translate
            from .core import REPO
            from .lifters import threshold, thresholder, thresholdfit, tradeoff
            for fn in (threshold.lift_threshold, tradeoff.lift_tradeoff, thresholder.lift_thresholder,
                       thresholdfit.lift_thresholdfit):
                try:
                    fn(REPO)
                except translate.Untranslatable:
                    broken = True
                except OSError:
                    pass
        _TABLES_STATE["broken"] = broken
    return _TABLES_STATE["broken"]


def cap_when_tie_broken(probs):
    """With a broken tie nearly every case shows `implementation != model`; the runner stops exploring after 5 violating
    cases, so such correspondence-only results are passed on for the first MAX_TIE_REPORTS cases only.  Cases on which the
    implementation fails the property's own oracle (kind 'property') are always passed on: the exploration goes on until
    one is found or the budget ends, and the verdict prefers it."""
    probs = [p for p in probs if p is not None and p.kind != "tie-noted"]
    if not probs or not tie_broken() or any(p.kind in ("property", "harness") for p in probs):
        return probs
    _TABLES_STATE["corr_only"] = _TABLES_STATE.get("corr_only", 0) + 1
    return probs if _TABLES_STATE["corr_only"] <= MAX_TIE_REPORTS else []


def model_problem(msg, pid):
    """model (Lean driver) vs first-principles oracle: HARNESS error on the pinned tables; when the lifted tables
    changed it is reported as a broken tie instead (relation <pid>.generated-tables-vs-oracle)."""
    from .core import Problem
    if tables_changed():
        # reported for the first few cases only: the run stops exploring after 5 violating cases, and with a model
        # that follows an edited source nearly every case would be one -- the exploration has to go on so that the
        # property oracle gets the chance to find an input on which the IMPLEMENTATION fails
        _TABLES_STATE["reported"] = _TABLES_STATE.get("reported", 0) + 1
        if _TABLES_STATE["reported"] > MAX_TIE_REPORTS:
            return Problem("tie-noted", msg)
        return Problem("correspondence", "translator-fed model departs from the first-principles oracle "
                       "(source tables changed): " + msg, f"{pid}.generated-tables-vs-oracle")
    return Problem("harness", msg)


def configs():
    out = []
    for c in SIMPLE:
        for o in OBJ_SIMPLE:
            out.append((c, o))
    for o in OBJ_EO:
        out.append(("equalized_odds", o))
    return out


CONFIGS = configs()


def gname(case, g):
    return f"g{g}" if case.get("gnames", "str") == "str" else 10 + 3 * g


def groups_of(case):
    """sorted group indices and their rows [(score Fraction, label int)] (in data order)"""
    gs = sorted({r[0] for r in case["rows"]})
    return gs, {g: [(F(r[2]), int(r[1])) for r in case["rows"] if r[0] == g] for g in gs}


def in_quantifier(case):
    gs, rows = groups_of(case)
    return len(gs) >= 1 and all({l for _, l in rows[g]} == {0, 1} for g in gs)


def xy_metrics(case):
    if case["constraint"] == "equalized_odds":
        return "false_positive_rate", "true_positive_rate"
    return SIMPLE[case["constraint"]], case["objective"]


# ------------------------------------------------------------------------------- generation
def gen_case(rng, tier, small=False):
    if rng.random() < 0.3:
        cons, obj = "equalized_odds", rng.choice(OBJ_EO)
    else:
        # the three rate objectives have their optimum at a constant classifier; keep them, but less often
        cons = rng.choice(sorted(SIMPLE))
        obj = rng.choice(["accuracy_score"] * 7 + ["balanced_accuracy_score"] * 7 + OBJ_SIMPLE[2:] * 2)
    ng = rng.choice([2, 2, 2, 3, 3, 4, 5])
    style = rng.random()
    near = None
    if style < 0.45:      # heavy ties: few levels
        nl = rng.choice([2, 3, 3, 4, 5, 6])
        levels = rng.sample([F(k, 8) for k in range(-4, 13)], nl)
    elif style < 0.63:    # distinct dyadics
        levels = None
    elif style < 0.78:    # integer valued "hard" predictions 0/1 (what predict of a classifier returns)
        levels = [F(0), F(1)]
    else:                 # NEAR-TIES: clusters of pairwise distinct scores that differ by a few 2^t ulps (t drawn over
        #                   the whole range down to 2 ulps), mixed with exact ties and well separated scores
        levels, near = near_tie_levels(rng)
    rows = []
    for g in range(ng):
        if small:
            m = rng.choice([2, 2, 3, 3, 4, 5, 6, 8])
        else:
            m = rng.choice([2, 3, 4, 5, 6, 8, 10, 14, 20] if tier == "quick" else [2, 3, 4, 6, 8, 12, 20, 30])
        labs = [0, 1] + [rng.randint(0, 1) if rng.random() < 0.8 else rng.choice([0, 0, 0, 1]) for _ in range(m - 2)]
        if levels is None:
            pool = rng.sample(range(-32, 96), m)
            sc = [F(k, 64) for k in pool]
        else:
            sc = [rng.choice(levels) for _ in range(m)]
            if len(set(sc)) == 1:        # tied by chance: draw once more
                sc = [rng.choice(levels) for _ in range(m)]
            if near is not None and rng.random() < 0.7:
                # the group sees every rung of one ladder (plus ties / other levels)
                ladder = rng.choice(near)
                extra = [rng.choice(levels) for _ in range(max(m - len(ladder), rng.choice([1, 2, 3])))]
                sc = list(ladder) + extra
                rng.shuffle(sc)
                m = len(sc)
                labs = [0, 1] + [rng.randint(0, 1) for _ in range(m - 2)]
                rng.shuffle(labs)
            if rng.random() < 0.05:      # uninformative group: all scores tied (ROC hull = diagonal)
                sc = [sc[0]] * m
        informative = rng.random() < 0.7
        if informative and levels is not None:   # make scores correlate with labels in some groups
            sc = sorted(sc)
            labs = sorted(labs)
            if rng.random() < 0.25:              # anti-correlated: flip matters
                labs = labs[::-1]
            # some noise so that the ROC curve is not a single step
            for _ in range(rng.choice([0, 1, 1, 2])):
                a, b_ = rng.randrange(m), rng.randrange(m)
                labs[a], labs[b_] = labs[b_], labs[a]
        for s, l in zip(sc, labs):
            rows.append([g, l, str(s)])
    rng.shuffle(rows)
    perm = list(range(len(rows)))
    while len(rows) > 1 and perm == sorted(perm):
        rng.shuffle(perm)
    kinds = ["default", "perm", "perm", "offset", "str"]
    query = gen_query(rng, rows)
    pseed = rng.randrange(10 ** 6)
    # "history": the ThresholdOptimizer object under test had a PREVIOUS LIFE (fit on other data with one extra group, one
    # _pmf_predict / predict) before the fit that is judged; derived from the case's own seed, the main stream is not disturbed
    return {"query": query, "pseed": pseed, "history": random.Random(pseed).random() < 0.3, "constraint": cons, "objective": obj, "flip": rng.random() < 0.5,
            "grid": rng.choice(GRIDS if not small else [1, 2, 3, 5, 7, 10, 10, 100]),
            "rows": rows, "container": rng.choice(["ndarray", "ndarray2d", "list", "list2d", "series", "series",
                                                   "dataframe", "dataframe"]),
            "gnames": rng.choice(["str", "int"]),
            "yidx": rng.choice(kinds), "sfidx": rng.choice(kinds), "xidx": rng.choice(kinds), "perm": perm,
            "yname": rng.random() < 0.5}


def _ulp(x):
    return F(math.ulp(float(x)))


def near_tie_levels(rng):
    """score levels for the near-tie stream: 1-3 bases k/8, around each a cluster base + j * 2^t * ulp(base) with small
    integer j and t >= 1 (so that the midpoint of any two members is again exactly representable: the implementation's
    float midpoint IS the exact midpoint), t spread over 1..44, i.e. relative distances from 2^-51 up to 2^-8; plus a few
    well separated levels.  Every level is an exactly representable double; scores are compared exactly everywhere."""
    bases = rng.sample([F(k, 8) for k in range(1, 13)], rng.choice([1, 2, 2, 3]))
    out = set()
    ladders = []
    for b in bases:
        u = (2 ** rng.randint(1, 44)) * _ulp(b)
        if rng.random() < 0.6:
            # a LADDER base, base - u, base - 2u, ... (3-7 rungs, now and then one rung missing): whatever the scale of u,
            # some pairs of rungs are closer than others by less than a factor 2
            rungs = [b - j * u for j in range(rng.choice([3, 4, 5, 6, 7]))]
            if len(rungs) > 3 and rng.random() < 0.3:
                rungs.pop(rng.randrange(1, len(rungs)))
        else:
            rungs = sorted({b + rng.randint(-3, 3) * u * rng.choice([1, 1, 2, 4]) for _ in range(rng.choice([2, 3, 4, 5]))})
        ladders.append(rungs)
        out.update(rungs)
    for _ in range(rng.choice([0, 1, 2])):
        out.add(F(rng.randint(-4, 12), 8))
    assert all(F(float(v)) == v for v in out)
    return sorted(out), ladders


def gen_query(rng, rows):
    """query rows for the PREDICT path: training rows, scores exactly ON a candidate threshold (midpoints between
    consecutive distinct scores of the group), unseen scores between / beyond the training scores, +-large scores, and now
    and then a sensitive-feature value the fit has not seen"""
    gs = sorted({r[0] for r in rows})
    q = []
    for r in rng.sample(rows, min(3, len(rows))):
        q.append([r[0], r[2]])
    for g in gs:
        lv = sorted({F(r[2]) for r in rows if r[0] == g})
        # only EXACTLY REPRESENTABLE query scores: the midpoint of two levels from different near-tie ladders can need 54+
        # bits; the implementation would then see the rounded double while oracle and model saw the exact rational (review
        # R1-B: this produced a false "C04.pmf-matches-rule" alarm on a score that rounds onto the fitted threshold)
        mids = [m for m in ((a + b) / 2 for a, b in zip(lv, lv[1:])) if F(float(m)) == m]
        if mids:
            q.append([g, str(rng.choice(mids))])
        w = rng.choice(lv) + rng.choice([F(-1, 128), F(1, 128), F(1, 256)])
        q.append([g, str(w if F(float(w)) == w else F(float(w)))])
        if rng.random() < 0.5:      # just above / below a training score or a candidate threshold, at a random small scale
            v = rng.choice(lv + mids)
            w = v + rng.choice([-3, -1, 1, 2]) * (2 ** rng.randint(0, 40)) * _ulp(v if v != 0 else F(1, 8))
            if F(float(w)) == w:
                q.append([g, str(w)])
        if rng.random() < 0.5:
            q.append([g, str(rng.choice([F(-1000), F(1000), lv[0] - 1, lv[-1] + 1]))])
    if rng.random() < 0.15:
        q.append([-1, str(rng.choice([F(0), F(1, 2), F(1)]))])
    # the implementation sees float(score): keep only query scores that binary64 represents exactly (a midpoint or an
    # offset of two 53-bit values can need 54 bits; such a score would reach fairlearn rounded and the exact model not)
    q = [[g, sc] for g, sc in q if F(float(F(sc))) == F(sc)]
    rng.shuffle(q)
    return [[g, str(qscore(s))] for g, s in q]      # every query score is an exactly representable double


def exhaustive_cases(ngroups, nlevels, max_rows, cfg_cycle):
    """all multisets of (group, label, level) rows of size <= max_rows in which every group has both labels;
    configuration (constraint, objective, flip, grid) cycles deterministically through `cfg_cycle`."""
    types = [(g, l, s) for g in range(ngroups) for l in (0, 1) for s in range(nlevels)]
    k = 0
    for size in range(2 * ngroups, max_rows + 1):
        for combo in itertools.combinations_with_replacement(types, size):
            ok = all(any(t[0] == g and t[1] == 0 for t in combo) and any(t[0] == g and t[1] == 1 for t in combo)
                     for g in range(ngroups))
            if not ok:
                continue
            cons, obj, flip, grid = cfg_cycle[k % len(cfg_cycle)]
            k += 1
            # predict path, exhaustively for the small scope: every group at EVERY level, every midpoint between levels
            # (= every candidate threshold), one step below / above the range, and an unseen sensitive-feature value
            query = [[g, str(F(q, 4))] for g in range(ngroups) for q in range(-1, 2 * nlevels)] + [[-1, "1/2"]]
            yield {"constraint": cons, "objective": obj, "flip": flip, "grid": grid, "query": query, "pseed": k,
                   "rows": [[g, l, str(F(s, 2))] for g, l, s in combo], "container": "ndarray", "gnames": "str"}


def cfg_cycle():
    out = []
    grids = [1, 2, 3, 5, 7, 10, 4, 6]
    i = 0
    for (c, o) in CONFIGS:
        for flip in (False, True):
            out.append((c, o, flip, grids[i % len(grids)]))
            i += 1
    return out


def _compress(perm):
    order = sorted(range(len(perm)), key=lambda i: perm[i])
    out = [0] * len(perm)
    for rank, i in enumerate(order):
        out[i] = rank
    return out


def _fix_perm(case):
    """after rows were dropped: make `perm` a permutation of 0..n-1 again (same relative order)"""
    if "perm" in case:
        n = len(case["rows"])
        p = list(case["perm"])[:n] if len(case["perm"]) >= n else list(range(n))
        case["perm"] = _compress(p)
    return case


def _drop_rows(case, keep):
    c = dict(case, rows=[r for k, r in enumerate(case["rows"]) if k in keep])
    if "perm" in case and len(case["perm"]) == len(case["rows"]):
        c["perm"] = _compress([case["perm"][k] for k in sorted(keep)])
    return c


def index_labels(kind, perm, n):
    if kind == "perm":
        return [int(v) for v in perm[:n]]
    if kind == "offset":
        return list(range(100, 100 + n))
    if kind == "str":
        return [f"r{int(v)}" for v in perm[:n]]
    return None


def midpoint_rounds_onto_score(case):
    """predicate of known finding F18: some group has two consecutive DISTINCT scores a > b whose binary64 midpoint
    (a + b) / 2 -- computed as the implementation computes it -- is not strictly between them"""
    gs, rows = groups_of(case)
    for g in gs:
        lv = sorted({float(s) for s, _ in rows[g]}, reverse=True)
        for a, b in zip(lv, lv[1:]):
            t = (a + b) / 2
            if not (b < t < a):
                return True
    return False


def shrink_case(case):
    rows = case["rows"]
    gs = sorted({r[0] for r in rows})
    if case.get("history"):
        yield dict(case, history=False)
    if len(gs) > 2:
        for g in gs:
            yield _drop_rows(case, {k for k, r in enumerate(rows) if r[0] != g})
    for i in range(len(rows)):
        c = _drop_rows(case, set(range(len(rows))) - {i})
        if in_quantifier(c) and len({r[0] for r in c["rows"]}) == len(gs):
            yield c
    for gsz in (1, 2, 3, 5, 10):
        if gsz < case["grid"]:
            yield dict(case, grid=gsz)
    if len(case.get("query") or []) > 1:
        for i in range(len(case["query"])):
            yield dict(case, query=case["query"][:i] + case["query"][i + 1:])
    for k in ("xidx", "sfidx", "yidx"):
        if case.get(k, "default") != "default":
            yield dict(case, **{k: "default"})
    if case.get("yname"):
        yield dict(case, yname=False)
    if case["container"] != "ndarray":
        yield dict(case, container="ndarray")
    if case.get("gnames") != "str":
        yield dict(case, gnames="str")
    # round scores to a coarser set
    lv = sorted({F(r[2]) for r in rows})
    if len(lv) > 2:
        rank = {v: i for i, v in enumerate(lv)}
        yield dict(case, rows=[[r[0], r[1], str(F(rank[F(r[2])]))] for r in rows])


# ------------------------------------------------------------------------------- implementation
def _estimator(multi=False):
    from sklearn.base import BaseEstimator

    class PassThrough(BaseEstimator):
        """`predict` returns the score column unchanged (prefit=True, predict_method='predict')."""

        def fit(self, X, y=None):
            self.fitted_ = True
            return self

        def predict(self, X):
            return np.asarray(X, dtype=float)[:, 0]

    class MultiMethod(PassThrough):
        """Same `predict`, but the estimator ALSO offers `predict_proba` and `decision_function`, and they rank the rows the
        other way round: with `predict_method="predict"` given explicitly, fit and predict must both score with `predict`
        (a thresholder that falls back to "auto" would pick another method and apply thresholds to another score scale)."""

        def predict_proba(self, X):
            g = 1.0 / (1.0 + np.exp(np.asarray(X, dtype=float)[:, 0]))
            return np.stack([1.0 - g, g], axis=1)

        def decision_function(self, X):
            return -np.asarray(X, dtype=float)[:, 0]
    return (MultiMethod() if multi else PassThrough()).fit(None)


def multi_method(case):
    """~25 % of the cases (derived from the case's own seed): the prefit estimator offers several scoring methods"""
    import random as _r
    return _r.Random("multi%s" % case.get("pseed", 0)).random() < 0.25


def _thr(t):
    t = float(t)
    if math.isinf(t):
        return "inf" if t > 0 else "-inf"
    return str(F(t))


def previous_life(to, scores, y, sf, extra_group):
    """Give the estimator object a previous life before the fit that is judged: fit it on an auxiliary data set -- the rows
    reversed, the labels inverted, plus ONE EXTRA sensitive-feature group the real data lack (a badly ranked one: its ROC
    curve is the diagonal, so stale per-group state would visibly lower a minimum over groups) -- and predict once.  Every
    clause of C04 / C05 / C13 is about the fitted state after the LAST fit, so the judge is unchanged.  A ValueError of the
    auxiliary fit (degenerate auxiliary labels) just means: no previous life."""
    scores = np.asarray(scores, dtype=float).reshape(-1)
    lo, hi = float(scores.min()) - 1.0, float(scores.max()) + 1.0
    Xa = np.concatenate([scores[::-1], [lo, hi, lo, hi]]).reshape(-1, 1)
    ya = np.concatenate([1 - np.asarray(y, dtype=int).reshape(-1)[::-1], [1, 0, 0, 1]])
    sa = list(sf)[::-1] + [extra_group] * 4
    try:
        to.fit(Xa, ya, sensitive_features=sa)
        to._pmf_predict(Xa[:3], sensitive_features=sa[:3])
        to.predict(Xa[-2:], sensitive_features=sa[-2:], random_state=0)
    except ValueError:
        pass


def run_impl(case):
    import pandas as pd
    from fairlearn.postprocessing import ThresholdOptimizer
    rows = case["rows"]
    scores = np.array([float(F(r[2])) for r in rows])
    y = [int(r[1]) for r in rows]
    sf = [gname(case, r[0]) for r in rows]
    n = len(rows)
    perm = case.get("perm") or list(range(n))
    if len(perm) != n:
        perm = list(range(n))
    pandas_like = case["container"] in ("dataframe", "series")
    yi = index_labels(case.get("yidx", "default"), perm, n) if pandas_like else None
    si = index_labels(case.get("sfidx", "default"), perm, n) if pandas_like else None
    xi = index_labels(case.get("xidx", "default"), perm, n) if pandas_like else None
    X = pd.DataFrame({"score": scores}, index=xi) if pandas_like else scores.reshape(-1, 1)
    if case["container"] == "ndarray":
        yv, sv = np.array(y), np.array(sf)
    elif case["container"] == "ndarray2d":      # column vectors of shape (n, 1)
        yv, sv = np.array(y).reshape(-1, 1), np.array(sf).reshape(-1, 1)
    elif case["container"] == "list":
        yv, sv = list(y), list(sf)
    elif case["container"] == "list2d":         # sensitive features as a list of one-element lists
        yv, sv = list(y), [[v] for v in sf]
    elif case["container"] == "series":
        yv, sv = pd.Series(y, index=yi), pd.Series(sf, index=si)
    else:
        # a NAMED single column half of the time: equalized odds used to read labels.sum().loc[0] (KeyError: 0,
        # finding F13, repaired in /repo by ad411f1); corpus case f13-eo-named-y-dataframe keeps it covered
        ycol = {"y": y} if case.get("yname", True) else {0: y}
        yv, sv = pd.DataFrame(ycol, index=yi), pd.DataFrame({"sf": sf}, index=si)
    to = ThresholdOptimizer(estimator=_estimator(multi_method(case)), prefit=True, predict_method="predict",
                            constraints=case["constraint"], objective=case["objective"],
                            grid_size=case["grid"], flip=case["flip"])
    if case.get("history"):
        previous_life(to, scores, y, sf, gname(case, max(r[0] for r in rows) + 1))
    try:
        to.fit(X, yv, sensitive_features=sv)
    except ValueError as e:
        return {"error": "ValueError", "degenerate": "Degenerate labels" in str(e)}
    d = to.interpolated_thresholder_.interpolation_dict
    gs = sorted({r[0] for r in rows})
    rules = {}
    for g in gs:
        b = d[gname(case, g)]
        rules[str(g)] = {
            "p0": float(b.p0), "p1": float(b.p1),
            "op0": [b.operation0.operator, _thr(b.operation0.threshold)],
            "op1": [b.operation1.operator, _thr(b.operation1.threshold)],
            "p_ignore": float(b.p_ignore) if "p_ignore" in b else None,
            "const": float(b.prediction_constant) if "prediction_constant" in b else None,
        }
    pmf = to._pmf_predict(X, sensitive_features=sv)
    out = {"rules": rules, "keys": sorted(str(k) for k in d.keys()),
           "pmf0": [float(v) for v in pmf[:, 0]], "pmf1": [float(v) for v in pmf[:, 1]]}
    if case.get("query"):
        # the PREDICT path on rows the fit has not seen (other container than at fit time on purpose)
        qs = np.array([float(F(s)) for _, s in case["query"]])
        qg = [qname(case, g) for g, _ in case["query"]]
        Xq = qs.reshape(-1, 1) if pandas_like else pd.DataFrame({"score": qs})
        qsf = np.array(qg) if case["container"] in ("list", "list2d") else list(qg)
        pq = to._pmf_predict(Xq, sensitive_features=qsf)
        out["qpmf0"] = [float(v) for v in pq[:, 0]]
        out["qpmf1"] = [float(v) for v in pq[:, 1]]
        lab = np.asarray(to.predict(Xq, sensitive_features=qsf, random_state=int(case.get("pseed", 0))))
        out["qlabels"] = [int(v) for v in lab.reshape(-1).tolist()]
        if int(case.get("pseed", 0)) % 4 == 0:      # every fourth case: the same seed handed over as a RandomState instance
            lab2 = np.asarray(to.predict(Xq, sensitive_features=qsf,
                                         random_state=np.random.RandomState(int(case.get("pseed", 0)))))
            out["qlabels2"] = [int(v) for v in lab2.reshape(-1).tolist()]
    return out


def qscore(s):
    """a query score as EVERY side sees it: the binary64 value nearest to the rational written in the case (identity for
    the generator's cases, which are exactly representable; replayed / hand-written cases are rounded once, for all sides)"""
    return F(float(F(s)))


def qname(case, g):
    """sensitive-feature value of a query row; -1 = a value not seen by fit"""
    if g == -1:
        return "unseen" if case.get("gnames", "str") == "str" else 999
    return gname(case, g)


def query_draws(case):
    """the uniform numbers predict(random_state=pseed) draws for the query rows (trusted generator)"""
    return [F(float(u)) for u in np.random.RandomState(int(case.get("pseed", 0))).rand(len(case["query"]))]


# ------------------------------------------------------------------------------- protocol lines
def _mats(case):
    gs, rows = groups_of(case)
    sc = ";".join(proto.lst([s for s, _ in rows[g]]) for g in gs)
    lb = ";".join(proto.lst([l for _, l in rows[g]]) for g in gs)
    return sc, lb


def model_lines(case, i_impl):
    sc, lb = _mats(case)
    xm, ym = xy_metrics(case)
    forces = ["argmax"] + ([str(i_impl)] if i_impl is not None and 0 <= i_impl <= case["grid"] else [])
    out = []
    for f in forces:
        if case["constraint"] == "equalized_odds":
            out.append(f"thr.eo {case['objective']} {proto.b(case['flip'])} {case['grid']} {f} {sc} {lb}")
        else:
            out.append(f"thr.simple {xm} {ym} {proto.b(case['flip'])} {case['grid']} {f} {sc} {lb}")
    if case.get("query"):
        # fit -> predict end to end in the model, at the implementation's grid index (LAST line)
        gs, _ = groups_of(case)
        names = proto.strs([str(gname(case, g)) for g in gs])
        qg = proto.strs([str(qname(case, g)) for g, _ in case["query"]])
        qs = proto.lst([qscore(s) for _, s in case["query"]])
        us = proto.lst(query_draws(case))
        f = forces[-1]
        if case["constraint"] == "equalized_odds":
            out.append(f"thrp.eo {case['objective']} {proto.b(case['flip'])} {case['grid']} {f} {sc} {lb} {names} {qg} {qs} {us}")
        else:
            out.append(f"thrp.simple {xm} {ym} {proto.b(case['flip'])} {case['grid']} {f} {sc} {lb} {names} {qg} {qs} {us}")
    return out


def same_rule(ir, mr):
    """implementation's Bunch (floats) and the model's rule (Fractions) are the same randomised rule: the same
    operations with the same weights (operations of weight <= WTOL ignored), the same p_ignore / prediction_constant"""
    def ops_i(r):
        return sorted((str(_thr_val(op[1])), op[0] == ">", float(w)) for w, op in ((r["p0"], r["op0"]), (r["p1"], r["op1"]))
                      if abs(float(w)) > WTOL)

    def ops_m(r):
        return sorted((str(op[1]), bool(op[0]), float(w)) for w, op in ((r["p0"], r["op0"]), (r["p1"], r["op1"]))
                      if abs(float(w)) > WTOL)
    a, b = ops_i(ir), ops_m(mr)
    if len(a) != len(b) or any(x[0] != y[0] or x[1] != y[1] or abs(x[2] - y[2]) > TOL for x, y in zip(a, b)):
        return False
    if (ir.get("p_ignore") is None) != (mr.get("p_ignore") is None):
        return False
    if ir.get("p_ignore") is not None:
        if abs(ir["p_ignore"] - float(mr["p_ignore"])) > TOL:
            return False
        if abs(ir["p_ignore"]) > WTOL and abs(ir["const"] - float(mr["const"])) > TOL:
            return False
    return True


def _p_op(tok):
    k, t = tok.split(":")
    return (k == "gt", t if t in ("inf", "-inf") else proto.p_rat(t))


def parse_model(line, eo):
    """-> dict(i, objective, interps [(x,y)], rules [dict], ybest, supporting, expected [(ex,ey)]) or 'degenerate'"""
    if line in ("degenerate", "bad-op"):
        return line
    t = line.split(" ")
    res = {"i": int(t[0]), "objective": proto.p_rat(t[1]),
           "interps": [tuple(proto.p_rat(v) for v in it.split("|")) for it in t[2].split(";")]}
    rules = []
    for rt in t[3].split(";"):
        f = rt.split("|")
        r = {"p0": proto.p_rat(f[0]), "op0": _p_op(f[1]), "p1": proto.p_rat(f[2]), "op1": _p_op(f[3]),
             "p_ignore": None, "const": None}
        if len(f) == 6:
            r["p_ignore"], r["const"] = proto.p_rat(f[4]), proto.p_rat(f[5])
        rules.append(r)
    res["rules"] = rules
    k = 4
    if eo:
        res["ybest"] = proto.p_rat(t[k])
        k += 1
    res["supporting"] = t[k] == "1"
    res["expected"] = [tuple(proto.p_rat(v) for v in it.split("|")) for it in t[k + 1].split(";")]
    return res


# ------------------------------------------------------------------------------- first-principles oracle
def apply_op(gt, thr, s):
    """ThresholdOperation semantics on an exact score"""
    if thr == "inf":
        return (not gt)
    if thr == "-inf":
        return gt
    return (s > thr) if gt else (s < thr)


def prob_of_rule(rule, s, exact=True):
    """P(prediction = 1 | score s) of an interpolation_dict entry (`_pmf_predict`), exact in the weights given"""
    conv = (lambda v: v if isinstance(v, F) else F(v))
    o0 = (rule["op0"][0] in (">", True), _thr_val(rule["op0"][1]))
    o1 = (rule["op1"][0] in (">", True), _thr_val(rule["op1"][1]))
    base = conv(rule["p0"]) * int(apply_op(o0[0], o0[1], s)) + conv(rule["p1"]) * int(apply_op(o1[0], o1[1], s))
    if rule.get("p_ignore") is not None:
        pi = conv(rule["p_ignore"])
        base = pi * conv(rule["const"]) + (1 - pi) * base
    return base


def _thr_val(t):
    if t in ("inf", "-inf"):
        return t
    return t if isinstance(t, F) else F(t)


def metric_from_probs(metric, rows, probs):
    """expected value of a metric on rows [(score,label)] when row k is predicted 1 with probability probs[k];
    straight from the definitions: rates are means of per-row probabilities."""
    pos = [p for (s, l), p in zip(rows, probs) if l == 1]
    neg = [p for (s, l), p in zip(rows, probs) if l == 0]
    n = len(rows)
    if metric == "selection_rate":
        return sum(probs) / n
    if metric == "false_positive_rate":
        return sum(neg) / len(neg)
    if metric == "true_positive_rate":
        return sum(pos) / len(pos)
    if metric == "false_negative_rate":
        return sum(1 - p for p in pos) / len(pos)
    if metric == "true_negative_rate":
        return sum(1 - p for p in neg) / len(neg)
    if metric == "accuracy_score":
        return (sum(pos) + sum(1 - p for p in neg)) / n
    if metric == "balanced_accuracy_score":
        return (sum(pos) / len(pos) + sum(1 - p for p in neg) / len(neg)) / 2
    raise KeyError(metric)


def all_threshold_points(rows, flip, xm, ym):
    """every distinct thresholding of the group's scores (and the flipped ones): list of (x, y, (gt, thr))"""
    lv = sorted({s for s, _ in rows}, reverse=True)
    thrs = ["inf"] + [(a + b) / 2 for a, b in zip(lv, lv[1:])] + ["-inf"]
    pts = []
    for t in thrs:
        for gt in ([True, False] if flip else [True]):
            pr = [F(int(apply_op(gt, t, s))) for s, _ in rows]
            pts.append((metric_from_probs(xm, rows, pr), metric_from_probs(ym, rows, pr), (gt, t)))
    return pts


def envelope(pts, x):
    """concave envelope of a finite point set at x, deliberately naive: best single point at x or best chord
    between a point left and a point right of x.  None if x is outside the x-range."""
    best = None
    for (x1, y1, _) in pts:
        if x1 == x and (best is None or y1 > best):
            best = y1
    for (x1, y1, _) in pts:
        if x1 >= x:
            continue
        for (x2, y2, _) in pts:
            if x2 <= x:
                continue
            v = y1 + (y2 - y1) * (x - x1) / (x2 - x1)
            if best is None or v > best:
                best = v
    return best


def eo_objective(objective, n_neg, n_pos, x, y):
    if objective == "accuracy_score":
        return (n_neg * (1 - x) + n_pos * y) / (n_neg + n_pos)
    return (y + (1 - x)) / 2


def reference_optimum(case):
    """(best objective over the grid, list of per-grid-index objective values) by brute-force envelopes"""
    gs, rows = groups_of(case)
    xm, ym = xy_metrics(case)
    N = case["grid"]
    n = sum(len(rows[g]) for g in gs)
    pts = {g: all_threshold_points(rows[g], case["flip"], xm, ym) for g in gs}
    vals = []
    for i in range(N + 1):
        x = F(i, N)
        env = {g: envelope(pts[g], x) for g in gs}
        if any(v is None for v in env.values()):
            vals.append(None)
            continue
        if case["constraint"] == "equalized_odds":
            n_pos = sum(l for g in gs for _, l in rows[g])
            vals.append(eo_objective(case["objective"], n - n_pos, n_pos, x, min(env.values())))
        else:
            vals.append(sum(F(len(rows[g]), n) * env[g] for g in gs))
    return max(v for v in vals if v is not None), vals


def linprog_optimum(case):
    """independent reference: LP over mixture weights (scipy HiGHS), float"""
    from scipy.optimize import linprog
    gs, rows = groups_of(case)
    xm, ym = xy_metrics(case)
    N = case["grid"]
    n = sum(len(rows[g]) for g in gs)
    pts = {g: all_threshold_points(rows[g], case["flip"], xm, ym) for g in gs}
    best = None
    eo = case["constraint"] == "equalized_odds"
    n_pos = sum(l for g in gs for _, l in rows[g])
    for i in range(N + 1):
        x = i / N
        if not eo:
            tot, ok = 0.0, True
            for g in gs:
                P = pts[g]
                res = linprog(c=[-float(p[1]) for p in P],
                              A_eq=[[1.0] * len(P), [float(p[0]) for p in P]], b_eq=[1.0, x],
                              bounds=[(0, None)] * len(P), method="highs")
                if res.status != 0:
                    ok = False
                    break
                tot += len(rows[g]) / n * (-res.fun)
            if ok and (best is None or tot > best):
                best = tot
        else:
            # variables: all groups' weights, then the common TPR y; maximise y
            sizes = [len(pts[g]) for g in gs]
            nv = sum(sizes) + 1
            A, b = [], []
            off = 0
            for g, m in zip(gs, sizes):
                r1 = [0.0] * nv
                r2 = [0.0] * nv
                r3 = [0.0] * nv
                for j, p in enumerate(pts[g]):
                    r1[off + j] = 1.0
                    r2[off + j] = float(p[0])
                    r3[off + j] = float(p[1])
                r3[-1] = -1.0
                A += [r1, r2, r3]
                b += [1.0, x, 0.0]
                off += m
            c = [0.0] * nv
            c[-1] = -1.0
            res = linprog(c=c, A_eq=A, b_eq=b, bounds=[(0, None)] * (nv - 1) + [(None, None)], method="highs")
            if res.status != 0:
                continue
            v = float(eo_objective(case["objective"], n - n_pos, n_pos, x, -res.fun))
            if best is None or v > best:
                best = v
    return best


# ------------------------------------------------------------------------------- observation of the implementation
def impl_view(case, o):
    """Everything derived from the implementation's outputs, from first principles:
    per group: probabilities on its rows (from `_pmf_predict`), probabilities recomputed from the
    interpolation_dict entry, expected x / y metric."""
    gs, rows = groups_of(case)
    xm, ym = xy_metrics(case)
    idx = {g: [k for k, r in enumerate(case["rows"]) if r[0] == g] for g in gs}
    view = {}
    for g in gs:
        pm = [o["pmf1"][k] for k in idx[g]]
        pm0 = [o["pmf0"][k] for k in idx[g]]
        rule = o["rules"][str(g)]
        rec = [float(prob_of_rule(rule, s)) for s, _ in rows[g]]
        view[g] = {
            "pmf": pm, "pmf0": pm0, "recomputed": rec,
            "ex": metric_from_probs(xm, rows[g], pm), "ey": metric_from_probs(ym, rows[g], pm),
        }
    return view


def achieved_objective(case, o):
    """objective of the fitted randomised rule on the training data, from `_pmf_predict` alone"""
    gs, rows = groups_of(case)
    n = len(case["rows"])
    if case["constraint"] == "equalized_odds":
        allrows = [(F(r[2]), int(r[1])) for r in case["rows"]]
        return metric_from_probs(case["objective"], allrows, o["pmf1"])
    tot = 0.0
    for g in gs:
        idx = [k for k, r in enumerate(case["rows"]) if r[0] == g]
        tot += len(idx) / n * metric_from_probs(case["objective"], rows[g], [o["pmf1"][k] for k in idx])
    return tot


def constant_objectives(case):
    """objective of the two constant classifiers (exact)"""
    gs, rows = groups_of(case)
    n = len(case["rows"])
    out = []
    for c in (0, 1):
        if case["constraint"] == "equalized_odds":
            allrows = [(F(r[2]), int(r[1])) for r in case["rows"]]
            out.append(metric_from_probs(case["objective"], allrows, [F(c)] * n))
        else:
            out.append(sum(F(len(rows[g]), n) * metric_from_probs(case["objective"], rows[g], [F(c)] * len(rows[g]))
                           for g in gs))
    return out


def point_of_op(rows, xm, ym, gt, thr):
    pr = [F(int(apply_op(gt, thr, s))) for s, _ in rows]
    return metric_from_probs(xm, rows, pr), metric_from_probs(ym, rows, pr)


def case_tags(case, o):
    gs, rows = groups_of(case)
    n = len(case["rows"])
    nl = len({r[2] for r in case["rows"]})
    tags = [f"groups={len(gs)}", f"rows={'<=8' if n <= 8 else '<=16' if n <= 16 else '<=40' if n <= 40 else '>40'}",
            f"levels={'2' if nl == 2 else '3-6' if nl <= 6 else '>6'}", f"constraint={case['constraint']}",
            f"objective={case['objective']}", f"flip={case['flip']}", f"grid={case['grid']}",
            f"container={case['container']}", f"gnames={case.get('gnames', 'str')}"]
    if case["container"] in ("series", "dataframe"):
        tags += [f"yidx={case.get('yidx', 'default')}", f"sfidx={case.get('sfidx', 'default')}",
                 f"xidx={case.get('xidx', 'default')}"]
        if case["container"] == "dataframe":
            tags.append("y-column-named" if case.get("yname", True) else "y-column-0")
    if any(len({s for s, _ in rows[g]}) == 1 for g in gs):
        tags.append("group-with-all-scores-tied")
    if any(len({s for s, _ in rows[g]}) < len(rows[g]) for g in gs):
        tags.append("ties-in-group")
    gaps = [float((b - a) / max(abs(a), abs(b))) for g in gs
            for a, b in zip(sorted({s for s, _ in rows[g]}), sorted({s for s, _ in rows[g]})[1:]) if max(abs(a), abs(b)) > 0]
    if gaps and min(gaps) < 1e-6:
        tags.append("near-tie-scores(rel gap " + ("<1e-12" if min(gaps) < 1e-12 else "<1e-9" if min(gaps) < 1e-9 else "<1e-6") + ")")
    tags.append("history=refit-after-a-previous-life" if case.get("history") else "history=fresh")
    if case.get("query"):
        tags.append("predict-path-query")
        if any(g == -1 for g, _ in case["query"]):
            tags.append("query-has-unseen-group")
    tags.append("estimator=several-scoring-methods" if multi_method(case) else "estimator=predict-only")
    return tags
