"""Entry point:  /venv/bin/python -m harness.vcheck C14 --tier quick|thorough [--replay file]"""
import argparse
import importlib
import os
import sys
import signal


def main():
    ap = argparse.ArgumentParser()
    ap.add_argument("pid")
    ap.add_argument("--tier", default=os.environ.get("VERIF_TIER", "quick"), choices=["quick", "thorough"])
    ap.add_argument("--replay")
    ap.add_argument("--cases", type=int)
    args = ap.parse_args()
    seed = int(os.environ.get("VERIF_SEED", "0"))
    os.environ.setdefault("OMP_NUM_THREADS", "1")
    os.environ.setdefault("OPENBLAS_NUM_THREADS", "1")
    os.environ.setdefault("MKL_NUM_THREADS", "1")
    os.environ["FAIRLEARN_VERIF"] = "1"
    repo = os.environ.get("VERIF_REPO", "/repo")
    if repo != "/repo":
        sys.path.insert(0, repo)
    import warnings
    warnings.filterwarnings("ignore")
    from . import core
    mod = importlib.import_module(f"harness.props.{args.pid.lower()}")
    check = mod.CHECK()
    limit = int(os.environ.get("VERIF_TIMEOUT_S", "1500" if args.tier == "quick" else "7200"))

    def on_alarm(signum, frame):
        print(f"TIMEOUT: {args.pid} exceeded {limit}s", flush=True)
        os._exit(2)
    signal.signal(signal.SIGALRM, on_alarm)
    signal.alarm(limit)
    try:
        rc = core.run_check(check, args.tier, seed, replay=args.replay, max_cases=args.cases)
    except Exception:  # noqa: BLE001
        import traceback
        traceback.print_exc()
        print("HARNESS-ERROR: unexpected exception in the check runner", flush=True)
        rc = 2
    sys.exit(rc)


if __name__ == "__main__":
    main()
