"""Lifter for C20: the ARGUMENT CHECKS of `MetricFrame.__init__` (fairlearn/metrics/_metric_frame.py) as an ordered list
->  lean/FairModel/Generated/FrameChecksSrc.lean

What is read (in execution order of `__init__`):
  * `check_consistent_length(y_true, y_pred)`                                               -> predLen   (sklearn: ValueError)
  * `self._get_annotated_metric_functions(metrics, sample_params, all_data)` whose helper stores every sample parameter
    with `all_data[<col>] = np.asarray(<param value>)` into the frame built from y_true / y_pred  -> paramLen  (pandas: ValueError)
  * `self._process_features(<base>, sensitive_features, y_t)`; `_process_features` is walked branch by branch
    (Series / DataFrame / list / dict / else): every `result.append(GroupFeature(base_name, <col>, ..))` must be preceded in
    its own block by `check_consistent_length(<col>, sample_array)`                          -> sfLen     (ValueError)
    the DataFrame and dict branches' `if not isinstance(col_name, str): raise K`            -> sfName    (K)
    the final `else: raise K` of the `len(f_arr.shape)` chain (features=None is 0-d)        -> sfMissing (K)
  * the same call for `control_features` under `if control_features is not None:`           -> cfLen, cfName
  * the duplicate-name loop `for name in namelist: if name in nameset: raise K; nameset.add(name)` over
    `self._sf_names (+ self._cf_names)`                                                      -> dupName   (K)
A check that is NOT found in that form is simply absent from the list (the bridge theorem
`Validation.frameSrc_eq_frame` then no longer elaborates); a checking call / `_process_features` call in a place the lifter does
not follow, or an unknown exception class, is REFUSED.  Raises the descriptor of the model cannot see (reserved names,
non-scalar lists, dict conversion, bootstrap arguments) are listed as text in `outsideDescriptor`."""
import ast
import re

from .. import translate
from . import normalize
from ..translate import Untranslatable

MF = "fairlearn/metrics/_metric_frame.py"
EXC = {"ValueError": "valueError", "TypeError": "typeError", "RuntimeError": "runtimeError"}
BRANCH_TYPES = {"pd.Series": "Series", "pd.DataFrame": "DataFrame", "list": "list", "dict": "dict"}


def _bad(msg):
    raise Untranslatable("frame_checks lifter: " + msg)


def lstr(s):
    return '"' + s.replace("\\", "\\\\").replace('"', '\\"') + '"'


def _u(n):
    return ast.unparse(n)


def _raise_kind(st):
    e = st.exc
    name = e.func.id if isinstance(e, ast.Call) and isinstance(e.func, ast.Name) else (e.id if isinstance(e, ast.Name) else None)
    if name not in EXC:
        _bad(f"`{_u(st)[:80]}`: exception class I do not know")
    return EXC[name]


def _is_ccl(st):
    """`check_consistent_length(a, b)` statement -> (a, b) texts"""
    if isinstance(st, ast.Expr) and isinstance(st.value, ast.Call) and _u(st.value.func).split(".")[-1] == "check_consistent_length":
        c = st.value
        if len(c.args) != 2 or c.keywords:
            _bad(f"`{_u(st)}`: not a two-argument length comparison")
        return _u(c.args[0]), _u(c.args[1])
    return None


def _has(node, pred):
    return any(pred(n) for n in ast.walk(node))


def _is_ccl_call(n):
    return isinstance(n, ast.Call) and _u(n.func).split(".")[-1] == "check_consistent_length"


def _is_pf_call(n):
    return isinstance(n, ast.Call) and _u(n.func) == "self._process_features"


# ------------------------------------------------------------------------------------------------ _process_features
class Branch:
    def __init__(self, name):
        self.name = name
        self.appends = []        # (column text, checked?)
        self.name_kind = None    # kind of `if not isinstance(col_name, str): raise`
        self.missing_kind = None  # else-branch: kind of the final raise of the shape chain
        self.other = []          # texts of other raises


def _scan(block, sample, br, guard=None):
    checked = set()
    for st in block:
        cc = _is_ccl(st)
        if cc is not None:
            if sample not in cc:
                _bad(f"`{_u(st)}` does not compare with `{sample}`")
            checked.add(cc[0] if cc[1] == sample else cc[1])
            continue
        if isinstance(st, ast.Expr) and isinstance(st.value, ast.Call) and _u(st.value.func) == "result.append":
            a = st.value.args
            if not (len(a) == 1 and isinstance(a[0], ast.Call) and _u(a[0].func) == "GroupFeature" and len(a[0].args) >= 2):
                _bad(f"`{_u(st)[:80]}`: append of something that is not GroupFeature(base_name, column, ..)")
            col = _u(a[0].args[1])
            br.appends.append((col, col in checked))
            continue
        if isinstance(st, ast.Raise):
            br.other.append((guard, _u(st)[:70], _raise_kind(st)))
            continue
        if isinstance(st, ast.If):
            t = _u(st.test)
            m = re.fullmatch(r"not isinstance\((\w+), str\)", t)
            if m and st.body and isinstance(st.body[-1], ast.Raise) and not st.orelse:
                k = _raise_kind(st.body[-1])
                if br.name_kind not in (None, k):
                    _bad("two name checks of different kinds in one branch")
                br.name_kind = k
                continue
            _scan(st.body, sample, br, t)
            _scan(st.orelse, sample, br, "not (" + t + ")")
            continue
        if isinstance(st, ast.For):
            if st.orelse:
                _bad("for .. else in _process_features")
            _scan(st.body, sample, br, guard)
            continue
        if isinstance(st, ast.Try):
            _scan(st.body, sample, br, guard)
            for h in st.handlers:
                _scan(h.body, sample, br, "except")
            continue
        if isinstance(st, (ast.While, ast.With, ast.Return, ast.Assert)) and not isinstance(st, ast.Assert):
            _bad(f"`{type(st).__name__}` inside a branch of _process_features")
        if _has(st, _is_ccl_call) or _has(st, lambda n: isinstance(n, ast.Raise)):
            _bad(f"a check in a place I do not lift: `{_u(st)[:80]}`")
        if isinstance(st, ast.Assign):
            # rebinding a column after its check un-checks it
            for t in st.targets:
                for n in ast.walk(t):
                    if isinstance(n, ast.Name):
                        checked.discard(n.id)
                        if n.id == sample:
                            _bad(f"`{sample}` is rebound inside _process_features")


def _else_missing(block, br):
    """the `len(V.shape) == 1 / == 2 / else: raise` chain of the else branch; V must be the squeezed object array of `features`"""
    var = None
    for st in block:
        if isinstance(st, ast.Assign) and len(st.targets) == 1 and isinstance(st.targets[0], ast.Name) \
                and _u(st.value) == "np.squeeze(np.asarray(features, dtype=object))":
            var = st.targets[0].id
        if isinstance(st, ast.If) and var and _u(st.test) == f"len({var}.shape) == 1":
            o = st.orelse
            if len(o) == 1 and isinstance(o[0], ast.If) and _u(o[0].test) == f"len({var}.shape) == 2" \
                    and len(o[0].orelse) == 1 and isinstance(o[0].orelse[0], ast.Raise):
                br.missing_kind = _raise_kind(o[0].orelse[0])
                return _u(o[0].orelse[0])
    return None


def _process_features(fn):
    a = [x.arg for x in fn.args.args]
    if a != ["self", "base_name", "features", "sample_array"]:
        _bad(f"_process_features signature changed: {a}")
    sample = "sample_array"
    body = [s for s in fn.body if not (isinstance(s, ast.Expr) and isinstance(s.value, ast.Constant))]
    if not (len(body) == 3 and _u(body[0]) == "result = []" and isinstance(body[1], ast.If) and _u(body[2]) == "return result"):
        _bad("_process_features is not `result = []; if/elif chain; return result`")
    branches, node, missing_text = [], body[1], None
    while True:
        m = re.fullmatch(r"isinstance\(features, ([\w.]+)\)", _u(node.test))
        if not m or m.group(1) not in BRANCH_TYPES:
            _bad(f"branch test `{_u(node.test)}` of _process_features")
        br = Branch(BRANCH_TYPES[m.group(1)])
        _scan(node.body, sample, br)
        branches.append(br)
        if len(node.orelse) == 1 and isinstance(node.orelse[0], ast.If) and _u(node.orelse[0].test).startswith("isinstance(features"):
            node = node.orelse[0]
            continue
        br = Branch("else")
        _scan(node.orelse, sample, br)
        missing_text = _else_missing(node.orelse, br)
        branches.append(br)
        break
    names = [b.name for b in branches]
    if sorted(names) != sorted(list(BRANCH_TYPES.values()) + ["else"]):
        _bad(f"branches of _process_features: {names}")
    return branches, missing_text


# ------------------------------------------------------------------------------------------------ sample parameters
def _param_store(cls):
    """`all_data[<col>] = np.asarray(<value loop variable>)` inside `for k, v in sample_params.items()`"""
    fn = cls.get("_construct_annotated_metric_function")
    getter = cls.get("_get_annotated_metric_functions")
    if fn is None or getter is None:
        _bad("the sample-parameter helpers are gone")
    if not _has(getter, lambda n: isinstance(n, ast.Call) and _u(n.func) == "self._construct_annotated_metric_function"
                and any(k.arg == "all_data" and _u(k.value) == "all_data" for k in n.keywords)):
        return None
    for st in ast.walk(fn):
        if isinstance(st, ast.For) and _u(st.iter) == "sample_params.items()" and isinstance(st.target, ast.Tuple) \
                and len(st.target.elts) == 2 and isinstance(st.target.elts[1], ast.Name):
            v = st.target.elts[1].id
            for s in st.body:
                if isinstance(s, ast.Assign) and len(s.targets) == 1 and isinstance(s.targets[0], ast.Subscript) \
                        and _u(s.targets[0].value) == "all_data":
                    if _u(s.value) in (f"np.asarray({v})", f"np.array({v})"):
                        return _u(s)
                    _bad(f"sample parameter stored in a form whose length behaviour I do not know: `{_u(s)}`")
    return None


# ------------------------------------------------------------------------------------------------ __init__
def _dup_block(body):
    for i, st in enumerate(body):
        if not (isinstance(st, ast.For) and isinstance(st.target, ast.Name) and isinstance(st.iter, ast.Name) and len(st.body) == 2):
            continue
        nm, lst = st.target.id, st.iter.id
        t, add = st.body
        if not (isinstance(t, ast.If) and not t.orelse and len(t.body) == 1 and isinstance(t.body[0], ast.Raise)):
            continue
        m = re.fullmatch(rf"{nm} in (\w+)", _u(t.test))
        if not m or _u(add) != f"{m.group(1)}.add({nm})":
            continue
        s = m.group(1)
        before = [_u(x) for x in body[:i]]
        need = [f"{s} = set()", f"{lst} = self._sf_names", f"if self._cf_names:\n    {lst} = {lst} + self._cf_names"]
        if all(n in before for n in need) and before.index(need[1]) < before.index(need[2]):
            return st, _u(t.body[0])[:70], _raise_kind(t.body[0])
    return None


@translate.lifter
def frame_checks(repo):
    tree = normalize.parse(translate._read(repo, MF))
    cls = None
    for n in tree.body:
        if isinstance(n, ast.ClassDef) and n.name == "MetricFrame":
            cls = {f.name: f for f in n.body if isinstance(f, ast.FunctionDef)}
    if cls is None or "__init__" not in cls or "_process_features" not in cls:
        _bad("MetricFrame.__init__ / _process_features not found")
    branches, missing_text = _process_features(cls["_process_features"])
    init = cls["__init__"]
    body = [s for s in init.body if not (isinstance(s, ast.Expr) and isinstance(s.value, ast.Constant))]
    checks, outside = [], []            # (what, pred, exc)
    sample, frame_ok, seen_roles = None, False, []
    all_len = all(b.appends and all(c for _, c in b.appends) for b in branches)
    name_kinds = {b.name: b.name_kind for b in branches if b.name in ("DataFrame", "dict")}

    def expand(role, call_text):
        if role == "sf" and missing_text is not None:
            k = next(b.missing_kind for b in branches if b.name == "else")
            checks.append((f"{call_text} / else: {missing_text} [features=None is 0-d]", "sfMissing", k))
        if all_len:
            checks.append((f"{call_text} / check_consistent_length(<column>, sample_array) before every result.append", role + "Len", "valueError"))
        ks = set(name_kinds.values())
        if len(ks) == 1 and None not in ks:
            checks.append((f"{call_text} / if not isinstance(col_name, str): raise [DataFrame, dict]", role + "Name", ks.pop()))

    def pf_call(st, feature):
        """`v = self._process_features(<str>, feature, sample)`"""
        if not (isinstance(st, ast.Assign) and isinstance(st.value, ast.Call) and _is_pf_call(st.value)):
            return False
        a = st.value.args
        if not (len(a) == 3 and not st.value.keywords and isinstance(a[0], ast.Constant) and isinstance(a[0].value, str)
                and _u(a[1]) == feature and sample is not None and _u(a[2]) == sample):
            _bad(f"`{_u(st)[:90]}`: a _process_features call I do not follow")
        return True

    for st in body:
        cc = _is_ccl(st)
        if cc is not None:
            if set(cc) != {"y_true", "y_pred"} or sample is not None:
                _bad(f"`{_u(st)}` in __init__: not the y_true / y_pred comparison before the conversion")
            checks.append((_u(st), "predLen", "valueError"))
            continue
        if isinstance(st, ast.Assign) and len(st.targets) == 1 and isinstance(st.targets[0], ast.Name):
            tgt, val = st.targets[0].id, _u(st.value)
            if val == "_convert_to_ndarray_and_squeeze(y_true)":
                sample = tgt
                continue
            if tgt == sample:
                _bad(f"`{_u(st)}` rebinds the sample array")
            if tgt == "all_data":
                frame_ok = bool(re.fullmatch(r"pd\.DataFrame\.from_dict\(\{'y_true': list\(" + re.escape(sample or "?") +
                                             r"\), 'y_pred': list\(\w+\)\}\)", val))
                if not frame_ok:
                    _bad(f"all_data is not the y_true / y_pred frame: `{val[:90]}`")
                continue
            if val == "self._get_annotated_metric_functions(metrics, sample_params, all_data)":
                store = _param_store(cls) if frame_ok else None
                if store is not None:
                    checks.append((f"{val.split('(')[0]}(..) / {store}", "paramLen", "valueError"))
                continue
            if pf_call(st, "sensitive_features"):
                if "sf" in seen_roles or "cf" in seen_roles:
                    _bad("sensitive features processed twice / after the control features")
                seen_roles.append("sf")
                expand("sf", _u(st.value)[5:])
                continue
        if isinstance(st, ast.If) and _u(st.test) == "control_features is not None" and not st.orelse:
            n_calls = sum(1 for s in st.body if pf_call(s, "control_features"))
            if n_calls == 1 and sum(1 for n in ast.walk(st) if _is_pf_call(n)) == 1 and not _has(st, lambda n: isinstance(n, ast.Raise)):
                seen_roles.append("cf")
                expand("cf", next(_u(s.value)[5:] for s in st.body if isinstance(s, ast.Assign) and _is_pf_call(s.value)))
                continue
        if _has(st, _is_ccl_call) or _has(st, _is_pf_call):
            _bad(f"a length check / _process_features call in a place I do not lift: `{_u(st)[:90]}`")
        if isinstance(st, ast.For):
            d = _dup_block(body)
            if d is not None and d[0] is st:
                checks.append((f"for {st.target.id} in {st.iter.id}: if {_u(st.body[0].test)}: {d[1]}", "dupName", d[2]))
                continue
        for n in ast.walk(st):
            if isinstance(n, ast.Raise):
                _raise_kind(n)
                outside.append(_u(n)[:80])
    if seen_roles[:1] != ["sf"]:
        _bad("no `self._process_features(.., sensitive_features, ..)` call")
    rows = ",\n   ".join(f"⟨{lstr(w)}, .{p}, .{e}⟩" for w, p, e in checks)
    brs = ",\n   ".join(f"({lstr(b.name)}, {str(bool(b.appends) and all(c for _, c in b.appends)).lower()}, "
                        f"{str(b.name_kind is not None).lower()})" for b in branches)
    for b in branches:
        for g, t, k in b.other:
            outside.append(f"_process_features[{b.name}]: {t}")
    outs = ",\n   ".join(lstr(o) for o in outside)
    src = f"""/- GENERATED by harness/lifters/frame_checks.py from {MF} (`MetricFrame.__init__`, `_process_features`,
   `_construct_annotated_metric_function`). Do not edit. -/
namespace Generated.FrameChecksSrc

inductive Exc where
  | valueError | typeError | runtimeError
deriving DecidableEq, Repr

/-- what a check of `MetricFrame.__init__` compares / tests -/
inductive Pred where
  | predLen      -- rows of y_pred against rows of y_true
  | paramLen     -- rows of a sample parameter against the y_true / y_pred frame
  | sfMissing    -- sensitive_features is None (0-d after np.asarray)
  | sfLen        -- rows of a sensitive feature column against y_true
  | sfName       -- a sensitive feature column name that is not a str
  | cfLen        -- rows of a control feature column against y_true
  | cfName       -- a control feature column name that is not a str
  | dupName      -- the same feature name twice among sensitive + control features
deriving DecidableEq, Repr

structure Check where
  what : String
  pred : Pred
  exc : Exc
deriving DecidableEq, Repr

/-- the argument checks of `MetricFrame.__init__` in execution order (the `_process_features` calls expanded) -/
def checks : List Check :=
  [{rows}]

/-- branches of `_process_features`: (container, every appended column length-checked, has a column-name check) -/
def processBranches : List (String × Bool × Bool) :=
  [{brs}]

/-- raises of the same code that the model's descriptor cannot see (reserved names, non-scalar lists, bootstrap arguments) -/
def outsideDescriptor : List String :=
  [{outs}]

end Generated.FrameChecksSrc
"""
    meta = {"checks": [[p, e] for _, p, e in checks], "branches": {b.name: [c for c in b.appends] for b in branches},
            "outside": len(outside)}
    return "FrameChecksSrc.lean", src, meta
