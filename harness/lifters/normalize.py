"""Behaviour-preserving normalisation of fairlearn source BEFORE the lifters match it.

No lifter is registered here.  The lifters call `normalize.parse(source)` instead of `ast.parse(source)`; the result
is an `ast.Module` in which a fixed list of *semantics-preserving* spellings has been brought to one canonical form, so
that a maintainer's harmless refactor does not become a refused translation (= a broken tie = a false alarm):

  noise      docstrings and other bare constant expressions, `pass` next to other statements, `logger.<level>(...)`
             / `logging.<level>(...)` statements whose arguments are side-effect free, `if <pure test>:` whose body
             became empty, every type annotation (`x: T = v` -> `x = v`, `x: T` dropped, argument / return annotations)
  spellings  `x.to_numpy()` -> `x.values`;  `not len(x)` -> `len(x) == 0`;  `range(0, n)` -> `range(n)`;
             `if not c: A else: B` -> `if c: B else: A` (statement and conditional expression; never an `elif` chain);
             `if a != b: A else: B` -> `if a == b: B else: A`;
             `"..{}..".format(a)` with auto-numbered plain fields -> the f-string;  `<literal> == x` -> `x == <literal>`

Every rewrite is an equivalence of Python programs (for `.to_numpy()` / `.values`: of the pandas objects fairlearn
uses them on), never a widening: a semantic edit inside an anchored region still reaches the lifter unchanged.

Further helpers for the lifters themselves:
  rename_locals(fn, pinned)   alpha-renaming of the local variables of a function to the names the lifter was written
                              against (`pinned` = the locals in order of first binding in the pinned source); a
                              bijection on locals that cannot capture a free name, hence behaviour preserving
  binding_order(fn)           the locals of `fn` in order of first binding (arguments excluded)
  module_constants(tree)      module-level `NAME = <literal>` assignments (assigned exactly once)
  resolve_constant(node, consts)   a `Name` bound to a module-level literal -> that literal
  commutative_key / same_modulo_commutativity   comparison of arithmetic modulo `a + b = b + a`, `a * b = b * a`
                              (two-operand IEEE addition and multiplication are commutative bit for bit)
"""
import ast
import copy

LOGGER_NAMES = {"logger", "_logger", "log", "_log", "LOGGER", "logging"}
LOG_LEVELS = {"debug", "info", "warning", "warn", "error", "exception", "critical", "log"}
PURE_CALLS = {"len", "str", "repr", "type", "format", "int", "float", "bool", "round", "sorted", "list", "tuple"}


# ------------------------------------------------------------------------------------------------ purity
def is_pure(node):
    """an expression whose evaluation cannot have a side effect the lifters care about: names, attributes, constants,
    subscripts, arithmetic / comparisons / f-strings of those, and calls of a few builtins"""
    for n in ast.walk(node):
        if isinstance(n, ast.Call):
            f = n.func
            if isinstance(f, ast.Name) and f.id in PURE_CALLS:
                continue
            if isinstance(f, ast.Attribute) and f.attr == "format" and isinstance(f.value, ast.Constant):
                continue
            return False
        if isinstance(n, (ast.Await, ast.Yield, ast.YieldFrom, ast.NamedExpr, ast.Lambda)):
            return False
    return True


def is_log_call(stmt):
    if not (isinstance(stmt, ast.Expr) and isinstance(stmt.value, ast.Call)):
        return False
    f = stmt.value.func
    if not (isinstance(f, ast.Attribute) and f.attr in LOG_LEVELS and isinstance(f.value, ast.Name)
            and f.value.id in LOGGER_NAMES):
        return False
    return all(is_pure(a) for a in stmt.value.args) and all(is_pure(k.value) for k in stmt.value.keywords)


# ------------------------------------------------------------------------------------------------ the pass
class _Normalise(ast.NodeTransformer):
    def __init__(self, keep_logs=False, swap_not=True, formats=True):
        self.keep_logs = keep_logs
        self.swap_not = swap_not
        self.formats = formats

    # ---- statements
    def _block(self, stmts, allow_empty=False):
        out = [s for s in stmts if not self._noise(s)]
        if len(out) > 1 or allow_empty:
            out = [s for s in out if not isinstance(s, ast.Pass)]
        if not out and not allow_empty:
            out = [ast.Pass()]
        return out

    def _noise(self, s):
        if isinstance(s, ast.Expr) and isinstance(s.value, ast.Constant) and s.value.value is not Ellipsis:
            return True
        if not self.keep_logs and is_log_call(s):
            return True
        if isinstance(s, ast.If) and not s.orelse and all(isinstance(b, ast.Pass) for b in s.body) and is_pure(s.test):
            return True
        return False

    def generic_visit(self, node):
        node = super().generic_visit(node)          # children first (so that an emptied `if` is seen as noise)
        for field in ("body", "orelse", "finalbody"):
            v = getattr(node, field, None)
            if isinstance(v, list) and (not v or isinstance(v[0], ast.stmt)):
                setattr(node, field, self._block(v, allow_empty=(field != "body")))
        return node

    def visit_Module(self, node):
        return self.generic_visit(node)

    def _strip_sig(self, node):
        node.returns = None
        a = node.args
        for arg in a.posonlyargs + a.args + a.kwonlyargs + [x for x in (a.vararg, a.kwarg) if x is not None]:
            arg.annotation = None

    def visit_FunctionDef(self, node):
        self._strip_sig(node)
        return self.generic_visit(node)

    visit_AsyncFunctionDef = visit_FunctionDef

    def visit_Lambda(self, node):
        return self.generic_visit(node)

    def visit_AnnAssign(self, node):
        if node.value is None:
            return None
        new = ast.Assign(targets=[node.target], value=node.value, type_comment=None)
        return self.generic_visit(ast.copy_location(new, node))

    def visit_If(self, node):
        node = self.generic_visit(node)
        if (self.swap_not and isinstance(node.test, ast.UnaryOp) and isinstance(node.test.op, ast.Not) and node.orelse
                and not (len(node.orelse) == 1 and isinstance(node.orelse[0], ast.If))
                and not any(isinstance(s, ast.Pass) for s in node.body)):
            node.test, node.body, node.orelse = node.test.operand, node.orelse, node.body
        # `if a != b: A else: B` -> `if a == b: B else: A`
        t = node.test
        if (self.swap_not and isinstance(t, ast.Compare) and len(t.ops) == 1 and isinstance(t.ops[0], ast.NotEq) and node.orelse
                and not (len(node.orelse) == 1 and isinstance(node.orelse[0], ast.If))
                and not any(isinstance(s, ast.Pass) for s in node.body)):
            t.ops = [ast.Eq()]
            node.body, node.orelse = node.orelse, node.body
        return node

    # ---- expressions
    def visit_IfExp(self, node):
        node = self.generic_visit(node)
        if self.swap_not and isinstance(node.test, ast.UnaryOp) and isinstance(node.test.op, ast.Not):
            node.test, node.body, node.orelse = node.test.operand, node.orelse, node.body
        return node

    def visit_UnaryOp(self, node):
        node = self.generic_visit(node)
        o = node.operand
        if isinstance(node.op, ast.Not) and isinstance(o, ast.Call) and isinstance(o.func, ast.Name) and o.func.id == "len" \
                and len(o.args) == 1 and not o.keywords:
            return ast.copy_location(ast.Compare(left=o, ops=[ast.Eq()], comparators=[ast.Constant(0)]), node)
        return node

    def visit_Compare(self, node):
        node = self.generic_visit(node)
        # `<literal> == x` -> `x == <literal>` (equality is symmetric for the builtin / numpy / pandas operands fairlearn has)
        if len(node.ops) == 1 and isinstance(node.ops[0], (ast.Eq, ast.NotEq)) and is_literal(node.left) \
                and not is_literal(node.comparators[0]):
            node.left, node.comparators = node.comparators[0], [node.left]
        return node

    def visit_Call(self, node):
        node = self.generic_visit(node)
        f = node.func
        if isinstance(f, ast.Attribute) and f.attr == "to_numpy" and not node.args and not node.keywords:
            return ast.copy_location(ast.Attribute(value=f.value, attr="values", ctx=ast.Load()), node)
        if isinstance(f, ast.Name) and f.id == "range" and len(node.args) == 2 and not node.keywords \
                and isinstance(node.args[0], ast.Constant) and node.args[0].value == 0 \
                and not isinstance(node.args[0].value, bool):
            node.args = [node.args[1]]
            return node
        if self.formats and isinstance(f, ast.Attribute) and f.attr == "format" and isinstance(f.value, ast.Constant) \
                and isinstance(f.value.value, str) and not node.keywords \
                and not any(isinstance(a, ast.Starred) for a in node.args):
            js = _format_to_fstring(f.value.value, node.args)
            if js is not None:
                return ast.copy_location(js, node)
        return node


def _format_to_fstring(template, args):
    """'a {} b {}'.format(x, y) -> f'a {x} b {y}' (auto-numbered fields without conversion / format spec only)"""
    import string
    parts, i = [], 0
    try:
        fields = list(string.Formatter().parse(template))
    except ValueError:
        return None
    for lit, name, spec, conv in fields:
        if lit:
            parts.append(ast.Constant(lit))
        if name is None:
            continue
        if name != "" or spec or conv or i >= len(args):
            return None
        parts.append(ast.FormattedValue(value=args[i], conversion=-1, format_spec=None))
        i += 1
    if i != len(args):
        return None
    # adjacent constants are merged the way the parser does it
    merged = []
    for p in parts:
        if merged and isinstance(p, ast.Constant) and isinstance(merged[-1], ast.Constant):
            merged[-1] = ast.Constant(merged[-1].value + p.value)
        else:
            merged.append(p)
    return ast.JoinedStr(values=merged)


def normalise(tree, **opts):
    tree = _Normalise(**opts).visit(tree)
    ast.fix_missing_locations(tree)
    return tree


def parse(src, **opts):
    """ast.parse + normalise"""
    return normalise(ast.parse(src), **opts)


# ------------------------------------------------------------------------------------------------ locals
def binding_order(fn, include_args=False):
    """local names of `fn` (including those of nested functions / comprehensions) in order of first binding"""
    seen, out = set(), []
    declared = set()

    def add(n):
        if n not in seen and n not in declared:
            seen.add(n)
            out.append(n)

    class V(ast.NodeVisitor):
        def visit_Global(self, node):
            declared.update(node.names)

        visit_Nonlocal = visit_Global

        def visit_FunctionDef(self, node):
            if node is not fn:
                add(node.name)
                for a in _all_args(node):
                    add(a.arg)
            elif include_args:
                for a in _all_args(node):
                    add(a.arg)
            for d in node.args.defaults + [d for d in node.args.kw_defaults if d is not None]:
                self.visit(d)
            for s in node.body:
                self.visit(s)

        def visit_Lambda(self, node):
            for a in _all_args(node):
                add(a.arg)
            self.visit(node.body)

        def visit_Assign(self, node):
            self.visit(node.value)      # the value is evaluated before the targets are bound
            for t in node.targets:
                self.visit(t)

        def visit_AugAssign(self, node):
            self.visit(node.value)
            self.visit(node.target)

        def visit_For(self, node):
            self.visit(node.iter)
            self.visit(node.target)
            for s in node.body + node.orelse:
                self.visit(s)

        def _comp(self, node):
            for g in node.generators:
                self.visit(g.iter)
                self.visit(g.target)
                for c in g.ifs:
                    self.visit(c)
            for f in ("elt", "key", "value"):
                if hasattr(node, f):
                    self.visit(getattr(node, f))

        visit_ListComp = visit_SetComp = visit_GeneratorExp = visit_DictComp = _comp

        def visit_Name(self, node):
            if isinstance(node.ctx, (ast.Store, ast.Del)):
                add(node.id)

        def visit_ExceptHandler(self, node):
            if node.name:
                add(node.name)
            self.generic_visit(node)

        def visit_alias(self, node):
            add((node.asname or node.name).split(".")[0])

    V().visit(fn)
    args = {a.arg for a in _all_args(fn)}
    return [n for n in out if include_args or n not in args]


def _all_args(fn):
    a = fn.args
    return a.posonlyargs + a.args + a.kwonlyargs + [x for x in (a.vararg, a.kwarg) if x is not None]


def free_names(fn):
    bound = set(binding_order(fn, include_args=True))
    return {n.id for n in ast.walk(fn) if isinstance(n, ast.Name) and n.id not in bound}


def rename_locals(fn, pinned, include_args=False):
    """Return a copy of `fn` whose locals are renamed to `pinned` (the locals of the source the lifter was written
    against, from `binding_order`).  Locals whose name is pinned keep it; the others, in order of first binding, take
    the pinned names that are missing, in pinned order (so a rename survives a reordering of OTHER statements).
    Nothing is renamed unless the function binds exactly len(pinned) locals and the renaming is a bijection that captures
    no free name of the function; keyword names of calls and attribute names are never touched.  The result is
    alpha-equivalent to `fn`, so whatever the lifter derives from it holds of `fn`."""
    order = binding_order(fn, include_args=include_args)
    if len(order) != len(pinned) or len(set(pinned)) != len(pinned) or set(order) == set(pinned):
        return fn
    new_names = [n for n in order if n not in pinned]
    missing = [n for n in pinned if n not in order]
    ren = dict(zip(new_names, missing))
    if not ren or len(new_names) != len(missing):
        return fn
    untouched = (set(binding_order(fn, include_args=True)) | free_names(fn)) - set(ren)
    if any(b in untouched for b in ren.values()):
        return fn           # the new name would capture / be captured
    fn = copy.deepcopy(fn)
    top = fn
    for n in ast.walk(fn):
        if isinstance(n, ast.Name) and n.id in ren:
            n.id = ren[n.id]
        elif isinstance(n, ast.arg) and n.arg in ren:
            n.arg = ren[n.arg]
        elif isinstance(n, (ast.FunctionDef, ast.AsyncFunctionDef)) and n is not top and n.name in ren:
            n.name = ren[n.name]
        elif isinstance(n, ast.ExceptHandler) and n.name in ren:
            n.name = ren[n.name]
        elif isinstance(n, (ast.Global, ast.Nonlocal)):
            n.names = [ren.get(x, x) for x in n.names]
    return fn


def rename_in_tree(tree, pinned_by_function):
    """apply rename_locals to the named functions / methods of a module, in place: {"f": [...], "Cls.m": [...]}"""
    def walk(body, prefix):
        for i, n in enumerate(body):
            if isinstance(n, (ast.FunctionDef, ast.AsyncFunctionDef)):
                key = prefix + n.name
                if key in pinned_by_function:
                    body[i] = rename_locals(n, pinned_by_function[key])
            elif isinstance(n, ast.ClassDef):
                walk(n.body, prefix + n.name + ".")
    walk(tree.body, "")
    return tree


# ------------------------------------------------------------------------------------------------ constants
def module_constants(tree):
    """module-level `NAME = <number | string | bool | None | -number>` bound exactly once in the module"""
    out, count = {}, {}
    for n in tree.body:
        targets = []
        if isinstance(n, ast.Assign):
            targets = n.targets
        elif isinstance(n, ast.AugAssign):
            targets = [n.target]
        for t in targets:
            for m in ast.walk(t):
                if isinstance(m, ast.Name):
                    count[m.id] = count.get(m.id, 0) + 1
        if isinstance(n, ast.Assign) and len(n.targets) == 1 and isinstance(n.targets[0], ast.Name) and is_literal(n.value):
            out[n.targets[0].id] = n.value
    # a name that is also assigned inside a function through `global` is not a constant
    for n in ast.walk(tree):
        if isinstance(n, ast.Global):
            for x in n.names:
                count[x] = count.get(x, 0) + 1
    return {k: v for k, v in out.items() if count.get(k) == 1}


def is_literal(n):
    if isinstance(n, ast.Constant):
        return True
    return isinstance(n, ast.UnaryOp) and isinstance(n.op, (ast.USub, ast.UAdd)) and isinstance(n.operand, ast.Constant) \
        and isinstance(n.operand.value, (int, float)) and not isinstance(n.operand.value, bool)


def resolve_constant(node, consts, local_names=()):
    """a Name that denotes a module-level literal (and is not shadowed by a local) -> a copy of that literal"""
    if isinstance(node, ast.Name) and node.id in consts and node.id not in local_names:
        return copy.deepcopy(consts[node.id])
    return node


# ------------------------------------------------------------------------------------------------ commutativity
def commutative_key(node):
    """a string that is equal for two arithmetic expressions iff they differ only by swapping the two operands of
    binary `+` / `*` nodes (no re-association: float addition is commutative, not associative)"""
    if isinstance(node, ast.BinOp):
        l, r = commutative_key(node.left), commutative_key(node.right)
        if isinstance(node.op, (ast.Add, ast.Mult)) and r < l:
            l, r = r, l
        return f"({type(node.op).__name__} {l} {r})"
    if isinstance(node, ast.UnaryOp):
        return f"({type(node.op).__name__} {commutative_key(node.operand)})"
    return ast.dump(node)


def same_modulo_commutativity(a, b):
    return commutative_key(a) == commutative_key(b)


def prefer(node, pinned_src):
    """If `node` equals the expression `pinned_src` (Python source the lifter was written against) up to commutativity of
    `+` and `*`, return the pinned expression (so that the emitted text is the pinned text); otherwise `node`."""
    for src in ([pinned_src] if isinstance(pinned_src, str) else pinned_src):
        p = ast.parse(src, mode="eval").body
        if same_modulo_commutativity(node, p):
            return p
    return node


# ------------------------------------------------------------------------------------------------ emitted Lean terms
def _lean_tokens(text):
    out, cur = [], ""
    for ch in text:
        if ch in "()":
            if cur:
                out.append(cur)
                cur = ""
            out.append(ch)
        elif ch.isspace():
            if cur:
                out.append(cur)
                cur = ""
        else:
            cur += ch
    if cur:
        out.append(cur)
    return out


def lean_ckey(text):
    """Key of a fully parenthesised arithmetic term as the lifters emit it (`(a + b)`, `(a * (b - c))`, atoms such as
    `xcur`, `(1 : Rat)`, `(f x y)`): equal for two terms iff they differ only by swapping the operands of binary `+` / `*`
    nodes.  Anything that is not of the form `( t op t )` is an opaque atom."""
    toks = _lean_tokens(text)
    pos = 0

    def term():
        nonlocal pos
        if pos >= len(toks):
            raise ValueError("unbalanced")
        t = toks[pos]
        if t == ")":
            raise ValueError("unbalanced")
        if t != "(":
            pos += 1
            return t
        pos += 1
        items = []
        while pos < len(toks) and toks[pos] != ")":
            items.append(term())
        if pos >= len(toks):
            raise ValueError("unbalanced")
        pos += 1
        if len(items) == 3 and items[1] in ("+", "-", "*", "/"):
            l, op, r = items
            if op in ("+", "*") and r < l:
                l, r = r, l
            return f"[{op} {l} {r}]"
        return "(" + " ".join(items) + ")"
    items = []
    while pos < len(toks):
        items.append(term())
    return " ".join(items)


def lean_prefer(text, pinned):
    """`text` if it is not, modulo commutativity of `+` / `*` (numeric terms only!), one of the `pinned` emitted terms;
    otherwise that pinned term.  Keeps the generated file byte-identical under `a + b` <-> `b + a` refactors."""
    try:
        k = lean_ckey(text)
    except ValueError:
        return text
    for p in pinned:
        if p == text:
            return text
        try:
            if lean_ckey(p) == k:
                return p
        except ValueError:
            continue
    return text


# ------------------------------------------------------------------------------------------------ temporaries
PURE_FUNCS = PURE_CALLS | {"sum", "min", "max", "abs", "dict", "set", "isinstance", "getattr", "hasattr", "zip", "enumerate"}
PURE_MODULES = {"np", "numpy", "pd", "pandas", "math"}
PURE_METHODS = {"format", "copy", "sort_values", "reset_index", "astype", "get", "keys", "items", "values", "join",
                "transpose", "dot", "sum", "mean", "abs", "min", "max", "idxmin", "idxmax", "reshape", "tolist"}


def is_pure_expr(node, extra_funcs=(), extra_methods=()):
    """side-effect free in the sense needed to move the evaluation of `node` into the NEXT statement: no call other than
    builtins / numpy / pandas constructors and non-mutating methods (a lifter may add names it knows to be pure)"""
    for n in ast.walk(node):
        if isinstance(n, (ast.Await, ast.Yield, ast.YieldFrom, ast.NamedExpr)):
            return False
        if isinstance(n, ast.Call):
            f = n.func
            if isinstance(f, ast.Name) and (f.id in PURE_FUNCS or f.id in extra_funcs):
                continue
            if isinstance(f, ast.Attribute):
                if isinstance(f.value, ast.Name) and f.value.id in PURE_MODULES and f.attr not in ("seterr", "random"):
                    continue
                if f.attr in PURE_METHODS or f.attr in extra_methods:
                    continue
            if isinstance(f, ast.Subscript) and isinstance(f.value, ast.Name) and f.value.id in extra_funcs:
                continue
            return False
    return True


class _Subst(ast.NodeTransformer):
    def __init__(self, env):
        self.env = env

    def visit_Name(self, node):
        if isinstance(node.ctx, ast.Load) and node.id in self.env:
            return copy.deepcopy(self.env[node.id])
        return node


def _loads(node, names):
    return [n.id for n in ast.walk(node) if isinstance(n, ast.Name) and isinstance(n.ctx, ast.Load) and n.id in names]


def _header_fields(stmt):
    """the expression fields of a statement that are evaluated BEFORE any nested statement of it runs"""
    if isinstance(stmt, (ast.If, ast.While)):
        return ["test"]
    if isinstance(stmt, ast.For):
        return ["iter"]
    if isinstance(stmt, ast.With):
        return ["items"]
    if isinstance(stmt, (ast.FunctionDef, ast.AsyncFunctionDef, ast.ClassDef, ast.Try)):
        return []
    return None     # a simple statement: every field


def inline_new_temporaries(fn, pinned, extra_funcs=(), extra_methods=()):
    """Undo the refactor "introduce a temporary for a sub-expression".  Only when `fn` binds MORE locals than the pinned
    source did: a *new temporary* is a local that is not in `pinned` and not an argument.  A statement `t = <pure expr>`
    with a new temporary `t`, immediately followed by a statement S, is substituted into S (for a compound S: into its
    header expression only) when `t` occurs nowhere else in the function, or when S is itself `t = <expr using t>` (a
    chain `t = e; t = f(t); return g(t)`).  Moving a side-effect-free evaluation into the next statement preserves
    behaviour.  Works on a copy; returns `fn` itself when nothing applies."""
    args = {a.arg for a in _all_args(fn)}
    known = set(pinned) | args
    order = binding_order(fn)
    new = {n for n in order if n not in known}
    if not new or len(order) <= len(pinned):
        return fn
    fn2 = copy.deepcopy(fn)
    changed = False

    def occurrences(t):
        return sum(1 for n in ast.walk(fn2) if isinstance(n, ast.Name) and n.id == t)

    def is_temp_assign(s):
        # the value may be impure (an RNG draw, a fit): then the consumer must not evaluate anything impure itself
        return (isinstance(s, ast.Assign) and len(s.targets) == 1 and isinstance(s.targets[0], ast.Name)
                and s.targets[0].id in new and not _loads(s.value, {s.targets[0].id})
                and not any(isinstance(n, (ast.Await, ast.Yield, ast.YieldFrom, ast.NamedExpr)) for n in ast.walk(s.value)))

    def header_nodes(consumer):
        hdr = _header_fields(consumer)
        if hdr is None:
            return None, [consumer]
        nodes = []
        for f in hdr:
            v = getattr(consumer, f)
            nodes.extend(v if isinstance(v, list) else [v])
        return hdr, nodes

    def try_inline(s, consumer):
        t = s.targets[0].id
        hdr, nodes = header_nodes(consumer)
        loads = stores = 0
        for node in nodes:
            for n in ast.walk(node):
                if isinstance(n, ast.Name) and n.id == t:
                    if isinstance(n.ctx, ast.Load):
                        loads += 1
                    else:
                        stores += 1
        rebinding = (isinstance(consumer, ast.Assign) and len(consumer.targets) == 1
                     and isinstance(consumer.targets[0], ast.Name) and consumer.targets[0].id == t and stores == 1)
        if not rebinding and (stores or occurrences(t) != 1 + loads):
            return None
        if not is_pure_expr(s.value, extra_funcs, extra_methods):
            # an impure value may only move into a consumer that uses it once and evaluates nothing impure besides it
            if loads != 1 or not all(is_pure_expr(node, extra_funcs, extra_methods) for node in nodes):
                return None
        sub = _Subst({t: s.value})
        if hdr is None:
            if rebinding:
                consumer.value = sub.visit(consumer.value)
            else:
                consumer = sub.visit(consumer)
        else:
            for f in hdr:
                v = getattr(consumer, f)
                setattr(consumer, f, [sub.visit(x) for x in v] if isinstance(v, list) else sub.visit(v))
        return consumer

    # `occurrences` walks fn2, so the block being rewritten must be attached while it is processed
    def attach(node):
        for f in ("body", "orelse", "finalbody"):
            v = getattr(node, f, None)
            if isinstance(v, list) and v and isinstance(v[0], ast.stmt):
                setattr(node, f, block_attached(node, f))

    def block_attached(node, field):
        nonlocal changed
        again = True
        while again:
            again = False
            stmts = getattr(node, field)
            for i in range(len(stmts) - 1):
                if is_temp_assign(stmts[i]):
                    c = try_inline(stmts[i], stmts[i + 1])
                    if c is not None:
                        stmts[i:i + 2] = [c]
                        changed = again = True
                        break
        for s in getattr(node, field):
            attach(s)
            for h in getattr(s, "handlers", []):
                attach(h)
        return getattr(node, field)

    attach(fn2)
    if not changed:
        return fn
    ast.fix_missing_locations(fn2)
    return fn2


def canon_function(fn, pinned, extra_funcs=(), extra_methods=()):
    """new temporaries inlined, then locals alpha-renamed to the pinned names"""
    return rename_locals(inline_new_temporaries(fn, pinned, extra_funcs, extra_methods), pinned)


def canon_tree(tree, pinned_by_function, extra_funcs=(), extra_methods=()):
    """apply canon_function to the named functions / methods of a module, in place: {"f": [...], "Cls.m": [...]}"""
    def walk(body, prefix):
        for i, n in enumerate(body):
            if isinstance(n, (ast.FunctionDef, ast.AsyncFunctionDef)):
                key = prefix + n.name
                if key in pinned_by_function:
                    body[i] = canon_function(n, pinned_by_function[key], extra_funcs, extra_methods)
            elif isinstance(n, ast.ClassDef):
                walk(n.body, prefix + n.name + ".")
    walk(tree.body, "")
    return tree


def fold_early_exits(stmts):
    """`if c: ...; return x` followed by more statements  ->  `if c: ...; return x` `else:` those statements (recursively),
    for an `if` without `else` whose body ends in return / raise / continue / break: the same control flow, written as the
    if / elif / else chain.  Returns a new statement list (the nodes are copied)."""
    stmts = [copy.deepcopy(s) for s in stmts]
    for i, s in enumerate(stmts):
        if isinstance(s, ast.If) and not s.orelse and s.body and i + 1 < len(stmts) \
                and isinstance(s.body[-1], (ast.Return, ast.Raise, ast.Continue, ast.Break)):
            s.orelse = fold_early_exits(stmts[i + 1:])
            return stmts[:i + 1]
    return stmts


# ------------------------------------------------------------------------------------------------ module constants
def inline_module_numbers(tree, strings=False):
    """Replace, in place, every load of a module-level NUMERIC constant (`NAME = <number>` bound exactly once in the module,
    see module_constants; with strings=True also string constants) by the literal, except where a function argument or
    local of an enclosing function / lambda shadows the name.  Undoes "move a constant to a module-level name"."""
    consts = {k: v for k, v in module_constants(tree).items()
              if (is_literal(v) and not (isinstance(v, ast.Constant) and (isinstance(v.value, (str, bytes, bool)) or v.value is None)))
              or (strings and isinstance(v, ast.Constant) and isinstance(v.value, str))}
    if not consts:
        return tree

    class T(ast.NodeTransformer):
        def __init__(self):
            self.shadow = [set()]

        def _scoped(self, node, names):
            self.shadow.append(self.shadow[-1] | names)
            self.generic_visit(node)
            self.shadow.pop()
            return node

        def visit_FunctionDef(self, node):
            return self._scoped(node, set(binding_order(node, include_args=True)))

        visit_AsyncFunctionDef = visit_FunctionDef

        def visit_Lambda(self, node):
            return self._scoped(node, {a.arg for a in _all_args(node)})

        def visit_Name(self, node):
            if isinstance(node.ctx, ast.Load) and node.id in consts and node.id not in self.shadow[-1]:
                return ast.copy_location(copy.deepcopy(consts[node.id]), node)
            return node

    T().visit(tree)
    return tree
