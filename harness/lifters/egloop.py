"""Lifters for the ExponentiatedGradient MAIN LOOP and for `solve_linprog` (C08 extension):

  lift_egloop   exponentiated_gradient.py:fit / _lagrangian.py:eval_gap,best_h
                -> Generated/EGLoopGen.lean   (lambda formula, eta0/B, regret check + shrink, theta update,
                   Q_EG normalisation, Qsum bump, LP-skip condition, eval_gap break, h_value, last_iter_;
                   plus a refusal unless the statements of the loop body keep their data-flow order and the
                   initial values / bookkeeping assignments keep the shape the model is written against)
  lift_linprog  _lagrangian.py:solve_linprog
                -> Generated/LinProgGen.lean  (c, A_ub, b_ub, A_eq, b_eq, dual_c, dual_A_ub, dual_b_ub, dual_bounds
                   as list/matrix expressions translated from the numpy expressions)

Every fragment is found by the NAME it assigns (so renaming an unrelated local or reordering independent statements
does not matter) and translated expression by expression; a shape that is not understood raises `Untranslatable`.
"""
import ast
import os

from .. import translate
from . import normalize
from .eg import CONSTS, EG_FILE, LAG_FILE, Expr, find_func, one, rat_lit  # noqa: F401  (eg registers its own lifter)
from .moments import inline_temps, respell


def U(msg):
    return translate.Untranslatable("egloop lifter: " + msg)


class LExpr(Expr):
    """eg.Expr + Nat->Rat coercion in mixed arithmetic/comparisons, `not`, `==` on naturals"""

    def tr(self, node):
        key = ast.unparse(node)
        if key in self.env:
            return self.env[key]
        if isinstance(node, ast.UnaryOp) and isinstance(node.op, ast.Not):
            a, ta = self.tr(node.operand)
            if ta != "Bool":
                raise U(f"`not` of a non-boolean in {key}")
            return (f"(!{a})", "Bool")
        if isinstance(node, ast.UnaryOp) and isinstance(node.op, ast.USub):
            a, ta = self.tr(node.operand)
            if ta == "Num":
                return (f"(-{a} : Rat)", "Rat")
            if ta != "Rat":
                raise U(f"negation of {ta} in {key}")
            return (f"(-{a})", "Rat")
        try:
            return super().tr(node)
        except translate.Untranslatable as e:
            raise U(str(e))

    @staticmethod
    def unify(ta, tb, key):
        if {ta, tb} == {"Nat", "Rat"}:
            return "Rat"
        if ta == tb:
            return "Rat" if ta == "Num" else ta
        if "Num" in (ta, tb):
            return tb if ta == "Num" else ta
        raise U(f"type mismatch {ta} vs {tb} in {key}")

    @staticmethod
    def cast(a, ta, t):
        if ta == "Num":
            return f"({a} : {t})"
        if ta == "Nat" and t == "Rat":
            return f"(({a} : Nat) : Rat)"
        return a


# ---- alpha-normalisation: locals are recognised by ROLE (what they are assigned / where they are used), then renamed to
#      the names the shape checks below are written with, so that renaming a local in the source is harmless ----------

class _Renamer(ast.NodeTransformer):
    def __init__(self, m):
        self.m = m

    def visit_Name(self, node):
        node.id = self.m.get(node.id, node.id)
        return node


def _targets(node):
    if isinstance(node, ast.Assign) and len(node.targets) == 1:
        return node.targets[0], node.value
    if isinstance(node, ast.AnnAssign) and node.value is not None:
        return node.target, node.value
    return None, None


def by_value(regex, names, where=None):
    """assignments whose value text matches `regex`: the target(s) get `names` (str, or list with None = skip)"""
    import re
    rx = re.compile(regex)

    def rule(func):
        m = {}
        for node in ast.walk(where(func) if where else func):
            tgt, val = _targets(node)
            if tgt is None or not rx.search(ast.unparse(val)):
                continue
            if isinstance(names, str):
                if isinstance(tgt, ast.Name):
                    m[tgt.id] = names
            elif isinstance(tgt, ast.Tuple) and len(tgt.elts) == len(names):
                for e, nm in zip(tgt.elts, names):
                    if nm and isinstance(e, ast.Name):
                        m[e.id] = nm
        return m
    return rule


def by_call(regex, arg_names=(), kw_names=None):
    """calls whose function text matches `regex`: positional Name arguments / keyword Name arguments get roles"""
    import re
    rx = re.compile(regex)

    def rule(func):
        m = {}
        for node in ast.walk(func):
            if isinstance(node, ast.Call) and rx.search(ast.unparse(node.func)):
                for a, nm in zip(node.args, arg_names):
                    if nm and isinstance(a, ast.Name):
                        m[a.id] = nm
                for k in node.keywords:
                    if kw_names and k.arg in kw_names and isinstance(k.value, ast.Name):
                        m[k.value.id] = kw_names[k.arg]
        return m
    return rule


def canonicalise(func, rules):
    for _ in range(8):
        m = {}
        for r in rules:
            for k, v in r(func).items():
                if k != v:
                    m[k] = v
        if not m:
            return
        if len(set(m.values())) != len(m):
            raise U(f"ambiguous roles for local names: {m}")
        _Renamer(m).visit(func)
    raise U("local-name normalisation does not converge")


def _pre_loop(func):
    body = []
    for n in func.body:
        if isinstance(n, ast.For):
            break
        body.append(n)
    return ast.Module(body=body, type_ignores=[])


def _loop_target(func):
    for n in func.body:
        if isinstance(n, ast.For) and isinstance(n.target, ast.Name) and ast.unparse(n.iter).startswith("range(self.max_iter"):
            return {n.target.id: "t"}
    return {}


def _choice_lists(func):
    m = {}
    for node in ast.walk(func):
        if isinstance(node, ast.If) and ast.unparse(node.test).startswith("gap_EG"):
            for st in node.body:
                if isinstance(st, ast.Expr) and isinstance(st.value, ast.Call) and isinstance(st.value.func, ast.Attribute) \
                        and st.value.func.attr == "append" and isinstance(st.value.func.value, ast.Name) and len(st.value.args) == 1:
                    a = ast.unparse(st.value.args[0])
                    if a == "Q_EG":
                        m[st.value.func.value.id] = "Qs"
                    elif a == "gap_EG":
                        m[st.value.func.value.id] = "gaps"
    return m


FIT_RULES = [
    _loop_target,
    by_value(r"^1 / self\.eps$", "B"),
    by_value(r"^_Lagrangian\(", "lagrangian"),
    by_value(r"^pd\.Series\(0, lagrangian\.constraints\.index\)$", "theta"),
    by_value(r"^pd\.Series\(dtype='float64'\)$", "Qsum", _pre_loop),
    by_value(r"^_REGRET_CHECK_START_T$", "last_regret_checked", _pre_loop),
    by_value(r"^np\.inf$", "last_gap", _pre_loop),
    by_value(r"np\.exp\(theta\).*/|/.*np\.exp\(theta\)", "lambda_vec"),
    by_value(r"^lagrangian\.best_h\(lambda_vec\)$", ["h", "h_idx"]),
    by_value(r"^lagrangian\.gammas\[h_idx\]$", "gamma"),
    by_value(r"^lagrangian\.eval_gap\(", "result_EG"),
    by_call(r"^lagrangian\.eval_gap$", ("Q_EG", "lambda_EG")),
    by_value(r"^result_EG\.gap\(\)$", "gap_EG"),
    by_value(r"^lagrangian\.solve_linprog\(self\.nu\)$", ["Q_LP", None, "result_LP"]),
    by_value(r"^result_LP\.gap\(\)$", "gap_LP"),
    by_value(r"^self\.eta0 / B$", "eta"),
    by_value(r"^min\(\w+\)$", "best_gap"),
    by_call(r"^min$", ("gaps_EG",)),
    _choice_lists,
]

LP_RULES = [
    by_value(r"^len\(self\.hs\)$", "n_hs"),
    by_value(r"^len\(self\.constraints\.index\)$", "n_constraints"),
    by_value(r"^opt\.linprog\(\w+, A_ub=\w+, b_ub=\w+, A_eq=", "result"),
    by_value(r"^opt\.linprog\(\w+, A_ub=\w+, b_ub=\w+, bounds=", "result_dual"),
]


def _lp_call_roles(func):
    m = {}
    for node in ast.walk(func):
        if isinstance(node, ast.Call) and ast.unparse(node.func) == "opt.linprog" and node.args and isinstance(node.args[0], ast.Name):
            kws = {k.arg: k.value for k in node.keywords}
            dual = "bounds" in kws
            roles = {"A_ub": "dual_A_ub", "b_ub": "dual_b_ub", "bounds": "dual_bounds"} if dual else \
                {"A_ub": "A_ub", "b_ub": "b_ub", "A_eq": "A_eq", "b_eq": "b_eq"}
            m[node.args[0].id] = "dual_c" if dual else "c"
            for k, nm in roles.items():
                if isinstance(kws.get(k), ast.Name):
                    m[kws[k].id] = nm
    return m


LP_RULES.append(_lp_call_roles)


# ---- behaviour-preserving re-spellings undone before matching (shared with eg.py) ------------------------------------
# locals of the pinned source in order of first binding (normalize.binding_order)
FIT_LOCALS = ["B", "lagrangian", "theta", "Qsum", "gaps_EG", "gaps", "Qs", "last_regret_checked", "last_gap", "t", "lambda_vec",
              "lambda_EG", "h", "h_idx", "eta", "gamma", "Q_EG", "result_EG", "gap_EG", "gap_LP", "Q_LP", "result_LP", "best_gap",
              "gaps_series", "gaps_best"]
LAG_LOCALS = {
    "_eval": ["error", "gamma", "L", "max_constraint", "L_high"],
    "eval_gap": ["L", "L_high", "gamma", "error", "result", "mul", "_", "h_hat_idx", "L_low_mul"],
    "best_h": ["classifier", "h", "h_error", "h_gamma", "h_value", "best_idx", "best_value", "values", "h_idx"],
    "solve_linprog": ["n_hs", "n_constraints", "c", "A_ub", "b_ub", "A_eq", "b_eq", "result", "Q", "dual_c", "dual_A_ub", "dual_b_ub",
                      "i", "dual_bounds", "result_dual", "lambda_vec"],
}
# methods that only read (numpy / pandas reductions, the moments' accessors): a temporary holding such a value may be
# substituted into several readers
READS = {"exp", "sum", "bound", "gap", "mean", "min", "max", "abs", "std", "sqrt", "transpose", "sub", "dot", "ones", "zeros"}
FIT_ARITH = ["B * np.exp(theta) / (1 + np.exp(theta).sum())", "last_regret_checked * _REGRET_CHECK_INCREASE_T",
             "last_gap * _SHRINK_REGRET", "eta * (gamma - self.constraints.bound())", "gaps_series.min() + _PRECISION"]
FIT_TESTS = ["t == 0 or not self.run_linprog_step", "t == 0", "gaps[t] < self.nu and t >= _MIN_ITER", "gaps[t] < self.nu",
             "t >= _MIN_ITER", "t >= last_regret_checked * _REGRET_CHECK_INCREASE_T", "best_gap > last_gap * _SHRINK_REGRET",
             "gap_EG < gap_LP", "gaps_series <= gaps_series.min() + _PRECISION"]
FIT_AUG = ["theta", "eta", "Qsum[h_idx]"]
CALLS = {
    "pd.Series": (["data", "index", "dtype", "name", "copy"], "f(a, b)"),
    "mean": (["axis", "skipna", "numeric_only"], "f(axis=1)"),
    "eval_gap": (["Q", "lambda_hat", "nu"], "f(a, b, c)"),
    "_eval": (["Q", "lambda_vec"], "f(a, b)"),
    "best_h": (["lambda_vec"], "f(a)"),
    "solve_linprog": (["nu"], "f(a)"),
    "opt.linprog": (["c", "A_ub", "b_ub", "A_eq", "b_eq", "bounds", "method"],
                    "f(c, A_ub=1, b_ub=1, A_eq=1, b_eq=1, bounds=1, method=1)"),
    "sub": (["other", "axis", "level", "fill_value"], "f(a, axis=0)"),
}
LAG_ARITH = ["mul * lambda_hat", "nu + _PRECISION", "h_error + h_gamma.dot(lambda_vec)",
             "self.errors + self.gammas.transpose().dot(lambda_vec)", "self.B * max_constraint",
             "lambda_vec * (gamma - self.constraints.bound())",
             "error + np.sum(lambda_vec * (gamma - self.constraints.bound()))", "n_constraints + 1"]
LAG_TESTS = ["result.gap() > nu + _PRECISION", "L_low_mul < result.L_low", "max_constraint > 0",
             "h_value < best_value - _PRECISION", "self.last_linprog_n_hs == n_hs", "i == n_constraints"]
LAG_AUG = ["L_high"]


class _ConcatTuple(ast.NodeTransformer):
    """`np.concatenate([a, b], ...)` -> `np.concatenate((a, b), ...)` (any sequence of arrays is accepted)"""

    def visit_Call(self, node):
        self.generic_visit(node)
        if ast.unparse(node.func) == "np.concatenate" and node.args and isinstance(node.args[0], ast.List):
            node.args[0] = ast.copy_location(ast.Tuple(elts=node.args[0].elts, ctx=ast.Load()), node.args[0])
        return node


def prepare_fit(tree):
    """ExponentiatedGradient.fit with locals renamed by role, temporaries the pinned source does not have inlined, and
    commuted / mirrored / keyword-vs-positional spellings brought back to the pinned ones"""
    fit = find_func(tree, "ExponentiatedGradient", "fit")
    kw = dict(arith=FIT_ARITH, tests=FIT_TESTS, aug=FIT_AUG, calls=CALLS)
    respell(fit, **kw)
    canonicalise(fit, FIT_RULES)
    inline_temps(fit, FIT_LOCALS, READS)
    respell(fit, **kw)
    canonicalise(fit, FIT_RULES)
    new = normalize.rename_locals(fit, FIT_LOCALS)
    fit.body = new.body
    respell(fit, **kw)
    return fit


def prepare_lagrangian(tree):
    """the same for _Lagrangian._eval / eval_gap / best_h / solve_linprog (in place); returns the tree"""
    kw = dict(arith=LAG_ARITH, tests=LAG_TESTS, aug=LAG_AUG, calls=CALLS)
    for name, pinned in LAG_LOCALS.items():
        fn = find_func(tree, "_Lagrangian", name)
        _ConcatTuple().visit(fn)
        respell(fn, **kw)
        if name == "solve_linprog":
            canonicalise(fn, LP_RULES)
        inline_temps(fn, pinned, READS)
        respell(fn, **kw)
        if name == "solve_linprog":
            canonicalise(fn, LP_RULES)
        new = normalize.rename_locals(fn, pinned)
        fn.body, fn.args = new.body, new.args
        respell(fn, **kw)
    return tree


def assigns(body, name):
    """top-level statements of `body` (not descending into nested blocks) that assign / aug-assign `name`"""
    out = []
    for n in body:
        if isinstance(n, ast.Assign) and len(n.targets) == 1 and ast.unparse(n.targets[0]) == name:
            out.append(n)
        elif isinstance(n, ast.AnnAssign) and n.value is not None and ast.unparse(n.target) == name:
            out.append(n)
        elif isinstance(n, ast.AugAssign) and ast.unparse(n.target) == name:
            out.append(n)
    return out


def strip_logging(body):
    """statements that cannot influence the computation: `logger.debug(...)` calls, docstrings"""
    out = []
    for n in body:
        if isinstance(n, ast.Expr) and isinstance(n.value, ast.Call) and ast.unparse(n.value.func).startswith("logger."):
            continue
        if isinstance(n, ast.Expr) and isinstance(n.value, ast.Constant) and isinstance(n.value.value, str):
            continue
        out.append(n)
    return out


def position(body, pred, what):
    idx = [i for i, n in enumerate(body) if pred(n)]
    if len(idx) != 1:
        raise U(f"expected exactly one {what} in the loop body, found {len(idx)}")
    return idx[0]


@translate.lifter
def lift_egloop(repo):
    out = ["/-", "GENERATED by harness/lifters/egloop.py from", f"  {EG_FILE} (fit: the `for t in range(0, self.max_iter)` loop)",
           f"  {LAG_FILE} (eval_gap, best_h)",
           "Do not edit: regenerated (and the theorems of C08 re-checked against it) on every run.", "-/",
           "import FairModel.Generated.EGGen", "", "namespace EGLoopGen", "open EGGen", ""]
    meta = {}
    cenv = {k: (v[0], v[1]) for k, v in CONSTS.items()}

    src = open(os.path.join(repo, EG_FILE)).read()
    tree = normalize.parse(src)
    fit = prepare_fit(tree)
    fbody = strip_logging(fit.body)
    loop = one([n for n in fbody if isinstance(n, ast.For) and ast.unparse(n.target) == "t"], "`for t in ...` loop in fit")
    if ast.unparse(loop.iter) != "range(self.max_iter)" or loop.orelse:
        raise U(f"loop header changed: for {ast.unparse(loop.target)} in {ast.unparse(loop.iter)}")
    body = strip_logging(loop.body)
    li = fbody.index(loop)
    pre, post = fbody[:li], fbody[li + 1:]

    def emit(doc, sig, term):
        out.append(f"/-- {doc} -/")
        out.append(f"def {sig} := {term}")

    # ---- initial values (before the loop) ------------------------------------------------------------
    want_init = {"theta": "pd.Series(0, lagrangian.constraints.index)", "Qsum": "pd.Series(dtype='float64')",
                 "gaps_EG": "[]", "gaps": "[]", "Qs": "[]", "last_regret_checked": "_REGRET_CHECK_START_T",
                 "last_gap": "np.inf", "self.lambda_vecs_EG_": "pd.DataFrame()", "self.lambda_vecs_LP_": "pd.DataFrame()"}
    for nm, want in want_init.items():
        a = one(assigns(pre, nm), f"initialisation of {nm} before the loop")
        if ast.unparse(a.value) != want:
            raise U(f"initial value changed: {nm} = {ast.unparse(a.value)}")
    out.append("/-- `theta = pd.Series(0, lagrangian.constraints.index)` -/\ndef thetaInit : Rat := 0")
    out.append("/-- `last_regret_checked = _REGRET_CHECK_START_T` -/\ndef lastCheckedInit : Nat := regretCheckStartT")
    out.append("/-- `last_gap = np.inf` (`none` = +inf: `x > inf * c` is False for every finite x and c > 0) -/\n"
               "def lastGapInit : Option Rat := none")
    meta["init"] = want_init

    # ---- lambda_vec -----------------------------------------------------------------------------------
    i_lam = position(body, lambda n: bool(assigns([n], "lambda_vec")), "assignment to lambda_vec")
    env = {"B": ("B", "Rat"), "np.exp(theta)": ("expTheta", "Rat"), "np.exp(theta).sum()": ("sumExp", "Rat")}
    term, ty = LExpr(env, src).tr(body[i_lam].value)
    if ty != "Rat" or "expTheta" not in term:
        raise U(f"lambda_vec = {ast.unparse(body[i_lam].value)}")
    emit("`lambda_vec = B * np.exp(theta) / (1 + np.exp(theta).sum())` per entry (expTheta = that entry of np.exp(theta), "
         "sumExp = np.exp(theta).sum())", "lamOf (B expTheta sumExp : Rat) : Rat", term)
    meta["lambda_vec"] = ast.unparse(body[i_lam].value)
    i_col = position(body, lambda n: bool(assigns([n], "self.lambda_vecs_EG_[t]")), "store of column t of lambda_vecs_EG_")
    if ast.unparse(body[i_col].value) != "lambda_vec":
        raise U(f"self.lambda_vecs_EG_[t] = {ast.unparse(body[i_col].value)}")
    i_mean = position(body, lambda n: bool(assigns([n], "lambda_EG")), "assignment to lambda_EG")
    aggs = {"self.lambda_vecs_EG_.mean(axis=1)": "(colSum / ((nCols : Nat) : Rat))", "self.lambda_vecs_EG_.sum(axis=1)": "colSum"}
    if ast.unparse(body[i_mean].value) not in aggs:
        raise U(f"lambda_EG = {ast.unparse(body[i_mean].value)}")
    out.append(f"/-- `lambda_EG = {ast.unparse(body[i_mean].value)}`: one entry from the sum of that entry over the nCols columns "
               "stored so far -/\n"
               f"def lamEGAgg (colSum : Rat) (nCols : Nat) : Rat := {aggs[ast.unparse(body[i_mean].value)]}")
    meta["lambda_EG"] = ast.unparse(body[i_mean].value)

    # ---- best_h call, Qsum, gamma, Q_EG ----------------------------------------------------------------
    i_bh = position(body, lambda n: isinstance(n, ast.Assign) and ast.unparse(n.targets[0]) == "(h, h_idx)", "h, h_idx = ...")
    if ast.unparse(body[i_bh].value) != "lagrangian.best_h(lambda_vec)":
        raise U(f"h, h_idx = {ast.unparse(body[i_bh].value)}")
    i_new = position(body, lambda n: isinstance(n, ast.If) and ast.unparse(n.test) == "h_idx not in Qsum.index",
                     "`if h_idx not in Qsum.index`")
    nb = body[i_new]
    if nb.orelse or len(nb.body) != 1 or not assigns(nb.body, "Qsum.at[h_idx]"):
        raise U(f"new-entry block changed: {ast.unparse(nb)}")
    t_new, ty = LExpr({}, src).tr(nb.body[0].value)
    i_bump = position(body, lambda n: isinstance(n, ast.AugAssign) and ast.unparse(n.target) == "Qsum[h_idx]", "Qsum[h_idx] += ...")
    if not isinstance(body[i_bump].op, ast.Add):
        raise U(f"Qsum bump changed: {ast.unparse(body[i_bump])}")
    t_bump, ty = LExpr({}, src).tr(body[i_bump].value)
    out.append(f"/-- `Qsum.at[h_idx] = 0.0` for an index not seen before -/\ndef qNew : Rat := {t_new}")
    out.append(f"/-- `Qsum[h_idx] += 1.0` -/\ndef qBump : Rat := {t_bump}")
    meta["Qsum"] = [ast.unparse(nb.body[0]), ast.unparse(body[i_bump])]
    i_gam = position(body, lambda n: bool(assigns([n], "gamma")), "assignment to gamma")
    if ast.unparse(body[i_gam].value) != "lagrangian.gammas[h_idx]":
        raise U(f"gamma = {ast.unparse(body[i_gam].value)}")
    i_q = position(body, lambda n: bool(assigns([n], "Q_EG")), "assignment to Q_EG")
    term, ty = LExpr({"Qsum": ("q", "Rat"), "Qsum.sum()": ("total", "Rat")}, src).tr(body[i_q].value)
    emit("`Q_EG = Qsum / Qsum.sum()` per entry", "qNorm (q total : Rat) : Rat", term)
    meta["Q_EG"] = ast.unparse(body[i_q].value)
    i_eval = position(body, lambda n: bool(assigns([n], "result_EG")), "assignment to result_EG")
    if ast.unparse(body[i_eval].value) != "lagrangian.eval_gap(Q_EG, lambda_EG, self.nu)":
        raise U(f"result_EG = {ast.unparse(body[i_eval].value)}")
    i_gapeg = position(body, lambda n: bool(assigns([n], "gap_EG")), "assignment to gap_EG")
    if ast.unparse(body[i_gapeg].value) != "result_EG.gap()":
        raise U(f"gap_EG = {ast.unparse(body[i_gapeg].value)}")
    i_app = position(body, lambda n: ast.unparse(n) == "gaps_EG.append(gap_EG)", "gaps_EG.append(gap_EG)")

    # ---- t == 0 block: eta --------------------------------------------------------------------------------
    i_t0 = position(body, lambda n: isinstance(n, ast.If) and ast.unparse(n.test) == "t == 0" and bool(assigns(n.body, "eta")),
                    "`if t == 0:` block that sets eta")
    term, ty = LExpr({"self.eta0": ("eta0", "Rat"), "B": ("B", "Rat")}, src).tr(one(assigns(body[i_t0].body, "eta"), "eta = ...").value)
    emit("`eta = self.eta0 / B` (set in the `if t == 0` block, before its first use)", "etaInit (eta0 B : Rat) : Rat", term)
    meta["eta"] = ast.unparse(one(assigns(body[i_t0].body, "eta"), "eta = ...").value)

    # ---- LP step ---------------------------------------------------------------------------------------------
    i_lp = position(body, lambda n: isinstance(n, ast.If) and bool(assigns(n.body, "gap_LP")) and bool(assigns(n.orelse, "gap_LP")),
                    "`if ...: gap_LP = np.inf else: solve_linprog` block")
    lp = body[i_lp]
    if ast.unparse(one(assigns(lp.body, "gap_LP"), "gap_LP").value) != "np.inf" or len(lp.body) != 1:
        raise U(f"LP-skip branch changed: {[ast.unparse(b) for b in lp.body]}")
    oe = [ast.unparse(b) for b in strip_logging(lp.orelse)]
    if oe != ["Q_LP, self.lambda_vecs_LP_[t], result_LP = lagrangian.solve_linprog(self.nu)", "gap_LP = result_LP.gap()"]:
        raise U(f"LP branch changed: {oe}")
    term, ty = LExpr({"t": ("t", "Nat"), "self.run_linprog_step": ("runLP", "Bool")}, src).tr(lp.test)
    emit("`if t == 0 or not self.run_linprog_step: gap_LP = np.inf` (no LP step; `gap_EG < inf` then keeps the EG iterate)",
         "skipLP (t : Nat) (runLP : Bool) : Bool", term)
    meta["skipLP"] = ast.unparse(lp.test)
    i_sel = position(body, lambda n: isinstance(n, ast.If) and "Qs.append(Q_EG)" in ast.unparse(n), "EG/LP choice")
    i_brk = position(body, lambda n: isinstance(n, ast.If) and any(isinstance(b, ast.Break) for b in n.body), "`if ...: break`")
    if len(strip_logging(body[i_brk].body)) != 1 or body[i_brk].orelse:
        raise U(f"break block changed: {ast.unparse(body[i_brk])}")

    # ---- regret check / shrink ---------------------------------------------------------------------------------
    i_reg = position(body, lambda n: isinstance(n, ast.If) and bool(assigns(n.body, "last_regret_checked")), "regret-check block")
    rg = body[i_reg]
    env = dict(cenv)
    env.update({"t": ("t", "Nat"), "last_regret_checked": ("lastChecked", "Nat")})
    term, ty = LExpr(env, src).tr(rg.test)
    emit("`if t >= last_regret_checked * _REGRET_CHECK_INCREASE_T:`", "regretDue (t lastChecked : Nat) : Bool", term)
    meta["regretDue"] = ast.unparse(rg.test)
    rb = strip_logging(rg.body)
    if rg.orelse or len(rb) != 4:
        raise U(f"regret-check block changed: {ast.unparse(rg)}")
    if ast.unparse(one(assigns(rb, "best_gap"), "best_gap").value) != "min(gaps_EG)":
        raise U("best_gap is no longer min(gaps_EG)")
    if ast.unparse(one(assigns(rb, "last_regret_checked"), "last_regret_checked").value) != "t":
        raise U("last_regret_checked is no longer set to t")
    if ast.unparse(one(assigns(rb, "last_gap"), "last_gap").value) != "best_gap":
        raise U("last_gap is no longer set to best_gap")
    sh = one([n for n in rb if isinstance(n, ast.If)], "shrink `if` inside the regret check")
    i_bg, i_sh = rb.index(one(assigns(rb, "best_gap"), "best_gap")), rb.index(sh)
    i_lg = rb.index(one(assigns(rb, "last_gap"), "last_gap"))
    if not (i_bg < i_sh < i_lg):
        raise U("order inside the regret check changed (best_gap, shrink test, last_gap)")
    env = dict(cenv)
    env.update({"best_gap": ("bestGap", "Rat"), "last_gap": ("lastGap", "Rat")})
    term, ty = LExpr(env, src).tr(sh.test)
    emit("`if best_gap > last_gap * _SHRINK_REGRET:` for a finite last_gap", "shrinkDue (bestGap lastGap : Rat) : Bool", term)
    meta["shrinkDue"] = ast.unparse(sh.test)
    if sh.orelse or len(sh.body) != 1 or not isinstance(sh.body[0], ast.AugAssign) or ast.unparse(sh.body[0].target) != "eta" \
            or not isinstance(sh.body[0].op, ast.Mult):
        raise U(f"shrink statement changed: {ast.unparse(sh)}")
    env = dict(cenv)
    env["eta"] = ("eta", "Rat")
    t_sh, ty = LExpr(env, src).tr(sh.body[0].value)
    emit("`eta *= _SHRINK_ETA`", "etaShrunk (eta : Rat) : Rat", f"(eta * {t_sh})")
    meta["shrink"] = ast.unparse(sh.body[0])

    # ---- theta update -----------------------------------------------------------------------------------------------
    i_th = position(body, lambda n: isinstance(n, ast.AugAssign) and ast.unparse(n.target) == "theta", "theta update")
    th = body[i_th]
    env = {"eta": ("eta", "Rat"), "gamma": ("gamma", "Rat"), "self.constraints.bound()": ("bound", "Rat")}
    t_th, ty = LExpr(env, src).tr(th.value)
    opn = {ast.Add: "+", ast.Sub: "-"}.get(type(th.op))
    if opn is None:
        raise U(f"theta update operator changed: {ast.unparse(th)}")
    emit("`theta += eta * (gamma - self.constraints.bound())` per entry", "thetaNext (theta eta gamma bound : Rat) : Rat",
         f"(theta {opn} {t_th})")
    meta["theta"] = ast.unparse(th)

    # ---- data-flow order of the loop body (independent statements may move freely) ---------------------------------------
    order = [("lambda_vec", i_lam, "column store", i_col), ("column store", i_col, "lambda_EG", i_mean),
             ("lambda_EG", i_mean, "eval_gap", i_eval), ("lambda_vec", i_lam, "best_h", i_bh),
             ("best_h", i_bh, "new Qsum entry", i_new), ("new Qsum entry", i_new, "Qsum bump", i_bump),
             ("Qsum bump", i_bump, "Q_EG", i_q), ("Q_EG", i_q, "eval_gap", i_eval), ("best_h", i_bh, "gamma", i_gam),
             ("gamma", i_gam, "theta update", i_th), ("eval_gap", i_eval, "gap_EG", i_gapeg), ("gap_EG", i_gapeg, "gaps_EG.append", i_app),
             ("eval_gap", i_eval, "LP step", i_lp), ("gaps_EG.append", i_app, "regret check", i_reg),
             ("gap_EG", i_gapeg, "EG/LP choice", i_sel), ("LP step", i_lp, "EG/LP choice", i_sel),
             ("EG/LP choice", i_sel, "break", i_brk), ("break", i_brk, "regret check", i_reg),
             ("regret check", i_reg, "theta update", i_th), ("eta (t == 0)", i_t0, "regret check", i_reg),
             ("best_h", i_bh, "eval_gap", i_eval)]
    for a, ia, b, ib in order:
        if not ia < ib:
            raise U(f"loop body order changed: `{a}` no longer precedes `{b}`")
    known = {i_lam, i_col, i_mean, i_bh, i_new, i_bump, i_gam, i_q, i_eval, i_gapeg, i_app, i_t0, i_lp, i_sel, i_brk, i_reg, i_th}
    extra = [ast.unparse(body[i])[:80] for i in range(len(body)) if i not in known]
    if extra:
        raise U(f"statements in the loop body the model does not know: {extra}")
    # ---- what `Qs` holds: references.  Every object appended to `Qs` must be bound afresh in the SAME pass through the loop
    #      body (an assignment whose value builds a new object) and never updated in place (`x *= ..`, `x[k] = ..`,
    #      `x.at[k] += ..`): otherwise earlier entries of `Qs` silently change (seeded change C08a)
    appended = set()
    for n in ast.walk(loop):
        if isinstance(n, ast.Call) and isinstance(n.func, ast.Attribute) and n.func.attr == "append" \
                and ast.unparse(n.func.value) == "Qs":
            if len(n.args) != 1 or n.keywords or not isinstance(n.args[0], ast.Name):
                raise U(f"Qs.append of unknown shape: {ast.unparse(n)}")
            appended.add(n.args[0].id)
    fresh = bool(appended)
    why = []
    for nm in sorted(appended):
        binds = []
        for n in ast.walk(loop):
            if isinstance(n, ast.Assign):
                for tg in n.targets:
                    elts = tg.elts if isinstance(tg, ast.Tuple) else [tg]
                    if any(isinstance(e, ast.Name) and e.id == nm for e in elts):
                        binds.append(n)
            if isinstance(n, ast.AugAssign):
                b = n.target
                while isinstance(b, (ast.Subscript, ast.Attribute)):
                    b = b.value
                if isinstance(b, ast.Name) and b.id == nm:
                    fresh = False
                    why.append(f"{ast.unparse(n)}")
            if isinstance(n, (ast.Subscript, ast.Attribute)) and isinstance(n.ctx, (ast.Store, ast.Del)):
                b = n
                while isinstance(b, (ast.Subscript, ast.Attribute)):
                    b = b.value
                if isinstance(b, ast.Name) and b.id == nm:
                    fresh = False
                    why.append(f"store through {ast.unparse(n)}")
        if len(binds) != 1 or isinstance(binds[0].value, (ast.Name, ast.Attribute, ast.Subscript)):
            fresh = False       # not rebound in the loop, bound twice, or bound to an existing object (an alias)
            why.append(f"{nm} is not bound exactly once per pass to a newly built object")
    out.append("/-- `Qs.append(Q_EG)` / `Qs.append(Q_LP)` store REFERENCES.  true = every appended name is re-bound to a newly "
               "built object in each pass of the loop body and never updated in place, so `Qs[t]` keeps the value it had at "
               "iteration t" + ("" if fresh else f" (violated: {'; '.join(why)[:200]})") + " -/\n"
               f"def qsEntriesFresh : Bool := {'true' if fresh else 'false'}")
    meta["qs_fresh"] = fresh

    # the t == 0 block may only set nu (when None) and eta
    t0 = strip_logging(body[i_t0].body)
    if len(t0) != 2 or not (isinstance(t0[0], ast.If) and ast.unparse(t0[0].test) == "self.nu is None"):
        raise U(f"`if t == 0` block changed: {[ast.unparse(b)[:60] for b in t0]}")

    # ---- after the loop ---------------------------------------------------------------------------------------------------
    li_ = one(assigns(post, "self.last_iter_"), "self.last_iter_ = ...")
    term, ty = LExpr({"len(Qs)": ("(lenQs : Int)", "Int"), "1": ("1", "Int")}, src).tr(li_.value) \
        if ast.unparse(li_.value) == "len(Qs) - 1" else (None, None)
    if term is None:
        raise U(f"self.last_iter_ = {ast.unparse(li_.value)}")
    emit("`self.last_iter_ = len(Qs) - 1`", "lastIter (lenQs : Nat) : Int", term)
    meta["last_iter"] = ast.unparse(li_.value)
    pad = one([n for n in post if isinstance(n, ast.For) and ast.unparse(n.target) == "h_idx"], "zero padding loop of weights_")
    if ast.unparse(pad.iter) != "self._hs.index" or [ast.unparse(b) for b in pad.body] != \
            ["if h_idx not in self.weights_.index:\n    self.weights_.at[h_idx] = 0.0"]:
        raise U(f"weights_ padding changed: {ast.unparse(pad)}")
    for tgt, want in (("self._hs", "lagrangian.hs"), ("self.predictors_", "lagrangian.predictors"),
                      ("self.n_oracle_calls_", "lagrangian.n_oracle_calls"), ("self.lambda_vecs_", "lagrangian.lambdas")):
        a = one(assigns(post, tgt), tgt)
        if ast.unparse(a.value) != want:
            raise U(f"{tgt} = {ast.unparse(a.value)}")
    out.append("")

    # ---- _lagrangian.py: eval_gap / best_h ---------------------------------------------------------------------------------
    src = open(os.path.join(repo, LAG_FILE)).read()
    tree = prepare_lagrangian(normalize.parse(src))
    eg = find_func(tree, "_Lagrangian", "eval_gap")
    ebody = strip_logging(eg.body)
    first = ebody[0]
    if ast.unparse(first) != "L, L_high, gamma, error = self._eval(Q, lambda_hat)":
        raise U(f"eval_gap first statement changed: {ast.unparse(first)}")
    lp_ = one([n for n in ebody if isinstance(n, ast.For)], "for loop in eval_gap")
    if ast.unparse(lp_.target) != "mul" or lp_.orelse:
        raise U("eval_gap loop variable changed")
    lb = strip_logging(lp_.body)
    texts = [ast.unparse(n) for n in lb]
    want = ["_, h_hat_idx = self.best_h(mul * lambda_hat)",
            "L_low_mul, _, _, _ = self._eval(pd.Series({h_hat_idx: 1.0}), lambda_hat)"]
    if texts[:2] != want or len(lb) != 4:
        raise U(f"eval_gap loop body changed: {texts}")
    brk = lb[3]
    if not (isinstance(brk, ast.If) and len(brk.body) == 1 and isinstance(brk.body[0], ast.Break) and not brk.orelse):
        raise U(f"eval_gap break changed: {ast.unparse(brk)}")
    env = dict(cenv)
    env.update({"result.gap()": ("gap", "Rat"), "nu": ("nu", "Rat")})
    term, ty = LExpr(env, src).tr(brk.test)
    emit("eval_gap: `if result.gap() > nu + _PRECISION: break` (after the candidate of this multiplier was used)",
         "evalBreak (gap nu : Rat) : Bool", term)
    meta["evalBreak"] = ast.unparse(brk.test)
    if ast.unparse(ebody[-1]) != "return result":
        raise U("eval_gap no longer returns `result`")

    # _eval: what the mixture's error / gamma are and that the multiplier is projected first (the L / L_high
    # expressions themselves are lifted by eg.py)
    ev = find_func(tree, "_Lagrangian", "_eval")
    evb = strip_logging(ev.body)
    br = one([n for n in evb if isinstance(n, ast.If) and ast.unparse(n.test) == "callable(Q)"], "`if callable(Q)` in _eval")
    if [ast.unparse(n) for n in br.orelse] != ["error = self.errors[Q.index].dot(Q)", "gamma = self.gammas[Q.index].dot(Q)"]:
        raise U(f"_eval mixture branch changed: {[ast.unparse(n) for n in br.orelse]}")
    pj = one([n for n in evb if isinstance(n, ast.If) and "opt_lambda" in ast.unparse(n.test)], "projection step of _eval")
    if ast.unparse(pj.test) != "self.opt_lambda" or pj.orelse or \
            [ast.unparse(n) for n in pj.body] != ["lambda_vec = self.constraints.project_lambda(lambda_vec)"]:
        raise U(f"_eval projection step changed: {ast.unparse(pj)}")
    i_pj, i_L = evb.index(pj), evb.index(one(assigns(evb, "L"), "L = ... in _eval"))
    if not evb.index(br) < i_pj:
        raise U("_eval: the projection no longer follows the error/gamma computation")
    out.append("/-- `_eval`: `error = self.errors[Q.index].dot(Q)`, `gamma = self.gammas[Q.index].dot(Q)`, then "
               "`if self.opt_lambda: lambda_vec = self.constraints.project_lambda(lambda_vec)`; true = that statement "
               "precedes `L = ...`, so L is computed with the PROJECTED multiplier (opt_lambda is always True here) -/\n"
               f"def evalProjectsFirst : Bool := {'true' if i_pj < i_L else 'false'}")
    meta["_eval"] = [ast.unparse(n) for n in br.orelse] + [ast.unparse(pj)]

    bh = find_func(tree, "_Lagrangian", "best_h")
    bb = strip_logging(bh.body)
    hv = one(assigns(bb, "h_value"), "h_value = ...")
    env = {"h_error": ("hError", "Rat"), "h_gamma.dot(lambda_vec)": ("gammaDotLambda", "Rat")}
    term, ty = LExpr(env, src).tr(hv.value)
    emit("`h_value = h_error + h_gamma.dot(lambda_vec)` (note: WITHOUT the `- lambda.bound` term of the Lagrangian)",
         "hValue (hError gammaDotLambda : Rat) : Rat", term)
    meta["h_value"] = ast.unparse(hv.value)
    # normalize.parse has turned `if not self.hs.empty: A else: B` into `if self.hs.empty: B else: A`
    sel = one([n for n in bb if isinstance(n, ast.If) and ast.unparse(n.test) == "self.hs.empty"], "`if not self.hs.empty`")
    sb = [ast.unparse(n) for n in sel.orelse]
    so = [ast.unparse(n) for n in sel.body]
    if sb != ["values = self.errors + self.gammas.transpose().dot(lambda_vec)", "best_idx = values.idxmin()",
              "best_value = values[best_idx]"] or so != ["best_idx = -1", "best_value = np.inf"]:
        raise U(f"best stored value computation changed: {sb} / {so}")
    imp = one([n for n in bb if isinstance(n, ast.If) and "h_value" in ast.unparse(n.test)], "improvement test of best_h")
    ib = [ast.unparse(n) for n in strip_logging(imp.body)]
    want = ["h_idx = len(self.hs)", "self.hs.at[h_idx] = h", "self.predictors.at[h_idx] = classifier",
            "self.errors.at[h_idx] = h_error", "self.gammas[h_idx] = h_gamma", "self.lambdas[h_idx] = lambda_vec.copy()",
            "best_idx = h_idx"]
    if sorted(ib) != sorted(want) or ib[0] != want[0] or imp.orelse:
        raise U(f"best_h store block changed: {ib}")
    if ast.unparse(bb[-1]) != "return (self.hs[best_idx], best_idx)":
        raise U(f"best_h return changed: {ast.unparse(bb[-1])}")
    for tgt, want_ in (("h_error", "self.obj.gamma(h).iloc[0]"), ("h_gamma", "self.constraints.gamma(h)"),
                       ("classifier", "self._call_oracle(lambda_vec)")):
        if ast.unparse(one(assigns(bb, tgt), tgt).value) != want_:
            raise U(f"best_h: {tgt} changed")
    out.append("/-- best_h: `values = self.errors + self.gammas.transpose().dot(lambda_vec); best_idx = values.idxmin()`: scanning "
               "the stored values in index order, a later value replaces the current best only when this holds (first minimum); "
               "with no stored hypothesis `best_value = np.inf`, so the answer is always stored -/\n"
               "def argBetter (v best : Rat) : Bool := decide (v < best)")
    meta["best_h"] = sb + so
    out += ["", "end EGLoopGen", ""]
    return "EGLoopGen.lean", "\n".join(out), meta


# =====================================================================================================================
#  solve_linprog
# =====================================================================================================================

LP_PRELUDE = """
/-- entry-wise list helpers the translated numpy expressions are written with -/
def negV (v : List Rat) : List Rat := v.map (fun x => -x)
def negM (m : List (List Rat)) : List (List Rat) := m.map negV
def onesV (n : Nat) : List Rat := List.replicate n 1
def zerosV (n : Nat) : List Rat := List.replicate n 0
def onesM (r c : Nat) : List (List Rat) := List.replicate r (onesV c)
def zerosM (r c : Nat) : List (List Rat) := List.replicate r (zerosV c)
/-- `np.concatenate((a, b), axis=1)`: row-wise concatenation -/
def hcat (a b : List (List Rat)) : List (List Rat) := List.zipWith (fun x y => x ++ y) a b
/-- `m.transpose()` of a matrix with `cols` columns -/
def transposeM (cols : Nat) (m : List (List Rat)) : List (List Rat) :=
  (List.range cols).map (fun i => m.map (fun r => r.getD i 0))
/-- `gammas.sub(bound, axis=0)`: row j of `gammas` (one row per constraint) minus `bound[j]` -/
def subRows (m : List (List Rat)) (bound : List Rat) : List (List Rat) :=
  List.zipWith (fun r b => r.map (fun x => x - b)) m bound
"""


class MExpr:
    """numpy list/matrix expressions of solve_linprog -> Lean.  Types: V (vector), M(cols) (matrix with a known
    Lean expression for its number of columns)."""

    def __init__(self, env):
        self.env = env     # unparse text -> (lean, type)  type = "V" | ("M", rows, cols) | "N"

    def dim(self, node):
        key = ast.unparse(node)
        if key in self.env and self.env[key][1] == "N":
            return self.env[key][0]
        if isinstance(node, ast.Constant) and isinstance(node.value, int) and not isinstance(node.value, bool):
            return str(node.value)
        raise U(f"dimension of unknown shape: {key}")

    def tr(self, node):
        key = ast.unparse(node)
        if key in self.env and self.env[key][1] != "N":
            return self.env[key]
        if isinstance(node, ast.UnaryOp) and isinstance(node.op, ast.USub):
            a, ta = self.tr(node.operand)
            return (f"(negV {a})", ta) if ta == "V" else (f"(negM {a})", ta)
        if isinstance(node, ast.List) and len(node.elts) == 1 and ast.unparse(node.elts[0]) in self.env \
                and self.env[ast.unparse(node.elts[0])][1] == "S":
            return (f"[{self.env[ast.unparse(node.elts[0])][0]}]", "V")
        if isinstance(node, ast.Call):
            fn = ast.unparse(node.func)
            if fn in ("np.ones", "np.zeros") and len(node.args) == 1 and not node.keywords:
                nm = "ones" if fn == "np.ones" else "zeros"
                a = node.args[0]
                if isinstance(a, ast.Tuple) and len(a.elts) == 2:
                    r, c = self.dim(a.elts[0]), self.dim(a.elts[1])
                    return (f"({nm}M {r} {c})", ("M", r, c))
                return (f"({nm}V {self.dim(a)})", "V")
            if fn == "np.concatenate" and len(node.args) == 1 and isinstance(node.args[0], ast.Tuple) \
                    and len(node.args[0].elts) == 2:
                kw = {k.arg: ast.unparse(k.value) for k in node.keywords}
                a, ta = self.tr(node.args[0].elts[0])
                b, tb = self.tr(node.args[0].elts[1])
                if kw == {}:
                    if ta != "V" or tb != "V":
                        raise U(f"1-d concatenate of non-vectors: {key}")
                    return (f"({a} ++ {b})", "V")
                if kw == {"axis": "1"}:
                    if ta == "V" or tb == "V" or ta[1] != tb[1]:
                        raise U(f"axis=1 concatenate of blocks with different row counts: {key}")
                    return (f"(hcat {a} {b})", ("M", ta[1], f"({ta[2]} + {tb[2]})"))
                raise U(f"concatenate keywords {kw} in {key}")
            if isinstance(node.func, ast.Attribute) and node.func.attr == "transpose" and not node.args and not node.keywords:
                a, ta = self.tr(node.func.value)
                if ta == "V":
                    raise U(f"transpose of a vector: {key}")
                return (f"(transposeM {ta[2]} {a})", ("M", ta[2], ta[1]))
            if isinstance(node.func, ast.Attribute) and node.func.attr == "sub" and len(node.args) == 1:
                kw = {k.arg: ast.unparse(k.value) for k in node.keywords}
                a, ta = self.tr(node.func.value)
                b, tb = self.tr(node.args[0])
                if kw != {"axis": "0"} or ta == "V" or tb != "V":
                    raise U(f"unsupported .sub: {key}")
                return (f"(subRows {a} {b})", ta)
        raise U(f"linprog expression of unknown shape: {key}")


@translate.lifter
def lift_linprog(repo):
    src = open(os.path.join(repo, LAG_FILE)).read()
    tree = prepare_lagrangian(normalize.parse(src))
    fn = find_func(tree, "_Lagrangian", "solve_linprog")
    body = strip_logging(fn.body)
    out = ["/-", "GENERATED by harness/lifters/egloop.py (lift_linprog) from", f"  {LAG_FILE} (solve_linprog)",
           "Do not edit: regenerated (and the theorems of C08 re-checked against it) on every run.", "-/",
           "set_option linter.unusedVariables false", "namespace LinProgGen", LP_PRELUDE]
    meta = {}
    for nm, want in (("n_hs", "len(self.hs)"), ("n_constraints", "len(self.constraints.index)")):
        if ast.unparse(one(assigns(body, nm), nm).value) != want:
            raise U(f"{nm} is no longer {want}")
    env = {"self.errors": ("errors", "V"), "self.B": ("B", "S"), "self.gammas": ("gammas", ("M", "nC", "nH")),
           "self.constraints.bound()": ("bound", "V"), "n_constraints": ("nC", "N"), "n_hs": ("nH", "N")}
    sigs = {
        "c": "lpC (nH nC : Nat) (errors : List Rat) (B : Rat) : List Rat",
        "A_ub": "lpAub (nH nC : Nat) (gammas : List (List Rat)) (bound : List Rat) : List (List Rat)",
        "b_ub": "lpBub (nH nC : Nat) : List Rat",
        "A_eq": "lpAeq (nH nC : Nat) : List (List Rat)",
        "b_eq": "lpBeq : List Rat",
    }
    pos = {}
    for nm in ("c", "A_ub", "b_ub", "A_eq", "b_eq"):
        a = one(assigns(body, nm), f"{nm} = ...")
        pos[nm] = body.index(a)
        term, ty = MExpr(env).tr(a.value)
        out.append(f"/-- `{nm} = {ast.unparse(a.value)}` -/")
        out.append(f"def {sigs[nm]} := {term}")
        meta[nm] = ast.unparse(a.value)
        env[nm] = ({"c": "c", "A_ub": "Aub", "b_ub": "bub", "A_eq": "Aeq", "b_eq": "beq"}[nm], ty)
    # the primal call
    res = one(assigns(body, "result"), "result = opt.linprog(...)")
    if ast.unparse(res.value) != "opt.linprog(c, A_ub=A_ub, b_ub=b_ub, A_eq=A_eq, b_eq=b_eq, method='highs-ds')":
        raise U(f"primal linprog call changed: {ast.unparse(res.value)}")
    # (the primal call is pinned literally above: no `bounds=`, i.e. scipy's default x >= 0, which `LinProg.primalFeasible` states)
    q = one(assigns(body, "Q"), "Q = ...")
    if ast.unparse(q.value) != "pd.Series(result.x[:-1], self.hs.index)":
        raise U(f"Q = {ast.unparse(q.value)}")
    dsigs = {
        "dual_c": "dualC (bub beq : List Rat) : List Rat",
        "dual_A_ub": "dualAub (nH nC : Nat) (Aub Aeq : List (List Rat)) : List (List Rat)",
    }
    denv = {"b_ub": ("bub", "V"), "b_eq": ("beq", "V"), "A_ub": ("Aub", ("M", "nC", "(nH + 1)")),
            "A_eq": ("Aeq", ("M", "1", "(nH + 1)")), "c": ("c", "V")}
    for nm in ("dual_c", "dual_A_ub"):
        a = one(assigns(body, nm), f"{nm} = ...")
        term, ty = MExpr(denv).tr(a.value)
        out.append(f"/-- `{nm} = {ast.unparse(a.value)}` -/")
        out.append(f"def {dsigs[nm]} := {term}")
        meta[nm] = ast.unparse(a.value)
    a = one(assigns(body, "dual_b_ub"), "dual_b_ub = ...")
    if ast.unparse(a.value) != "c":
        raise U(f"dual_b_ub = {ast.unparse(a.value)}")
    out.append("/-- `dual_b_ub = c` -/\ndef dualBub (c : List Rat) : List Rat := c")
    a = one(assigns(body, "dual_bounds"), "dual_bounds = ...")
    v = a.value
    ok = (isinstance(v, ast.ListComp) and len(v.generators) == 1 and ast.unparse(v.generators[0].target) == "i"
          and ast.unparse(v.generators[0].iter) == "range(n_constraints + 1)" and not v.generators[0].ifs
          and isinstance(v.elt, ast.IfExp) and ast.unparse(v.elt.body) == "(None, None)" and ast.unparse(v.elt.orelse) == "(0, None)")
    if not ok:
        raise U(f"dual_bounds = {ast.unparse(v)}")
    term, ty = LExpr({"i": ("i", "Nat"), "n_constraints": ("nC", "Nat")}, src).tr(v.elt.test)
    out.append(f"/-- `dual_bounds = {ast.unparse(v)}`: variable i is free iff this holds, otherwise it is `>= 0`; "
               "there are `nC + 1` variables -/")
    out.append(f"def dualFree (nC i : Nat) : Bool := {term}")
    meta["dual_bounds"] = ast.unparse(v)
    rd = one(assigns(body, "result_dual"), "result_dual = opt.linprog(...)")
    if ast.unparse(rd.value) != "opt.linprog(dual_c, A_ub=dual_A_ub, b_ub=dual_b_ub, bounds=dual_bounds, method='highs-ds')":
        raise U(f"dual linprog call changed: {ast.unparse(rd.value)}")
    lv = one(assigns(body, "lambda_vec"), "lambda_vec = ...")
    if ast.unparse(lv.value) != "pd.Series(result_dual.x[:-1], self.constraints.index)":
        raise U(f"lambda_vec = {ast.unparse(lv.value)}")
    # cache rule
    first = [n for n in body if isinstance(n, ast.If)]
    cache = one([n for n in first if "last_linprog_n_hs" in ast.unparse(n.test)], "cache test of solve_linprog")
    if ast.unparse(cache.test) != "self.last_linprog_n_hs == n_hs" or [ast.unparse(b) for b in cache.body] != ["return self.last_linprog_result"]:
        raise U(f"linprog cache rule changed: {ast.unparse(cache)}")
    if ast.unparse(one(assigns(body, "self.last_linprog_n_hs"), "last_linprog_n_hs").value) != "n_hs":
        raise U("last_linprog_n_hs is no longer set to n_hs")
    lr = one(assigns(body, "self.last_linprog_result"), "last_linprog_result")
    if ast.unparse(lr.value) != "(Q, lambda_vec, self.eval_gap(Q, lambda_vec, nu))":
        raise U(f"last_linprog_result = {ast.unparse(lr.value)}")
    out.append("/-- `if self.last_linprog_n_hs == n_hs: return self.last_linprog_result` (n_hs is measured BEFORE the eval_gap "
               "call of this function can add hypotheses) -/\ndef cacheHit (lastN nH : Nat) : Bool := decide (lastN = nH)")
    meta["cache"] = ast.unparse(cache.test)
    out += ["", "end LinProgGen", ""]
    return "LinProgGen.lean", "\n".join(out), meta
