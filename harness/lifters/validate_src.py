"""Lifter for C20: the BODY of `_validate_and_reformat_input` (fairlearn/utils/_input_validation.py) as the ordered list of
its checks  ->  lean/FairModel/Generated/ValidateSrc.lean

A *check* is a statement that can end the call with an exception: a `raise`, a `check_consistent_length(X, v)` statement,
a `v = check_array(..)` assignment.  The body is walked in execution order with the path condition of the enclosing
`if`s; every check becomes `⟨source text, path ∧ failure condition, exception kind⟩`.  The interpreter
(`Validation.validateSrc`, Model/Validation.lean) returns the kind of the FIRST check of the list whose condition holds
on the descriptor, `ok` when none does; so the order of two checks matters exactly when their kinds differ.

Conditions are built from a fixed list of atoms (the three flags, `y is None`, `y.size == 0`, the shape test, the label
set test, the row comparisons, `<feature> is None`).  The label set of the `enforce_binary_labels` test is emitted as
`labelSet` and the interpreter tests membership in it.  The keywords of the `check_array` calls are emitted as `arrayCalls`.

Names the checks read (`y`, `X`, `result_X`, `sensitive_features`, `control_features`, the flags, `kwargs`) are TRACKED:
an assignment to one of them is followed only when it is one of the value-preserving forms of the pinned source
(`y = np.asarray(y)` after the None test, `y = check_array(y.reshape(-1), ..)`, `result_X = check_array(X, ..)`,
`result_X = pd.DataFrame(result_X)`, the feature blocks as merge_callers.py reads them); any other assignment to a tracked
name (`y = np.abs(y)`, `sensitive_features = X`, `expect_y = False`, ..) is refused, and so is every statement kind that
is not `if` / `raise` / assignment / the two sklearn checks / the final `return`.

The feature blocks and the return tuple are parsed by merge_callers.py (`_feature_block`, imported); nothing that
MergeCallers.lean / ContainerSites.lean / ValidationTables.lean already define is emitted again."""
import ast

from .. import translate
from . import normalize
from . import merge_callers as mc
from ..translate import Untranslatable

FLAGS = {"expect_y": "expectY", "expect_sensitive_features": "expectSf", "enforce_binary_labels": "enforceBinary"}
FEATURES = {"sensitive_features": ("sf", "_KW_SENSITIVE_FEATURES"), "control_features": ("cf", "_KW_CONTROL_FEATURES")}
TRACKED = {"y", "X", "result_X", "kwargs"} | set(FLAGS) | set(FEATURES)
EXC = {"ValueError": "valueError", "TypeError": "typeError", "RuntimeError": "runtimeError"}
CHECK_FUNCS = {"check_array", "check_consistent_length", "check_X_y", "check_is_fitted", "column_or_1d"}
SHAPE_OK = "y.ndim == 1 or (y.ndim == 2 and y.shape[1] == 1)"
# keywords of sklearn's check_array that decide what is rejected (the others only convert)
REJECTING_KW = ("accept_sparse", "dtype", "ensure_all_finite", "force_all_finite", "ensure_2d", "allow_nd", "ensure_min_samples",
                "ensure_min_features", "ensure_non_negative")


def _bad(msg):
    raise Untranslatable("validate_src lifter: " + msg)


def lstr(s):
    return '"' + s.replace("\\", "\\\\").replace('"', '\\"') + '"'


# ---------------------------------------------------------------------------------------------------------------- conditions
# ("tt",) | ("atom", name) | ("neg", c) | ("and", a, b) | ("or", a, b)
def A(n):
    return ("atom", n)


def NEG(c):
    return c[1] if c[0] == "neg" else ("neg", c)


def conj(cs):
    cs = [c for c in cs if c != ("tt",)]
    if not cs:
        return ("tt",)
    out = cs[-1]
    for c in reversed(cs[:-1]):
        out = ("and", c, out)
    return out


def lean(c):
    if c[0] == "tt":
        return ".tt"
    if c[0] == "atom":
        return f"(.atom .{c[1]})"
    if c[0] == "neg":
        return f"(.neg {lean(c[1])})"
    return f"(.{c[0]} {lean(c[1])} {lean(c[2])})"


class Walker:
    def __init__(self, fn):
        self.fn = fn
        self.checks = []          # (what, cond, exc)
        self.array_calls = []     # (target role, sorted keyword list)
        self.label_set = None
        self.y_is_array = False   # `y = np.asarray(y)` has been executed on the current path
        self.bound = {"y", "X", "kwargs"} | set(FLAGS)      # tracked names that hold their pinned value
        self.returned = False

    # ---- expressions
    def cond(self, e):
        t = ast.unparse(e)
        if t in FLAGS:
            return A(FLAGS[t])
        if t == SHAPE_OK:
            self.need_array(e)
            return A("yShapeOk")
        if isinstance(e, ast.UnaryOp) and isinstance(e.op, ast.Not):
            return NEG(self.cond(e.operand))
        if isinstance(e, ast.BoolOp):
            parts = [self.cond(v) for v in e.values]
            out = parts[-1]
            for p in reversed(parts[:-1]):
                out = ("and" if isinstance(e.op, ast.And) else "or", p, out)
            return out
        if isinstance(e, ast.Compare) and len(e.ops) == 1:
            op, left, right = e.ops[0], e.left, e.comparators[0]
            lt, rt = ast.unparse(left), ast.unparse(right)
            if isinstance(op, (ast.Is, ast.IsNot)) and isinstance(right, ast.Constant) and right.value is None:
                if lt == "y":
                    self.need("y", e)
                    a = A("yGiven")
                elif lt in FEATURES:
                    self.need(lt, e)
                    a = A(FEATURES[lt][0] + "Given")
                else:
                    _bad(f"`is None` test of an unknown name: `{t}`")
                return a if isinstance(op, ast.IsNot) else NEG(a)
            if isinstance(op, (ast.Eq, ast.NotEq, ast.Gt, ast.Lt, ast.LtE, ast.GtE)) and lt in ("y.size", "len(y)") \
                    and isinstance(right, ast.Constant) and type(right.value) is int:
                self.need_array(e)
                k = right.value
                empty = {(ast.Eq, 0): True, (ast.NotEq, 0): False, (ast.Gt, 0): False, (ast.LtE, 0): True, (ast.Lt, 1): True,
                         (ast.GtE, 1): False}.get((type(op), k))
                if empty is None:
                    _bad(f"size test of y: `{t}`")
                return NEG(A("yNonempty")) if empty else A("yNonempty")
            rows = {"y.shape[0]": "y", "result_X.shape[0]": "result_X", "len(y)": "y", "len(result_X)": "result_X",
                    "X.shape[0]": "X"}
            if isinstance(op, (ast.Eq, ast.NotEq)) and {lt, rt} in ({"y.shape[0]", "result_X.shape[0]"}, {"y.shape[0]", "X.shape[0]"}):
                for side in (lt, rt):
                    self.need(rows[side], e)
                a = A("yRowsMatch")
                return a if isinstance(op, ast.Eq) else NEG(a)
        if isinstance(e, ast.Call) and isinstance(e.func, ast.Attribute) and e.func.attr == "issubset" and len(e.args) == 1 \
                and not e.keywords and ast.unparse(e.func.value) in ("set(np.unique(y))", "set(y)", "set(np.unique(y).tolist())"):
            self.need("y", e)
            labels = self.literal_set(e.args[0])
            if self.label_set is not None and self.label_set != labels:
                _bad("two different label sets")
            self.label_set = labels
            return A("yBinary")
        _bad(f"condition I do not understand: `{t}`")

    @staticmethod
    def literal_set(e):
        if isinstance(e, ast.Call) and isinstance(e.func, ast.Name) and e.func.id in ("set", "frozenset") and len(e.args) == 1 \
                and not e.keywords:
            e = e.args[0]
        if not isinstance(e, (ast.Set, ast.List, ast.Tuple)) or not e.elts:
            _bad(f"label set is not a literal collection: `{ast.unparse(e)}`")
        vals = []
        for x in e.elts:
            if not (isinstance(x, ast.Constant) and type(x.value) in (int, float) and float(x.value).is_integer()):
                _bad(f"label set element `{ast.unparse(x)}`")
            vals.append(int(x.value))
        return sorted(set(vals))

    def need(self, name, node):
        if name not in self.bound:
            _bad(f"`{ast.unparse(node)}` reads `{name}` where it does not hold the value the lifter follows")

    def need_array(self, node):
        self.need("y", node)
        if not self.y_is_array:
            _bad(f"`{ast.unparse(node)}` reads an array attribute of y before `y = np.asarray(y)`")

    # ---- statements
    def emit(self, what, path, fail, exc):
        self.checks.append((what, conj(path + [fail]), exc))

    def reads_tracked_ok(self, node):
        """no call of a checking function hides inside a statement that is not lifted as a check"""
        for n in ast.walk(node):
            if isinstance(n, ast.Call):
                f = ast.unparse(n.func)
                if f in CHECK_FUNCS or f.split(".")[-1] in CHECK_FUNCS or f.startswith(("_validate", "check_", "_check")):
                    _bad(f"a checking call in a place I do not lift: `{ast.unparse(node)[:90]}`")
            if isinstance(n, (ast.Raise, ast.Assert, ast.NamedExpr, ast.Yield, ast.YieldFrom, ast.Await)):
                _bad(f"`{type(n).__name__}` in a place I do not lift: `{ast.unparse(node)[:90]}`")

    @staticmethod
    def targets(st):
        out = []
        ts = st.targets if isinstance(st, ast.Assign) else [st.target]
        for t in ts:
            for n in ast.walk(t):
                if isinstance(n, ast.Name):
                    out.append(n.id)
        return out

    def array_call(self, st, role, arg_text, path):
        call = st.value
        if not (isinstance(call, ast.Call) and ast.unparse(call.func) == "check_array" and len(call.args) == 1
                and ast.unparse(call.args[0]) == arg_text and all(k.arg for k in call.keywords)):
            return False
        kws = sorted((k.arg, ast.unparse(k.value)) for k in call.keywords)
        self.array_calls.append((role, kws))
        self.emit(f"check_array({arg_text})", path, NEG(A(role + "ArrayOk")), "valueError")
        return True

    def feature_block(self, st, nxt, path):
        """`v = kwargs.get(K)` followed by `if v is not None: <4 statements read by merge_callers> [elif flag: raise]`"""
        var = st.targets[0].id
        role, kw = FEATURES[var]
        if ast.unparse(st.value) != f"kwargs.get({kw})":
            _bad(f"`{ast.unparse(st)}`: {var} is not taken from kwargs.get({kw})")
        self.need("kwargs", st)
        if var in self.bound:
            _bad(f"{var} is bound twice")
        self.bound.add(var)
        if not (isinstance(nxt, ast.If) and ast.unparse(nxt.test) == f"{var} is not None"):
            _bad(f"`if {var} is not None:` does not follow `{ast.unparse(st)}`")
        given = A(role + "Given")
        body = nxt.body            # shape checked by merge_callers._feature_block
        self.emit(ast.unparse(body[0]), path + [given], NEG(A(role + "RowsMatch")), "valueError")
        if not self.array_call(body[1], role, var, path + [given]):
            _bad(f"{var}: `{ast.unparse(body[1])[:90]}`")
        self.block(nxt.orelse, path + [NEG(given)])

    def neutral(self, st):
        """a statement that raises nothing the model sees and assigns no tracked name (result_y, a message, ..)"""
        self.reads_tracked_ok(st)
        for n in ast.walk(st):
            if isinstance(n, (ast.Assign, ast.AugAssign, ast.AnnAssign)):
                for t in self.targets(n):
                    if t in TRACKED:
                        _bad(f"assignment to `{t}`, which the checks read, in a form I do not follow: `{ast.unparse(n)[:90]}`")
                ts = n.targets if isinstance(n, ast.Assign) else [n.target]
                if any(not isinstance(t, (ast.Name, ast.Tuple)) for t in ts):
                    _bad(f"assignment to something that is not a local: `{ast.unparse(n)[:90]}`")
            elif isinstance(n, (ast.For, ast.While, ast.Try, ast.With, ast.Delete, ast.Return, ast.Global, ast.Nonlocal,
                                ast.FunctionDef, ast.Lambda, ast.Import, ast.ImportFrom, ast.Break, ast.Continue)):
                _bad(f"`{type(n).__name__}` in a place I do not lift: `{ast.unparse(st)[:90]}`")
            elif isinstance(n, ast.Expr) and not isinstance(n.value, ast.Constant):
                _bad(f"expression statement `{ast.unparse(n)[:90]}`")

    def has_check(self, stmts):
        for st in stmts:
            for n in ast.walk(st):
                if isinstance(n, ast.Raise):
                    return True
                if isinstance(n, ast.Call) and ast.unparse(n.func).split(".")[-1] in CHECK_FUNCS:
                    return True
                if isinstance(n, (ast.Assign, ast.AugAssign, ast.AnnAssign)) and any(t in TRACKED for t in self.targets(n)):
                    return True
        return False

    def block(self, stmts, path):
        i = 0
        while i < len(stmts):
            st = stmts[i]
            i += 1
            if self.returned:
                _bad("statements after the return")
            if isinstance(st, ast.Raise):
                name = st.exc.func.id if isinstance(st.exc, ast.Call) and isinstance(st.exc.func, ast.Name) else \
                    (st.exc.id if isinstance(st.exc, ast.Name) else None)
                if name not in EXC or st.cause is not None:
                    _bad(f"`{ast.unparse(st)[:80]}`: exception class I do not know")
                if i != len(stmts):
                    _bad("statements after a raise")
                self.emit("raise " + name, path, ("tt",), EXC[name])
                return
            if isinstance(st, ast.Return):
                if path or i != len(stmts):
                    _bad("a return that is not the last statement of the function")
                self.returned = True
                continue
            if isinstance(st, ast.If):
                if not self.has_check([st]):
                    self.neutral(st)
                    continue
                if ast.unparse(st.test) == "isinstance(X, pd.DataFrame)" and not st.orelse and len(st.body) == 1 \
                        and ast.unparse(st.body[0]) == "result_X = pd.DataFrame(result_X)":
                    self.need("result_X", st)          # same rows: followed
                    continue
                c = self.cond(st.test)
                saved = (self.y_is_array, set(self.bound))
                self.block(st.body, path + [c])
                after_body = (self.y_is_array, set(self.bound))
                self.y_is_array, self.bound = saved[0], set(saved[1])
                self.block(st.orelse, path + [NEG(c)])
                # what holds after the `if`: what holds on both branches (a branch that ends in a raise does not count)
                ends = [bool(b) and isinstance(b[-1], ast.Raise) for b in (st.body, st.orelse)]
                if ends[0] and not ends[1]:
                    pass
                elif ends[1] and not ends[0]:
                    self.y_is_array, self.bound = after_body[0], after_body[1]
                else:
                    self.y_is_array = self.y_is_array and after_body[0]
                    self.bound &= after_body[1]
                continue
            if isinstance(st, ast.Expr) and isinstance(st.value, ast.Call) and ast.unparse(st.value.func) == "check_consistent_length":
                _bad(f"`{ast.unparse(st)}` outside a feature block")
            if isinstance(st, ast.Assign) and len(st.targets) == 1 and isinstance(st.targets[0], ast.Name):
                tgt, val = st.targets[0].id, ast.unparse(st.value)
                if tgt == "y" and val in ("np.asarray(y)", "np.array(y)", "numpy.asarray(y)"):
                    self.need("y", st)
                    # `np.asarray(None)` is an array, not None: the rebinding keeps `y is None` only after the None test
                    none_test = conj(path + [NEG(A("yGiven"))])
                    if not any(c == none_test for _, c, _ in self.checks):
                        _bad("`y = np.asarray(y)` is not preceded by the `y is None` check on the same path")
                    self.y_is_array = True
                    continue
                if tgt == "y" and self.y_is_array and self.array_call(st, "y", "y.reshape(-1)", path):
                    continue
                if tgt == "result_X" and "result_X" not in self.bound and self.array_call(st, "x", "X", path):
                    self.need("X", st)
                    self.bound.add("result_X")
                    continue
                if tgt in FEATURES:
                    nxt = stmts[i] if i < len(stmts) else None
                    self.feature_block(st, nxt, path)
                    i += 1
                    continue
            self.neutral(st)


@translate.lifter
def validate_src(repo):
    iv = normalize.canon_tree(mc._parse(repo, mc.IV), mc.PINNED_IV, extra_funcs=("check_array", "_merge_columns"),
                              extra_methods=("squeeze",))
    fn = mc._top_fn(iv, mc.VALIDATE)
    try:
        for var, (_, kw) in FEATURES.items():
            mc._feature_block(fn, var, kw)       # shape of the two feature blocks (refuses what it does not know)
    except IndexError:
        _bad("a feature block is cut short")
    a = fn.args
    params = [x.arg for x in a.posonlyargs + a.args + a.kwonlyargs]
    if params[:2] != ["X", "y"] or set(FLAGS) - set(params) or a.kwarg is None or a.kwarg.arg != "kwargs" or a.vararg is not None:
        _bad(f"signature changed: {params}")
    for n in ast.walk(fn):
        if isinstance(n, (ast.Global, ast.Nonlocal)):
            _bad("global / nonlocal")
    w = Walker(fn)
    w.block(fn.body, [])
    if not w.returned:
        _bad("no final return")
    if w.label_set is None:
        _bad("no label-set test")
    if not w.checks:
        _bad("no checks")
    for role, kws in w.array_calls:
        for k, _ in kws:
            if k not in REJECTING_KW:
                _bad(f"check_array keyword `{k}` I do not know")
    rows = ",\n   ".join(f"⟨{lstr(what)}, {lean(c)}, .{exc}⟩" for what, c, exc in w.checks)
    calls = ",\n   ".join(f"({lstr(role)}, [{', '.join(f'({lstr(k)}, {lstr(v)})' for k, v in kws)}])" for role, kws in w.array_calls)
    src = f"""/- GENERATED by harness/lifters/validate_src.py from {mc.IV} (`{mc.VALIDATE}`). Do not edit. -/
namespace Generated.ValidateSrc

/-- atomic conditions the checks of `{mc.VALIDATE}` read -/
inductive Atom where
  | expectY | expectSf | enforceBinary
  | yGiven | yNonempty | yShapeOk | yBinary | yArrayOk | yRowsMatch
  | xArrayOk
  | sfGiven | sfRowsMatch | sfArrayOk
  | cfGiven | cfRowsMatch | cfArrayOk
deriving DecidableEq, Repr

inductive Cond where
  | tt | atom (a : Atom) | neg (c : Cond) | and (a b : Cond) | or (a b : Cond)
deriving DecidableEq, Repr

inductive Exc where
  | valueError | typeError | runtimeError
deriving DecidableEq, Repr

/-- one statement that can raise: its text, the condition (path of the enclosing `if`s ∧ its own test) under which it
    raises, the kind of exception -/
structure Check where
  what : String
  cond : Cond
  exc : Exc
deriving DecidableEq, Repr

/-- the label set of the `enforce_binary_labels` test -/
def labelSet : List Rat := [{", ".join(str(v) for v in w.label_set)}]

/-- the checks of `{mc.VALIDATE}` in execution order -/
def checks : List Check :=
  [{rows}]

/-- the `check_array` calls (x = X, y, sf, cf) with their keywords, in execution order -/
def arrayCalls : List (String × List (String × String)) :=
  [{calls}]

end Generated.ValidateSrc
"""
    meta = {"checks": [[what, exc] for what, _, exc in w.checks], "label_set": w.label_set,
            "array_calls": {r: dict(k) for r, k in w.array_calls}}
    return "ValidateSrc.lean", src, meta
