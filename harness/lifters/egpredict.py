"""Lifter for C10: how `ExponentiatedGradient.predict` pairs the stored predictors' values with `weights_`
in the regression branch.

Lifted shape (anything else is refused):

    randomized_pred[i] = random_state.choice(pred.iloc[i, :], p=<P>)

with <P> one of
    self.weights_                                   -> positional pairing (numpy ignores the Series index)
    a local variable assigned once in predict to one of the expressions listed here
    self.weights_[pred.columns] / .loc[pred.columns] / .reindex(pred.columns) / .sort_index()
                                                    -> aligned by predictor id (pred's columns are 0..T-1)
and the classification branch
    (positive_probs >= random_state.rand(len(positive_probs))) * 1
The result is `Generated/EgPredict.lean` with `regressionDrawById : Bool`; `Pmf.egRegPredictCode` follows it."""
import ast
import os
from fractions import Fraction

from .. import translate
from . import normalize
from .moments import inline_temps, respell

REL = "fairlearn/reductions/_exponentiated_gradient/exponentiated_gradient.py"


# locals of the pinned source in order of first binding; the weights temporary may be inlined by the source
PREDICT_LOCALS = ["positive_probs", "pred", "randomized_pred", "weights", "i"]


def _refuse(msg):
    raise translate.Untranslatable(f"{REL}: {msg}")


def _is_self_weights(n):
    return (isinstance(n, ast.Attribute) and n.attr == "weights_" and isinstance(n.value, ast.Name) and n.value.id == "self")


def _is_pred_columns(n):
    return isinstance(n, ast.Attribute) and n.attr == "columns" and isinstance(n.value, ast.Name) and n.value.id == "pred"


PMF_LOCALS = ["pred", "t", "positive_probs"]


def _num(node):
    if isinstance(node, ast.Constant) and isinstance(node.value, (int, float)) and not isinstance(node.value, bool):
        q = Fraction(repr(node.value)) if isinstance(node.value, float) else Fraction(node.value)
        return f"({q.numerator} : Rat)" if q.denominator == 1 else f"(({q.numerator} : Rat) / {q.denominator})"
    return None


def _lift_pmf_predict(tree):
    """`ExponentiatedGradient._pmf_predict`: the zero-weight mask, how `.dot` pairs columns with weights, the two
    returned columns.  Anything else of the body is shape-checked; unknown shapes are refused."""
    fn = None
    for node in ast.walk(tree):
        if isinstance(node, ast.ClassDef) and node.name == "ExponentiatedGradient":
            for f in node.body:
                if isinstance(f, ast.FunctionDef) and f.name == "_pmf_predict":
                    fn = f
    if fn is None:
        _refuse("ExponentiatedGradient._pmf_predict not found")
    inline_temps(fn, PMF_LOCALS)
    fn = normalize.rename_locals(fn, PMF_LOCALS)
    body = [n for n in fn.body if ast.unparse(n) != "check_is_fitted(self)"]
    if len(body) != 3 or ast.unparse(body[0]) != "pred = pd.DataFrame()" or not isinstance(body[1], ast.For) \
            or not isinstance(body[2], ast.If):
        _refuse(f"_pmf_predict body changed: {[ast.unparse(n)[:50] for n in body]}")
    loop, br = body[1], body[2]
    if ast.unparse(loop.target) != "t" or ast.unparse(loop.iter) != "range(len(self._hs))" or loop.orelse or len(loop.body) != 1 \
            or not isinstance(loop.body[0], ast.If):
        _refuse("_pmf_predict: the loop is not `for t in range(len(self._hs)): if ..: .. else: ..`")
    sel = loop.body[0]
    tst = sel.test
    if not (isinstance(tst, ast.Compare) and len(tst.ops) == 1 and isinstance(tst.ops[0], (ast.Eq, ast.NotEq))
            and ast.unparse(tst.left) == "self.weights_[t]" and _num(tst.comparators[0]) is not None):
        _refuse(f"_pmf_predict: mask test {ast.unparse(tst)!r}")

    def col(stmts):
        if len(stmts) != 1 or not isinstance(stmts[0], ast.Assign) or ast.unparse(stmts[0].targets[0]) != "pred[t]":
            _refuse(f"_pmf_predict: column store {[ast.unparse(n) for n in stmts]}")
        v = ast.unparse(stmts[0].value)
        if v == "np.zeros(len(X))":
            return "(0 : Rat)"
        if v == "np.ones(len(X))":
            return "(1 : Rat)"
        if v in ("np.asarray(self._hs[t](X))", "self._hs[t](X)", "np.array(self._hs[t](X))"):
            return "pred"
        _refuse(f"_pmf_predict: column value {v!r}")
    yes, no = col(sel.body), col(sel.orelse)
    if isinstance(tst.ops[0], ast.NotEq):
        yes, no = no, yes
    column = f"(if w = {_num(tst.comparators[0])} then {yes} else {no})"
    # classification / regression
    if ast.unparse(br.test) != "isinstance(self.constraints, ClassificationMoment)" or \
            [ast.unparse(n) for n in br.orelse] != ["return pred"] or len(br.body) != 2:
        _refuse("_pmf_predict: classification / regression branch changed")
    pp, ret = br.body
    if not (isinstance(pp, ast.Assign) and ast.unparse(pp.targets[0]) == "positive_probs" and isinstance(ret, ast.Return)):
        _refuse("_pmf_predict: classification branch changed")
    dv = pp.value
    if not (isinstance(dv, ast.Call) and isinstance(dv.func, ast.Attribute) and dv.func.attr == "to_frame" and not dv.args
            and not dv.keywords):
        _refuse(f"positive_probs = {ast.unparse(dv)}")
    dot = ast.unparse(dv.func.value)
    by_id = {"pred[self.weights_.index].dot(self.weights_)": True, "pred.dot(self.weights_)": True,
             "pred.loc[:, self.weights_.index].dot(self.weights_)": True,
             "pred.values.dot(self.weights_.values)": False, "pred.dot(self.weights_.values)": False,
             "np.dot(pred.values, self.weights_.values)": False, "pred.values @ self.weights_.values": False}.get(dot)
    if by_id is None:
        _refuse(f"_pmf_predict: mixture expression {dot!r}")
    rv = ret.value
    if not (isinstance(rv, ast.Call) and ast.unparse(rv.func) == "np.concatenate" and len(rv.args) == 1
            and isinstance(rv.args[0], (ast.Tuple, ast.List)) and len(rv.args[0].elts) == 2
            and [(k.arg, ast.unparse(k.value)) for k in rv.keywords] == [("axis", "1")]):
        _refuse(f"_pmf_predict returns {ast.unparse(rv)}")

    def arith(n):
        if isinstance(n, ast.Name) and n.id == "positive_probs":
            return "p"
        if _num(n) is not None:
            return _num(n)
        if isinstance(n, ast.BinOp) and isinstance(n.op, (ast.Add, ast.Sub, ast.Mult)):
            sym = {ast.Add: "+", ast.Sub: "-", ast.Mult: "*"}[type(n.op)]
            return f"({arith(n.left)} {sym} {arith(n.right)})"
        _refuse(f"_pmf_predict: returned column {ast.unparse(n)!r}")
    c0, c1 = (arith(e) for e in rv.args[0].elts)
    return {"column": column, "by_id": by_id, "dot_src": dot, "col0": c0, "col1": c1, "cols_src": f"np.concatenate(({ast.unparse(rv.args[0].elts[0])}, {ast.unparse(rv.args[0].elts[1])}), axis=1)"}


@translate.lifter
def lift_egpredict(repo):
    tree = normalize.parse(translate._read(repo, REL))
    predict = None
    for node in ast.walk(tree):
        if isinstance(node, ast.ClassDef) and node.name == "ExponentiatedGradient":
            for f in node.body:
                if isinstance(f, ast.FunctionDef) and f.name == "predict":
                    predict = f
    if predict is None:
        raise translate.Untranslatable(f"{REL}: ExponentiatedGradient.predict not found")
    # undo renamed locals / introduced temporaries / mirrored or commuted spellings of the classification draw
    inline_temps(predict, PREDICT_LOCALS)
    predict = normalize.rename_locals(predict, PREDICT_LOCALS)
    if "weights" not in normalize.binding_order(predict):       # the source inlined the weights temporary
        predict = normalize.rename_locals(predict, [n for n in PREDICT_LOCALS if n != "weights"])
    respell(predict, arith=["(positive_probs >= random_state.rand(len(positive_probs))) * 1"],
            tests=["positive_probs >= random_state.rand(len(positive_probs))"])
    # the statements around the two draws (the docstring's shape): which column is the positive probability, one
    # uniform draw per row, `* 1`; one choice per row of `pred`, stored in that row
    branch = [n for n in predict.body if isinstance(n, ast.If)
              and ast.unparse(n.test) == "isinstance(self.constraints, ClassificationMoment)"]
    if len(branch) != 1 or predict.body[-1] is not branch[0]:
        _refuse("predict does not end with the classification / regression branch")
    cb = branch[0].body
    if len(cb) != 2 or not isinstance(cb[0], ast.Assign) or ast.unparse(cb[0].targets[0]) != "positive_probs" \
            or not isinstance(cb[1], ast.Return):
        _refuse(f"classification branch changed: {[ast.unparse(n) for n in cb]}")
    pv = cb[0].value
    if not (isinstance(pv, ast.Subscript) and ast.unparse(pv.value) == "self._pmf_predict(X)" and isinstance(pv.slice, ast.Tuple)
            and len(pv.slice.elts) == 2 and ast.unparse(pv.slice.elts[0]) == ":" and isinstance(pv.slice.elts[1], ast.Constant)
            and pv.slice.elts[1].value in (0, 1, -1, -2) and not isinstance(pv.slice.elts[1].value, bool)):
        _refuse(f"positive_probs = {ast.unparse(pv)}")
    pos_col = {0: "c0", 1: "c1", -1: "c1", -2: "c0"}[pv.slice.elts[1].value]
    rv = cb[1].value
    scale, cmp_ = None, None
    if isinstance(rv, ast.BinOp) and isinstance(rv.op, ast.Mult):
        for a, b in ((rv.left, rv.right), (rv.right, rv.left)):
            if isinstance(b, ast.Constant) and isinstance(b.value, int) and not isinstance(b.value, bool) and isinstance(a, ast.Compare):
                scale, cmp_ = b.value, a
    if cmp_ is None or len(cmp_.ops) != 1 or scale is None or scale < 0:
        _refuse(f"classification draw is not `(<probs> <cmp> <uniforms>) * <n>`: {ast.unparse(rv)}")
    RAND = "random_state.rand(len(positive_probs))"
    ops = {ast.GtE: "≥", ast.Gt: ">", ast.LtE: "≤", ast.Lt: "<"}
    mirror = {ast.GtE: ast.LtE, ast.Gt: ast.Lt, ast.LtE: ast.GtE, ast.Lt: ast.Gt}
    lft, op, rgt = ast.unparse(cmp_.left), type(cmp_.ops[0]), ast.unparse(cmp_.comparators[0])
    if op not in ops:
        _refuse(f"comparison operator of the classification draw: {ast.unparse(cmp_)}")
    if (lft, rgt) == (RAND, "positive_probs"):
        op = mirror[op]
    elif (lft, rgt) != ("positive_probs", RAND):
        _refuse(f"classification draw compares {lft!r} with {rgt!r} (one uniform number per row expected)")
    draw_term = f"decide (p {ops[op]} u)"
    pmf_terms = _lift_pmf_predict(tree)
    reg = branch[0].orelse
    loops = [n for n in reg if isinstance(n, ast.For)]
    if len(loops) != 1 or ast.unparse(loops[0].target) != "i" or ast.unparse(loops[0].iter) != "range(pred.shape[0])" \
            or loops[0].orelse or len(loops[0].body) != 1 or not isinstance(loops[0].body[0], ast.Assign) \
            or ast.unparse(loops[0].body[0].targets[0]) != "randomized_pred[i]" \
            or not isinstance(loops[0].body[0].value, ast.Call):
        _refuse("regression branch is not one `randomized_pred[i] = <choice>` per `i in range(pred.shape[0])`")
    others = [ast.unparse(n) for n in reg if n is not loops[0] and not (
        isinstance(n, ast.Assign) and ast.unparse(n.targets[0]) == "weights")]
    if others != ["pred = self._pmf_predict(X)", "randomized_pred = np.zeros(pred.shape[0])", "return randomized_pred"] \
            or reg[-1] is loops[0] or reg.index(loops[0]) != len(reg) - 2:
        _refuse(f"regression branch changed: {others}")
    for n in reg[:-2]:
        if isinstance(n, ast.Assign) and ast.unparse(n.targets[0]) == "weights" and reg.index(n) < 1:
            _refuse("weights are computed before pred")
    choices = [n for n in ast.walk(predict) if isinstance(n, ast.Call) and isinstance(n.func, ast.Attribute)
               and n.func.attr == "choice"]
    if len(choices) != 1:
        raise translate.Untranslatable(f"{REL}: expected exactly one random_state.choice(...) call in predict, found {len(choices)}")
    c = choices[0]
    if not (isinstance(c.func.value, ast.Name) and c.func.value.id == "random_state" and len(c.args) == 1
            and len(c.keywords) == 1 and c.keywords[0].arg == "p"):
        raise translate.Untranslatable(f"{REL}: choice call is not random_state.choice(<values>, p=<probs>)")
    v = c.args[0]
    ok_values = (isinstance(v, ast.Subscript) and isinstance(v.value, ast.Attribute) and v.value.attr == "iloc"
                 and isinstance(v.value.value, ast.Name) and v.value.value.id == "pred"
                 and isinstance(v.slice, ast.Tuple) and len(v.slice.elts) == 2 and isinstance(v.slice.elts[0], ast.Name)
                 and isinstance(v.slice.elts[1], ast.Slice) and v.slice.elts[1].lower is None and v.slice.elts[1].upper is None)
    if not ok_values:
        raise translate.Untranslatable(f"{REL}: choice values are not pred.iloc[i, :]")
    p = c.keywords[0].value
    if isinstance(p, ast.Name):
        # a local variable: resolve it through its (single) assignment inside predict
        defs = [n for n in ast.walk(predict) if isinstance(n, ast.Assign) and len(n.targets) == 1
                and isinstance(n.targets[0], ast.Name) and n.targets[0].id == p.id]
        if len(defs) != 1:
            raise translate.Untranslatable(f"{REL}: p={p.id} is not a local variable with exactly one assignment in predict")
        p = defs[0].value
    if _is_self_weights(p):
        by_id = False
    elif isinstance(p, ast.Subscript) and isinstance(p.value, ast.Attribute) and p.value.attr == "loc" \
            and _is_self_weights(p.value.value) and _is_pred_columns(p.slice):
        p = ast.Subscript(value=p.value.value, slice=p.slice, ctx=ast.Load())   # Series.loc[labels] = Series[labels] for a
        by_id = True                                                            # list-like of labels: the pinned spelling
    elif isinstance(p, ast.Subscript) and _is_pred_columns(p.slice) and (
            _is_self_weights(p.value)
            or (isinstance(p.value, ast.Attribute) and p.value.attr == "loc" and _is_self_weights(p.value.value))):
        by_id = True
    elif (isinstance(p, ast.Call) and isinstance(p.func, ast.Attribute) and _is_self_weights(p.func.value) and not p.keywords
          and ((p.func.attr == "reindex" and len(p.args) == 1 and _is_pred_columns(p.args[0]))
               or (p.func.attr == "sort_index" and not p.args))):
        by_id = True
    else:
        raise translate.Untranslatable(f"{REL}: unsupported p= expression in predict: {ast.unparse(p)}")
    content = (
        "/-\nGENERATED by harness/lifters/egpredict.py from " + REL + " — do not edit.\n"
        "`regressionDrawById` says whether `predict` hands `RandomState.choice` the weights re-ordered to the\n"
        "predictor ids of `pred`'s columns (true) or `weights_` as stored, i.e. positionally (false).\n"
        f"source expression: p={ast.unparse(p)}\n-/\n"
        "namespace EgPredict\n\n"
        f"def regressionDrawById : Bool := {'true' if by_id else 'false'}\n\n"
        "/-- `_pmf_predict`, column `t` of `pred`: `if self.weights_[t] == 0: pred[t] = np.zeros(len(X)) else: pred[t] = "
        "np.asarray(self._hs[t](X))` (w = `weights_[t]`, pred = that predictor's output on the row) -/\n"
        f"def egColumn (w pred : Rat) : Rat := {pmf_terms['column']}\n"
        f"/-- `{pmf_terms['dot_src']}`: true = the columns of `pred` are paired with the entries of `weights_` BY PREDICTOR ID "
        "(`weights_.index` need not be `0..T-1` in order), false = by position -/\n"
        f"def dotById : Bool := {'true' if pmf_terms['by_id'] else 'false'}\n"
        f"/-- the two returned columns: `{pmf_terms['cols_src']}` -/\n"
        f"def col0 (p : Rat) : Rat := {pmf_terms['col0']}\n"
        f"def col1 (p : Rat) : Rat := {pmf_terms['col1']}\n"
        f"/-- `predict`: `{ast.unparse(cb[0])}` -/\n"
        f"def positiveCol (c0 c1 : Rat) : Rat := {pos_col}\n"
        f"/-- `predict`: `{ast.unparse(cb[1])}` (u = the row's uniform draw) -/\n"
        f"def drawsOne (p u : Rat) : Bool := {draw_term}\n"
        f"def labelScale : Nat := {scale}\n\n"
        "end EgPredict\n"
    )
    return "EgPredict.lean", content, {"p_expr": ast.unparse(p), "by_id": by_id, "source": os.path.join(repo, REL),
                                       "pmf": pmf_terms, "positive_col": pos_col, "draw": draw_term, "scale": scale}
