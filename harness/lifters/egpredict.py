"""Lifter for C10: how `ExponentiatedGradient.predict` pairs the stored predictors' values with `weights_`
in the regression branch.

Lifted shape (anything else is refused):

    randomized_pred[i] = random_state.choice(pred.iloc[i, :], p=<P>)

with <P> one of
    self.weights_                                   -> positional pairing (numpy ignores the Series index)
    a local variable assigned once in predict to one of the expressions listed here
    self.weights_[pred.columns] / .loc[pred.columns] / .reindex(pred.columns) / .sort_index()
                                                    -> aligned by predictor id (pred's columns are 0..T-1)
and the classification branch
    (positive_probs >= random_state.rand(len(positive_probs))) * 1
The result is `Generated/EgPredict.lean` with `regressionDrawById : Bool`; `Pmf.egRegPredictCode` follows it."""
import ast
import os

from .. import translate
from . import normalize
from .moments import inline_temps, respell

REL = "fairlearn/reductions/_exponentiated_gradient/exponentiated_gradient.py"


# locals of the pinned source in order of first binding; the weights temporary may be inlined by the source
PREDICT_LOCALS = ["positive_probs", "pred", "randomized_pred", "weights", "i"]


def _refuse(msg):
    raise translate.Untranslatable(f"{REL}: {msg}")


def _is_self_weights(n):
    return (isinstance(n, ast.Attribute) and n.attr == "weights_" and isinstance(n.value, ast.Name) and n.value.id == "self")


def _is_pred_columns(n):
    return isinstance(n, ast.Attribute) and n.attr == "columns" and isinstance(n.value, ast.Name) and n.value.id == "pred"


@translate.lifter
def lift_egpredict(repo):
    tree = normalize.parse(translate._read(repo, REL))
    predict = None
    for node in ast.walk(tree):
        if isinstance(node, ast.ClassDef) and node.name == "ExponentiatedGradient":
            for f in node.body:
                if isinstance(f, ast.FunctionDef) and f.name == "predict":
                    predict = f
    if predict is None:
        raise translate.Untranslatable(f"{REL}: ExponentiatedGradient.predict not found")
    # undo renamed locals / introduced temporaries / mirrored or commuted spellings of the classification draw
    inline_temps(predict, PREDICT_LOCALS)
    predict = normalize.rename_locals(predict, PREDICT_LOCALS)
    if "weights" not in normalize.binding_order(predict):       # the source inlined the weights temporary
        predict = normalize.rename_locals(predict, [n for n in PREDICT_LOCALS if n != "weights"])
    respell(predict, arith=["(positive_probs >= random_state.rand(len(positive_probs))) * 1"],
            tests=["positive_probs >= random_state.rand(len(positive_probs))"])
    # the statements around the two draws (the docstring's shape): which column is the positive probability, one
    # uniform draw per row, `* 1`; one choice per row of `pred`, stored in that row
    branch = [n for n in predict.body if isinstance(n, ast.If)
              and ast.unparse(n.test) == "isinstance(self.constraints, ClassificationMoment)"]
    if len(branch) != 1 or predict.body[-1] is not branch[0]:
        _refuse("predict does not end with the classification / regression branch")
    if [ast.unparse(n) for n in branch[0].body] != ["positive_probs = self._pmf_predict(X)[:, 1]",
                                                    "return (positive_probs >= random_state.rand(len(positive_probs))) * 1"]:
        _refuse(f"classification branch changed: {[ast.unparse(n) for n in branch[0].body]}")
    reg = branch[0].orelse
    loops = [n for n in reg if isinstance(n, ast.For)]
    if len(loops) != 1 or ast.unparse(loops[0].target) != "i" or ast.unparse(loops[0].iter) != "range(pred.shape[0])" \
            or loops[0].orelse or len(loops[0].body) != 1 or not isinstance(loops[0].body[0], ast.Assign) \
            or ast.unparse(loops[0].body[0].targets[0]) != "randomized_pred[i]" \
            or not isinstance(loops[0].body[0].value, ast.Call):
        _refuse("regression branch is not one `randomized_pred[i] = <choice>` per `i in range(pred.shape[0])`")
    others = [ast.unparse(n) for n in reg if n is not loops[0] and not (
        isinstance(n, ast.Assign) and ast.unparse(n.targets[0]) == "weights")]
    if others != ["pred = self._pmf_predict(X)", "randomized_pred = np.zeros(pred.shape[0])", "return randomized_pred"] \
            or reg[-1] is loops[0] or reg.index(loops[0]) != len(reg) - 2:
        _refuse(f"regression branch changed: {others}")
    for n in reg[:-2]:
        if isinstance(n, ast.Assign) and ast.unparse(n.targets[0]) == "weights" and reg.index(n) < 1:
            _refuse("weights are computed before pred")
    choices = [n for n in ast.walk(predict) if isinstance(n, ast.Call) and isinstance(n.func, ast.Attribute)
               and n.func.attr == "choice"]
    if len(choices) != 1:
        raise translate.Untranslatable(f"{REL}: expected exactly one random_state.choice(...) call in predict, found {len(choices)}")
    c = choices[0]
    if not (isinstance(c.func.value, ast.Name) and c.func.value.id == "random_state" and len(c.args) == 1
            and len(c.keywords) == 1 and c.keywords[0].arg == "p"):
        raise translate.Untranslatable(f"{REL}: choice call is not random_state.choice(<values>, p=<probs>)")
    v = c.args[0]
    ok_values = (isinstance(v, ast.Subscript) and isinstance(v.value, ast.Attribute) and v.value.attr == "iloc"
                 and isinstance(v.value.value, ast.Name) and v.value.value.id == "pred"
                 and isinstance(v.slice, ast.Tuple) and len(v.slice.elts) == 2 and isinstance(v.slice.elts[0], ast.Name)
                 and isinstance(v.slice.elts[1], ast.Slice) and v.slice.elts[1].lower is None and v.slice.elts[1].upper is None)
    if not ok_values:
        raise translate.Untranslatable(f"{REL}: choice values are not pred.iloc[i, :]")
    p = c.keywords[0].value
    if isinstance(p, ast.Name):
        # a local variable: resolve it through its (single) assignment inside predict
        defs = [n for n in ast.walk(predict) if isinstance(n, ast.Assign) and len(n.targets) == 1
                and isinstance(n.targets[0], ast.Name) and n.targets[0].id == p.id]
        if len(defs) != 1:
            raise translate.Untranslatable(f"{REL}: p={p.id} is not a local variable with exactly one assignment in predict")
        p = defs[0].value
    if _is_self_weights(p):
        by_id = False
    elif isinstance(p, ast.Subscript) and isinstance(p.value, ast.Attribute) and p.value.attr == "loc" \
            and _is_self_weights(p.value.value) and _is_pred_columns(p.slice):
        p = ast.Subscript(value=p.value.value, slice=p.slice, ctx=ast.Load())   # Series.loc[labels] = Series[labels] for a
        by_id = True                                                            # list-like of labels: the pinned spelling
    elif isinstance(p, ast.Subscript) and _is_pred_columns(p.slice) and (
            _is_self_weights(p.value)
            or (isinstance(p.value, ast.Attribute) and p.value.attr == "loc" and _is_self_weights(p.value.value))):
        by_id = True
    elif (isinstance(p, ast.Call) and isinstance(p.func, ast.Attribute) and _is_self_weights(p.func.value) and not p.keywords
          and ((p.func.attr == "reindex" and len(p.args) == 1 and _is_pred_columns(p.args[0]))
               or (p.func.attr == "sort_index" and not p.args))):
        by_id = True
    else:
        raise translate.Untranslatable(f"{REL}: unsupported p= expression in predict: {ast.unparse(p)}")
    # classification branch: (positive_probs >= random_state.rand(len(positive_probs))) * 1
    cmp_ok = False
    for n in ast.walk(predict):
        if (isinstance(n, ast.Compare) and len(n.ops) == 1 and isinstance(n.ops[0], ast.GtE)
                and isinstance(n.left, ast.Name) and n.left.id == "positive_probs"
                and isinstance(n.comparators[0], ast.Call) and isinstance(n.comparators[0].func, ast.Attribute)
                and n.comparators[0].func.attr == "rand"):
            cmp_ok = True
    if not cmp_ok:
        raise translate.Untranslatable(f"{REL}: classification branch is not `positive_probs >= random_state.rand(...)`")
    content = (
        "/-\nGENERATED by harness/lifters/egpredict.py from " + REL + " — do not edit.\n"
        "`regressionDrawById` says whether `predict` hands `RandomState.choice` the weights re-ordered to the\n"
        "predictor ids of `pred`'s columns (true) or `weights_` as stored, i.e. positionally (false).\n"
        f"source expression: p={ast.unparse(p)}\n-/\n"
        "namespace EgPredict\n\n"
        f"def regressionDrawById : Bool := {'true' if by_id else 'false'}\n\n"
        "end EgPredict\n"
    )
    return "EgPredict.lean", content, {"p_expr": ast.unparse(p), "by_id": by_id, "source": os.path.join(repo, REL)}
