"""Lifter for C18: the shape of the bootstrap code, from the Python `ast` of the working tree.

Generates lean/FairModel/Generated/BootstrapSrc.lean from
  fairlearn/metrics/_bootstrap.py      generate_single_bootstrap_sample   the `DataFrame.sample(..)` call
                                       generate_bootstrap_samples         seed stream, loop count, seed of sample i
                                       _calc_series_quantiles / _calc_dataframe_quantiles / _align_sample_indices /
                                       calculate_pandas_quantiles         which numpy quantile, method, axis, q order,
                                                                          which row of the result is entry i, shape of entry i
  fairlearn/metrics/_metric_frame.py   MetricFrame.__init__               n_samples=n_boot, random_state=random_state
                                       _populate_results_ci / _group_ci   every *_ci accessor gets `ci_quantiles` unchanged

Refuses (`Untranslatable`) anything not of these shapes: any statement in generate_single_bootstrap_sample other than pure
asserts, the `data.sample(..)` binding, the `DisaggregatedResult.create(..)` binding and the final return (`_single_census`:
nothing may happen to the resampled frame between the two calls), a `create` argument that is not the parameter of the same
name, another resampling call than one `<frame>.sample(..)` with
literal keywords, a seed stream whose three branches disagree, a quantile call with positional extras or unknown
keywords, a result loop that is not `for i in range(result_np.shape[0])` building entry i from `result_np[i, ..]`, ..."""
import ast
import os
from fractions import Fraction

from .. import translate
from . import normalize
from ..translate import Untranslatable

BOOT = "fairlearn/metrics/_bootstrap.py"
MF = "fairlearn/metrics/_metric_frame.py"
METHODS = ("linear", "lower", "higher", "nearest", "midpoint")


def _parse(repo, rel):
    try:
        with open(os.path.join(repo, rel)) as f:
            return normalize.parse(f.read())
    except (OSError, SyntaxError) as e:
        raise Untranslatable(f"{rel}: {e}")


# locals of the anchored functions in order of first binding, in the source the matchers below were written against
# (normalize.canon_tree: new pure temporaries inlined into their only consumer, locals alpha-renamed to these names)
PINNED_BOOT = {
    "generate_single_bootstrap_sample": ["sampled_data", "result"],
    "generate_bootstrap_samples": ["generator", "rs", "result", "i", "nxt"],
    "_calc_series_quantiles": ["s", "result_np", "ve", "result", "i", "nxt"],
    "_calc_dataframe_quantiles": ["s", "result_np", "ve", "result", "i", "nxt"],
    "_align_sample_indices": ["sample", "all_indices", "x", "y", "outer_common_index"],
    "calculate_pandas_quantiles": ["result"],
}
PINNED_MF = {
    "MetricFrame.__init__": ["y_t", "y_p", "all_data", "annotated_funcs", "sf_list", "x", "cf_list", "name", "sf", "cf", "nameset",
                             "namelist", "result", "_ci", "_bootstrap_samples"],
    "MetricFrame._populate_results_ci": ["x", "result_overall", "result_group", "group_functions", "k", "v", "c_t", "c_m", "r",
                                         "raw_samples", "samples", "raw_result", "result"],
    "MetricFrame._group_ci": ["r", "samples", "raw_result", "x", "result"],
}


def _stores(fn, name):
    return [n for n in ast.walk(fn) if isinstance(n, ast.Name) and n.id == name and isinstance(n.ctx, (ast.Store, ast.Del))]


def _resolve(fn, node, depth=0):
    """a local `t` that the function binds exactly once, by a top-level `t = <side-effect free expression>` over names the
    function never rebinds, denotes that expression wherever it is read afterwards: `t` -> the expression"""
    if not isinstance(node, ast.Name) or depth > 4:
        return node
    args = {a.arg for a in normalize._all_args(fn)}
    defs = [s for s in fn.body if isinstance(s, ast.Assign) and len(s.targets) == 1 and isinstance(s.targets[0], ast.Name)
            and s.targets[0].id == node.id]
    if node.id in args or len(defs) != 1 or len(_stores(fn, node.id)) != 1 or not normalize.is_pure_expr(defs[0].value):
        return node
    if any(isinstance(n, ast.Name) and _stores(fn, n.id) for n in ast.walk(defs[0].value)):
        return node
    return _resolve(fn, defs[0].value, depth + 1)


def _bind(call, params, where):
    """arguments of `call` by parameter name (positional arguments bound against `params`)"""
    if len(call.args) > len(params) or any(isinstance(a, ast.Starred) for a in call.args):
        raise Untranslatable(f"{where}: cannot bind the arguments of `{ast.unparse(call)[:80]}`")
    out = dict(zip(params, call.args))
    for k in call.keywords:
        if k.arg is None or k.arg in out:
            raise Untranslatable(f"{where}: cannot bind the arguments of `{ast.unparse(call)[:80]}`")
        out[k.arg] = k.value
    return out


def _func(tree, name, rel=BOOT):
    for n in tree.body:
        if isinstance(n, ast.FunctionDef) and n.name == name:
            return n
    raise Untranslatable(f"{rel}: function {name} not found")


def _method(tree, cls, name):
    for n in tree.body:
        if isinstance(n, ast.ClassDef) and n.name == cls:
            for m in n.body:
                if isinstance(m, ast.FunctionDef) and m.name == name:
                    return m
    raise Untranslatable(f"{MF}: {cls}.{name} not found")


def _calls(node, pred):
    return [n for n in ast.walk(node) if isinstance(n, ast.Call) and pred(n)]


def _kw(call, where, allowed):
    out = {}
    for k in call.keywords:
        if k.arg is None:
            raise Untranslatable(f"{where}: **kwargs in `{ast.unparse(call)[:80]}`")
        if k.arg not in allowed:
            raise Untranslatable(f"{where}: keyword `{k.arg}` I do not understand in `{ast.unparse(call)[:80]}`")
        out[k.arg] = k.value
    return out


def _const(v, where, types):
    if isinstance(v, ast.Constant) and isinstance(v.value, types) and (bool in types or not isinstance(v.value, bool)):
        return v.value
    raise Untranslatable(f"{where}: not a literal: `{ast.unparse(v)}`")


def _params(fn):
    a = fn.args
    return [x.arg for x in a.posonlyargs + a.args + a.kwonlyargs]


def _single(tree):
    fn = _func(tree, "generate_single_bootstrap_sample")
    cs = _calls(fn, lambda c: isinstance(c.func, ast.Attribute) and c.func.attr == "sample")
    if len(cs) != 1:
        raise Untranslatable("generate_single_bootstrap_sample: expected exactly one `<frame>.sample(..)` call")
    c = cs[0]
    if ast.unparse(c.func.value) != "data" or "data" not in _params(fn):
        raise Untranslatable("generate_single_bootstrap_sample: the frame that is sampled is not the `data` parameter")
    if c.args:
        raise Untranslatable("generate_single_bootstrap_sample: positional arguments in data.sample(..)")
    kw = _kw(c, "data.sample", ("n", "frac", "replace", "random_state", "axis", "ignore_index", "weights"))
    if "weights" in kw and not (isinstance(kw["weights"], ast.Constant) and kw["weights"].value is None):
        raise Untranslatable("data.sample: weights= given")
    if "n" in kw and "frac" in kw:
        raise Untranslatable("data.sample: both n= and frac=")
    size = None
    if "frac" in kw:
        size = ("frac", Fraction(str(_const(kw["frac"], "data.sample frac", (int, float)))))
    elif "n" in kw:
        t = ast.unparse(kw["n"])
        # n = len(data) + k for a literal k
        if t in ("len(data)", "data.shape[0]"):
            size = ("len", 0)
        elif isinstance(kw["n"], ast.BinOp) and isinstance(kw["n"].op, (ast.Add, ast.Sub)) \
                and ast.unparse(kw["n"].left) in ("len(data)", "data.shape[0]"):
            k = _const(kw["n"].right, "data.sample n", (int,))
            size = ("len", k if isinstance(kw["n"].op, ast.Add) else -k)
        else:
            raise Untranslatable(f"data.sample: n= is not len(data) + literal: `{t}`")
    else:
        raise Untranslatable("data.sample: neither n= nor frac= (pandas would draw one row)")
    replace = _const(kw["replace"], "data.sample replace", (bool,)) if "replace" in kw else False
    axis = _const(kw["axis"], "data.sample axis", (int,)) if "axis" in kw else 0
    ign = _const(kw["ignore_index"], "data.sample ignore_index", (bool,)) if "ignore_index" in kw else False
    if "random_state" not in kw or ast.unparse(kw["random_state"]) != "random_state" or "random_state" not in _params(fn):
        raise Untranslatable("data.sample: random_state= is not the function's own `random_state` parameter")
    # the sampled frame must be what DisaggregatedResult.create gets (through one local name, or directly)
    cr = _calls(fn, lambda x: ast.unparse(x.func) == "DisaggregatedResult.create")
    if len(cr) != 1:
        raise Untranslatable("generate_single_bootstrap_sample: DisaggregatedResult.create(data=<the sample>) not found")
    dkw = [k.value for k in cr[0].keywords if k.arg == "data"]
    if len(dkw) == 1 and dkw[0] is c:
        pass
    else:
        tgt = [s for s in fn.body if isinstance(s, ast.Assign) and s.value is c]
        if len(tgt) != 1 or len(tgt[0].targets) != 1 or not isinstance(tgt[0].targets[0], ast.Name):
            raise Untranslatable("generate_single_bootstrap_sample: the sample is not bound to one local name")
        nm = tgt[0].targets[0].id
        if len(dkw) != 1 or ast.unparse(dkw[0]) != nm or len(_stores(fn, nm)) != 1:
            raise Untranslatable("generate_single_bootstrap_sample: DisaggregatedResult.create(data=<the sample>) not found")
    # ... and its result is what the function returns
    rets = [s for s in ast.walk(fn) if isinstance(s, ast.Return)]
    if len(rets) != 1 or rets[0] is not fn.body[-1]:
        raise Untranslatable("generate_single_bootstrap_sample: expected one final return")
    rv = rets[0].value
    if rv is not cr[0]:
        rb = [s for s in fn.body if isinstance(s, ast.Assign) and s.value is cr[0] and len(s.targets) == 1
              and isinstance(s.targets[0], ast.Name)]
        if len(rb) != 1 or not isinstance(rv, ast.Name) or rv.id != rb[0].targets[0].id or len(_stores(fn, rv.id)) != 1:
            raise Untranslatable("generate_single_bootstrap_sample: the DisaggregatedResult created is not what is returned")
    _single_census(fn, c, cr[0])
    return size, replace, axis, ign


def _single_census(fn, sample_call, create_call):
    """Statement census of the WHOLE body of generate_single_bootstrap_sample (after normalisation).  Accepted, at top level only:
    side-effect free `assert`s, the statement that holds the `data.sample(..)` call, the statement that holds the
    `DisaggregatedResult.create(..)` call (the same statement when the sample is passed inline) and the final `return`.
    Anything between / around them -- `sampled_data.drop_duplicates(inplace=True)`, `sampled_data["y_pred"] = ..`,
    `sampled_data.sort_values(.., inplace=True)`, a loop, a branch, a `with`, a `try` -- is refused: it would change what is
    resampled without changing any lifted expression.  The other arguments of `create` must be the function's own parameters
    of the same name (no positional arguments: `create` is keyword-only), `data` / `random_state` must not be rebound, and
    the `data.sample(..)` call must be the entire value of its statement / argument (no method chained on it)."""
    where = "generate_single_bootstrap_sample"
    params = _params(fn)
    holders = {}
    for st in fn.body:
        inside = list(ast.walk(st))
        has_s = any(n is sample_call for n in inside)
        has_c = any(n is create_call for n in inside)
        if isinstance(st, ast.Assert):
            if has_s or has_c or not normalize.is_pure_expr(st.test) or (st.msg is not None and not normalize.is_pure_expr(st.msg)):
                raise Untranslatable(f"{where}: assert with side effects at line {st.lineno}")
            continue
        if has_s or has_c:
            if has_s:
                holders["sample"] = st
            if has_c:
                holders["create"] = st
            if isinstance(st, ast.Return) and st is fn.body[-1]:
                continue
            if not (isinstance(st, ast.Assign) and len(st.targets) == 1 and isinstance(st.targets[0], ast.Name)
                    and (st.value is sample_call or st.value is create_call)):
                raise Untranslatable(f"{where}: line {st.lineno}: the sample / the DisaggregatedResult is not bound by a plain "
                                     f"`name = <call>`: `{ast.unparse(st)[:80]}`")
            continue
        if isinstance(st, ast.Return) and st is fn.body[-1]:
            continue
        raise Untranslatable(f"{where}: statement I do not understand at line {st.lineno} (between data.sample and "
                             f"DisaggregatedResult.create nothing may happen): `{ast.unparse(st)[:80]}`")
    if "sample" not in holders or "create" not in holders:
        raise Untranslatable(f"{where}: data.sample / DisaggregatedResult.create are not top-level statements")
    if fn.body.index(holders["sample"]) > fn.body.index(holders["create"]):
        raise Untranslatable(f"{where}: DisaggregatedResult.create comes before data.sample")
    # the sample call is the whole right-hand side / the whole `data=` argument (checked by the caller for the inline form)
    if holders["sample"] is not holders["create"] and holders["sample"].value is not sample_call:
        raise Untranslatable(f"{where}: something is applied to the result of data.sample(..)")
    if create_call.args:
        raise Untranslatable(f"{where}: positional arguments in DisaggregatedResult.create(..)")
    seen = set()
    for k in create_call.keywords:
        if k.arg is None:
            raise Untranslatable(f"{where}: **kwargs in DisaggregatedResult.create(..)")
        seen.add(k.arg)
        if k.arg == "data":
            continue
        if k.arg not in ("annotated_functions", "sensitive_feature_names", "control_feature_names"):
            raise Untranslatable(f"{where}: keyword `{k.arg}` of DisaggregatedResult.create I do not understand")
        if not (isinstance(k.value, ast.Name) and k.value.id == k.arg and k.arg in params):
            raise Untranslatable(f"{where}: DisaggregatedResult.create({k.arg}=..) is not the function's own `{k.arg}` parameter: "
                                 f"`{ast.unparse(k.value)[:60]}`")
    for need in ("data", "annotated_functions", "sensitive_feature_names", "control_feature_names"):
        if need not in seen:
            raise Untranslatable(f"{where}: DisaggregatedResult.create(..) is not given `{need}`")
    for p in params:
        if _stores(fn, p):
            raise Untranslatable(f"{where}: parameter `{p}` is rebound")
    for n in ast.walk(fn):
        if isinstance(n, (ast.Yield, ast.YieldFrom, ast.Global, ast.Nonlocal, ast.NamedExpr)):
            raise Untranslatable(f"{where}: {type(n).__name__}")


def _stream(tree):
    fn = _func(tree, "generate_bootstrap_samples")
    ps = _params(fn)
    for need in ("n_samples", "random_state", "data"):
        if need not in ps:
            raise Untranslatable(f"generate_bootstrap_samples: parameter {need} missing")
    # the three branches that define `rs`
    assigns = [n for n in ast.walk(fn) if isinstance(n, ast.Assign) and len(n.targets) == 1
               and isinstance(n.targets[0], ast.Name) and n.targets[0].id == "rs"]
    if not assigns:
        raise Untranslatable("generate_bootstrap_samples: no seed stream `rs = ..`")
    shapes = set()
    for a in assigns:
        c = a.value
        if not (isinstance(c, ast.Call) and isinstance(c.func, ast.Attribute) and c.func.attr in ("integers", "randint")) or c.args:
            raise Untranslatable(f"generate_bootstrap_samples: seed stream is not <gen>.integers(..)/randint(..): `{ast.unparse(c)[:80]}`")
        kw = _kw(c, "seed stream", ("low", "high", "size", "dtype"))
        shapes.add(tuple(sorted((k, ast.unparse(_resolve(fn, v))) for k, v in kw.items())))
    if len(shapes) != 1:
        raise Untranslatable("generate_bootstrap_samples: the branches draw differently shaped seed streams")
    shape = dict(next(iter(shapes)))
    if shape.get("low") != "0" or shape.get("high") != "np.iinfo(np.uint32).max" or shape.get("dtype") != "np.uint32":
        raise Untranslatable(f"generate_bootstrap_samples: seed stream range/dtype changed: {shape}")
    size_is_n = shape.get("size") == "n_samples"
    if not size_is_n and shape.get("size") is None:
        raise Untranslatable("generate_bootstrap_samples: seed stream without size=")
    # integer branch: default_rng(seed=random_state)
    int_ok = False
    rngs = ("np.random.default_rng(seed=random_state)", "np.random.default_rng(random_state)")
    for s in ast.walk(fn):
        if isinstance(s, ast.If) and ast.unparse(s.test) == "isinstance(random_state, int)":
            txt = [ast.unparse(x) for x in s.body]
            mine = [a for a in assigns if any(a is x for x in s.body)]
            if len(txt) == 2 and txt[0] in tuple("generator = " + r for r in rngs) and len(mine) == 1 and mine[0] is s.body[1] \
                    and ast.unparse(mine[0].value.func.value) == "generator":
                int_ok = True
            # the generator used on the spot: `rs = np.random.default_rng(seed=random_state).integers(..)`
            if len(txt) == 1 and len(mine) == 1 and ast.unparse(mine[0].value.func.value) in rngs:
                int_ok = True
    if not int_ok:
        raise Untranslatable("generate_bootstrap_samples: integer seeds no longer go through np.random.default_rng(seed=random_state)")
    # the loop
    loops = [s for s in fn.body if isinstance(s, ast.For)]
    if len(loops) != 1:
        raise Untranslatable("generate_bootstrap_samples: expected one top-level for loop")
    lp = loops[0]
    if not isinstance(lp.target, ast.Name) or not (isinstance(lp.iter, ast.Call) and ast.unparse(lp.iter.func) == "range" and len(lp.iter.args) == 1):
        raise Untranslatable("generate_bootstrap_samples: loop is not `for i in range(<count>)`")
    i = lp.target.id
    count = ast.unparse(lp.iter.args[0])
    if count == "n_samples":
        loop_off = 0
    elif isinstance(lp.iter.args[0], ast.BinOp) and ast.unparse(lp.iter.args[0].left) == "n_samples" \
            and isinstance(lp.iter.args[0].op, (ast.Add, ast.Sub)) and isinstance(lp.iter.args[0].right, ast.Constant):
        loop_off = lp.iter.args[0].right.value * (1 if isinstance(lp.iter.args[0].op, ast.Add) else -1)
    else:
        raise Untranslatable(f"generate_bootstrap_samples: loop count `{count}` is not n_samples (+ literal)")
    cs = _calls(lp, lambda c: ast.unparse(c.func) == "generate_single_bootstrap_sample")
    if len(cs) != 1 or cs[0].args:
        raise Untranslatable("generate_bootstrap_samples: the loop does not call generate_single_bootstrap_sample(keywords..) once")
    kw = {k.arg: k.value for k in cs[0].keywords}
    if ast.unparse(kw.get("data", ast.Constant(None))) != "data":
        raise Untranslatable("generate_bootstrap_samples: the samples are not drawn from `data`")
    rsv = kw.get("random_state")
    if rsv is None:
        raise Untranslatable("generate_bootstrap_samples: no random_state= for the single sample")
    t = ast.unparse(rsv)
    if t == f"rs[{i}]":
        seed = "perSample"
    elif isinstance(rsv, ast.Subscript) and ast.unparse(rsv.value) == "rs" and isinstance(rsv.slice, ast.Constant) \
            and isinstance(rsv.slice.value, int) and rsv.slice.value >= 0:
        seed = f"fixed {rsv.slice.value}"
    elif t == "random_state":
        seed = "userSeed"
    else:
        raise Untranslatable(f"generate_bootstrap_samples: seed of sample i is `{t}`")
    # every sample is appended, the list is returned
    app = _calls(lp, lambda c: ast.unparse(c.func) == "result.append")
    ret = [s for s in fn.body if isinstance(s, ast.Return)]
    if len(app) != 1 or len(ret) != 1 or ast.unparse(ret[0].value) != "result":
        raise Untranslatable("generate_bootstrap_samples: samples are not collected by result.append / return result")
    inits = [ast.unparse(s) for s in ast.walk(fn) if isinstance(s, (ast.Assign, ast.AugAssign)) and "result" in
             [ast.unparse(t) for t in (s.targets if isinstance(s, ast.Assign) else [s.target])]]
    if inits != ["result = []"] or len(_stores(fn, "result")) != 1:
        raise Untranslatable("generate_bootstrap_samples: `result` is not one list initialised by `result = []`")
    if len(app[0].args) != 1 or app[0].keywords:
        raise Untranslatable("generate_bootstrap_samples: result.append(..) of unknown shape")
    if app[0].args[0] is not cs[0]:
        bound = [s for s in lp.body if isinstance(s, ast.Assign) and s.value is cs[0] and len(s.targets) == 1
                 and isinstance(s.targets[0], ast.Name)]
        if len(bound) != 1 or ast.unparse(app[0].args[0]) != bound[0].targets[0].id or len(_stores(fn, bound[0].targets[0].id)) != 1:
            raise Untranslatable("generate_bootstrap_samples: the sample drawn is not the sample appended")
    _stream_census(fn, lp, cs[0], app[0])
    return size_is_n, loop_off, seed


def _stream_census(fn, lp, call, app):
    """Statement census of generate_bootstrap_samples.  Top level: pure asserts, the if-chain that defines `rs`, plain
    `name = <pure expression>` bindings of locals, the loop, the return.  Loop body: the binding of the single sample and the
    `result.append(..)` only.  No parameter is rebound, and every argument of generate_single_bootstrap_sample other than the
    seed is the parameter of the same name -- so nothing can be done to `data` (or to a sample) that the lifted expressions do
    not show: `data.drop_duplicates(inplace=True)`, `data = data.head(10)`, `nxt.by_group[:] = 0` are refused."""
    where = "generate_bootstrap_samples"
    params = _params(fn)

    def pure_binding(st):
        return (isinstance(st, ast.Assign) and len(st.targets) == 1 and isinstance(st.targets[0], ast.Name)
                and st.targets[0].id not in params and normalize.is_pure_expr(st.value))

    def rs_chain(st):
        """if / elif / else whose branches only bind locals by calls on the generator / raise"""
        while True:
            if not isinstance(st, ast.If) or not normalize.is_pure_expr(st.test):
                return False
            for b in st.body:
                if not (isinstance(b, ast.Raise) or (isinstance(b, ast.Assign) and len(b.targets) == 1
                                                     and isinstance(b.targets[0], ast.Name) and b.targets[0].id not in params)):
                    return False
            if not st.orelse:
                return True
            if len(st.orelse) == 1 and isinstance(st.orelse[0], ast.If):
                st = st.orelse[0]
                continue
            return all(isinstance(b, ast.Raise) or (isinstance(b, ast.Assign) and len(b.targets) == 1
                                                    and isinstance(b.targets[0], ast.Name) and b.targets[0].id not in params)
                       for b in st.orelse)

    for st in fn.body:
        if isinstance(st, ast.Assert):
            if not normalize.is_pure_expr(st.test):
                raise Untranslatable(f"{where}: assert with side effects at line {st.lineno}")
            continue
        if st is lp or (isinstance(st, ast.Return) and st is fn.body[-1]) or pure_binding(st) or rs_chain(st):
            continue
        raise Untranslatable(f"{where}: statement I do not understand at line {st.lineno}: `{ast.unparse(st)[:80]}`")
    if lp.orelse:
        raise Untranslatable(f"{where}: for .. else")
    for st in lp.body:
        inside = list(ast.walk(st))
        if any(n is call for n in inside) or any(n is app for n in inside):
            if isinstance(st, ast.Expr) and st.value is app:
                continue
            if isinstance(st, ast.Assign) and st.value is call and len(st.targets) == 1 and isinstance(st.targets[0], ast.Name):
                continue
        raise Untranslatable(f"{where}: loop statement I do not understand at line {st.lineno}: `{ast.unparse(st)[:80]}`")
    for k in call.keywords:
        if k.arg is None:
            raise Untranslatable(f"{where}: **kwargs in generate_single_bootstrap_sample(..)")
        if k.arg == "random_state":
            continue
        if k.arg not in ("data", "annotated_functions", "sensitive_feature_names", "control_feature_names"):
            raise Untranslatable(f"{where}: keyword `{k.arg}` of generate_single_bootstrap_sample I do not understand")
        if not (isinstance(k.value, ast.Name) and k.value.id == k.arg and k.arg in params):
            raise Untranslatable(f"{where}: generate_single_bootstrap_sample({k.arg}=..) is not the function's own `{k.arg}` "
                                 f"parameter: `{ast.unparse(k.value)[:60]}`")
    given = {k.arg for k in call.keywords}
    for need in ("data", "annotated_functions", "sensitive_feature_names", "control_feature_names"):
        if need not in given:
            raise Untranslatable(f"{where}: generate_single_bootstrap_sample(..) is not given `{need}`")
    for p_ in params:
        if _stores(fn, p_):
            raise Untranslatable(f"{where}: parameter `{p_}` is rebound")


def _quantile_fn(tree, name, frame):
    fn = _func(tree, name)
    ps = _params(fn)
    if "quantiles" not in ps or "samples" not in ps:
        raise Untranslatable(f"{name}: parameters quantiles / samples missing")
    cs = _calls(fn, lambda c: ast.unparse(c.func) in ("np.quantile", "np.nanquantile", "np.percentile", "np.nanpercentile"))
    if len(cs) != 1:
        raise Untranslatable(f"{name}: expected exactly one np.(nan)quantile call")
    c = cs[0]
    f = ast.unparse(c.func)
    if "percentile" in f:
        raise Untranslatable(f"{name}: percentile instead of quantile")
    if len(c.args) not in (1, 2) or ast.unparse(c.args[0]) != "samples" or any(isinstance(a, ast.Starred) for a in c.args):
        raise Untranslatable(f"{name}: the first argument of {f} is not `samples`")
    kw = _kw(c, f, ("q", "axis", "method", "interpolation"))
    if len(c.args) == 2:        # np.quantile(a, q, ..): the second positional argument is q
        if "q" in kw:
            raise Untranslatable(f"{name}: q given twice")
        kw["q"] = c.args[1]
    if "q" not in kw:
        raise Untranslatable(f"{name}: no q=")
    qt = ast.unparse(kw["q"])
    order = {"quantiles": "asGiven", "sorted(quantiles)": "sorted", "np.sort(quantiles)": "sorted",
             "quantiles[::-1]": "reversed", "list(reversed(quantiles))": "reversed"}.get(qt)
    if order is None:
        raise Untranslatable(f"{name}: q= is `{qt}`")
    axis = _const(kw["axis"], f"{f} axis", (int,)) if "axis" in kw else None
    if axis is None:
        raise Untranslatable(f"{name}: {f} without axis= flattens the samples")
    mkw = kw.get("method", kw.get("interpolation"))
    method = _const(mkw, f"{f} method", (str,)) if mkw is not None else "linear"
    if method not in METHODS:
        raise Untranslatable(f"{name}: quantile method {method!r} is not one of {METHODS}")
    # `samples` must not be rebound between the parameter and the call except by the alignment
    rebinds = [ast.unparse(s) for s in fn.body if isinstance(s, ast.Assign) and any(ast.unparse(t) == "samples" for t in s.targets)]
    aligned = rebinds == ["samples = _align_sample_indices(samples)"]
    if rebinds and not aligned:
        raise Untranslatable(f"{name}: `samples` is rebound: {rebinds}")
    # result loop
    tgt = [s for s in ast.walk(fn) if isinstance(s, ast.Assign) and s.value is c]
    if len(tgt) != 1 or ast.unparse(tgt[0].targets[0]) != "result_np":
        raise Untranslatable(f"{name}: the quantiles are not bound to result_np")
    loops = [s for s in fn.body if isinstance(s, ast.For)]
    res_loops = [lp for lp in loops if _calls(lp, lambda x: ast.unparse(x.func) == "result.append")]
    if len(res_loops) != 1:
        raise Untranslatable(f"{name}: expected one loop appending to result")
    lp = res_loops[0]
    if ast.unparse(lp.iter) != "range(result_np.shape[0])" or not isinstance(lp.target, ast.Name):
        raise Untranslatable(f"{name}: result loop is not `for i in range(result_np.shape[0])`")
    i = lp.target.id
    ctor = "pd.DataFrame" if frame else "pd.Series"
    mk = _calls(lp, lambda x: ast.unparse(x.func) == ctor)
    if len(mk) != 1 or mk[0].args:
        raise Untranslatable(f"{name}: entry i is not built by one {ctor}(keywords..)")
    kk = {k.arg: ast.unparse(k.value) for k in mk[0].keywords}
    want_data = f"result_np[{i}, :, :]" if frame else f"result_np[{i}, :]"
    if kk.get("data") != want_data:
        raise Untranslatable(f"{name}: entry i takes its data from `{kk.get('data')}`, not {want_data}")
    shape_ok = kk.get("index") == "samples[0].index" and (
        kk.get("columns") == "samples[0].columns" if frame else kk.get("name") == "samples[0].name")
    if set(kk) != ({"data", "index", "columns"} if frame else {"data", "index", "name"}):
        raise Untranslatable(f"{name}: {ctor} keywords changed: {sorted(kk)}")
    ap = _calls(lp, lambda x: ast.unparse(x.func) == "result.append")
    bound = [s for s in lp.body if isinstance(s, ast.Assign) and s.value is mk[0]]
    if len(ap) != 1 or len(ap[0].args) != 1 or ap[0].keywords:
        raise Untranslatable(f"{name}: the entry built is not the entry appended")
    if ap[0].args[0] is not mk[0] and (len(bound) != 1 or ast.unparse(ap[0].args[0]) != ast.unparse(bound[0].targets[0])):
        raise Untranslatable(f"{name}: the entry built is not the entry appended")
    ret = [s for s in fn.body if isinstance(s, ast.Return)]
    if len(ret) != 1 or ast.unparse(ret[0].value) != "result":
        raise Untranslatable(f"{name}: does not `return result`")
    return dict(skips=(f == "np.nanquantile"), method=method, axis=axis, order=order, aligned=aligned, shape=shape_ok)


def _align(tree):
    """`_align_sample_indices(samples)` returns `[sample.reindex(U) for sample in samples]` with
    U = reduce(lambda x, y: x.union(y), [sample.index for sample in samples])  (temporaries resolved)"""
    fn = _func(tree, "_align_sample_indices")
    if _params(fn) != ["samples"]:
        return False
    rets = [s for s in ast.walk(fn) if isinstance(s, ast.Return)]
    if len(rets) != 1 or rets[0] is not fn.body[-1] or any(not isinstance(s, (ast.Assign, ast.Return)) for s in fn.body):
        return False
    # straight-line code: substitute the (side-effect free) definitions top-down
    env = {}
    for st in fn.body[:-1]:
        if len(st.targets) != 1 or not isinstance(st.targets[0], ast.Name) or not normalize.is_pure_expr(
                st.value, extra_funcs=("reduce",), extra_methods=("union", "reindex")):
            return False
        env[st.targets[0].id] = normalize._Subst(dict(env)).visit(normalize.copy.deepcopy(st.value))
    inner = {a.arg for n in ast.walk(fn) if isinstance(n, ast.Lambda) for a in normalize._all_args(n)} | \
        {m.id for n in ast.walk(fn) if isinstance(n, ast.comprehension) for m in ast.walk(n.target) if isinstance(m, ast.Name)}
    if inner & set(env):
        return False
    out = normalize._Subst(dict(env)).visit(normalize.copy.deepcopy(rets[0].value))
    want = "[sample.reindex(reduce(lambda x, y: x.union(y), [sample.index for sample in samples])) for sample in samples]"
    return ast.unparse(out) == want


def _dispatch(tree):
    fn = _func(tree, "calculate_pandas_quantiles")
    ps = _params(fn)
    if ps[:2] != ["quantiles", "bootstrap_samples"]:
        raise Untranslatable("calculate_pandas_quantiles: parameters changed")
    ifs = [s for s in fn.body if isinstance(s, ast.If)]
    if len(ifs) != 1:
        raise Untranslatable("calculate_pandas_quantiles: expected one if/elif dispatch")
    s = ifs[0]

    def test_of(node):
        t = node.test
        if isinstance(t, ast.Call) and ast.unparse(t.func) == "isinstance" and len(t.args) == 2 and not t.keywords:
            return f"isinstance({ast.unparse(_resolve(fn, t.args[0]))}, {ast.unparse(t.args[1])})"
        return ast.unparse(t)

    def branch(body):
        """`result = <call>` (returned at the end) or `return <call>` -> the call's text, and which of the two"""
        if len(body) == 1 and isinstance(body[0], ast.Assign) and len(body[0].targets) == 1 and isinstance(body[0].targets[0], ast.Name):
            return ast.unparse(body[0].value), "assign:" + body[0].targets[0].id
        if len(body) == 1 and isinstance(body[0], ast.Return) and body[0].value is not None:
            return ast.unparse(body[0].value), "return"
        return None, None
    ok = test_of(s) == "isinstance(bootstrap_samples[0], pd.Series)" and len(s.orelse) == 1 and isinstance(s.orelse[0], ast.If) \
        and test_of(s.orelse[0]) == "isinstance(bootstrap_samples[0], pd.DataFrame)"
    if ok:
        (c1, k1), (c2, k2) = branch(s.body), branch(s.orelse[0].body)
        ok = c1 == "_calc_series_quantiles(quantiles=quantiles, samples=bootstrap_samples)" and \
            c2 == "_calc_dataframe_quantiles(quantiles=quantiles, samples=bootstrap_samples)" and k1 == k2
    if not ok:
        raise Untranslatable("calculate_pandas_quantiles: dispatch on Series / DataFrame changed")
    if any(_stores(fn, p) for p in ps[:2]):
        raise Untranslatable("calculate_pandas_quantiles: a parameter is rebound")
    ret = [x for x in fn.body if isinstance(x, ast.Return)]
    if k1 == "return":
        # both branches return; whatever follows the dispatch only runs for other types (today: `assert False`)
        if ret and any(not (isinstance(x.value, ast.Constant) or x.value is None) for x in ret):
            raise Untranslatable("calculate_pandas_quantiles: a further return after the dispatch")
        return
    res = k1.split(":", 1)[1]
    if len(ret) != 1 or ast.unparse(ret[0].value) != res or ret[0] is not fn.body[-1] or len(_stores(fn, res)) != 2:
        raise Untranslatable("calculate_pandas_quantiles: does not return result")


def _metric_frame(tree):
    init = _method(tree, "MetricFrame", "__init__")
    cs = _calls(init, lambda c: ast.unparse(c.func) == "generate_bootstrap_samples")
    if len(cs) != 1 or cs[0].args:
        raise Untranslatable("MetricFrame.__init__: expected one generate_bootstrap_samples(keywords..) call")
    kw = {k.arg: ast.unparse(k.value) for k in cs[0].keywords}
    n_is_nboot = kw.get("n_samples") == "n_boot"
    rs_passed = kw.get("random_state") == "random_state"
    if kw.get("data") != "all_data":
        raise Untranslatable("MetricFrame.__init__: the bootstrap does not resample `all_data`")
    pc = _calls(init, lambda c: ast.unparse(c.func) == "self._populate_results_ci")
    pparams = [x for x in _params(_method(tree, "MetricFrame", "_populate_results_ci")) if x != "self"]
    if len(pc) != 1 or pparams[:2] != ["bootstrap_samples", "ci_quantiles"]:
        raise Untranslatable("MetricFrame.__init__: self._populate_results_ci(_bootstrap_samples, ci_quantiles) not found")
    pb = _bind(pc[0], pparams, "MetricFrame.__init__")
    got = pb.get("bootstrap_samples")
    if got is not cs[0]:
        # ... through the one local name the samples are bound to
        tgt = [s for s in ast.walk(init) if isinstance(s, ast.Assign) and s.value is cs[0] and len(s.targets) == 1
               and isinstance(s.targets[0], ast.Name)]
        if len(tgt) != 1 or not isinstance(got, ast.Name) or got.id != tgt[0].targets[0].id or len(_stores(init, got.id)) != 1:
            raise Untranslatable("MetricFrame.__init__: self._populate_results_ci(_bootstrap_samples, ci_quantiles) not found")
    if set(pb) != {"bootstrap_samples", "ci_quantiles"} or ast.unparse(pb["ci_quantiles"]) != "ci_quantiles" \
            or "ci_quantiles" not in _params(init) or _stores(init, "ci_quantiles"):
        raise Untranslatable("MetricFrame.__init__: self._populate_results_ci(_bootstrap_samples, ci_quantiles) not found")
    # every calculate_pandas_quantiles call gets `ci_quantiles` itself
    qargs = []
    for mname in ("_populate_results_ci", "_group_ci"):
        m = _method(tree, "MetricFrame", mname)
        if "ci_quantiles" not in _params(m):
            raise Untranslatable(f"MetricFrame.{mname}: parameter ci_quantiles missing")
        rebound = [n for n in ast.walk(m) if isinstance(n, ast.Name) and n.id == "ci_quantiles" and isinstance(n.ctx, ast.Store)]
        if rebound:
            raise Untranslatable(f"MetricFrame.{mname}: ci_quantiles is rebound")
        for c in _calls(m, lambda c: ast.unparse(c.func) == "calculate_pandas_quantiles"):
            q = c.args[0] if c.args else next((k.value for k in c.keywords if k.arg == "quantiles"), None)
            if q is None:
                raise Untranslatable(f"MetricFrame.{mname}: calculate_pandas_quantiles without quantiles")
            qargs.append(ast.unparse(q))
        gparams = [x for x in _params(_method(tree, "MetricFrame", "_group_ci")) if x != "self"]
        for c in _calls(m, lambda c: ast.unparse(c.func) == "self._group_ci"):
            k = {a: ast.unparse(v) for a, v in _bind(c, gparams, f"MetricFrame.{mname}").items()}
            qargs.append(k.get("ci_quantiles", "?"))
    if len(qargs) < 5:
        raise Untranslatable(f"MetricFrame: only {len(qargs)} quantile call sites found")
    # accessors filled
    m = _method(tree, "MetricFrame", "_populate_results_ci")
    keys = set()
    for n in ast.walk(m):
        if isinstance(n, ast.Subscript) and ast.unparse(n.value) == "self._result_cache" and isinstance(n.ctx, ast.Store):
            if isinstance(n.slice, ast.Constant):
                keys.add(n.slice.value)
            else:
                keys.add("<" + ast.unparse(n.slice) + ">")
    for n in ast.walk(m):
        if isinstance(n, ast.Dict) and all(isinstance(k, ast.Constant) for k in n.keys):
            keys.update(k.value for k in n.keys if str(k.value).endswith("_ci"))
        if isinstance(n, ast.List) and all(isinstance(e, ast.Constant) for e in n.elts):
            keys.update(e.value for e in n.elts if str(e.value).endswith("_ci"))
    keys = sorted(k for k in keys if not k.startswith("<"))
    return n_is_nboot, rs_passed, qargs, keys


def lrat(q):
    return f"({q.numerator} : Rat)" if q.denominator == 1 else f"(({q.numerator} : Rat) / {q.denominator})"


@translate.lifter
def bootstrap_src(repo):
    bt = normalize.canon_tree(_parse(repo, BOOT), PINNED_BOOT, extra_funcs=("reduce",), extra_methods=("union", "reindex"))
    mf = normalize.canon_tree(_parse(repo, MF), PINNED_MF)
    size, replace, axis, ign = _single(bt)
    size_is_n, loop_off, seed = _stream(bt)
    ser = _quantile_fn(bt, "_calc_series_quantiles", False)
    frm = _quantile_fn(bt, "_calc_dataframe_quantiles", True)
    if ser["aligned"]:
        raise Untranslatable("_calc_series_quantiles aligns indices")
    union = _align(bt)
    _dispatch(bt)
    n_is_nboot, rs_passed, qargs, keys = _metric_frame(mf)
    b = lambda x: "true" if x else "false"  # noqa: E731
    if size[0] == "frac":
        draw = f".frac {lrat(size[1])}"
    else:
        draw = f".lenPlus ({size[1]})"
    src = f"""/- GENERATED by harness/lifters/bootstrap.py from the fairlearn working tree. Do not edit. -/
namespace Generated.BootstrapSrc

/-- how many rows `data.sample(..)` draws: `frac=` of the n rows, or `n=len(data)+k` -/
inductive DrawSize where
  | frac (f : Rat)
  | lenPlus (k : Int)
deriving DecidableEq, Repr

inductive SeedRule where
  | perSample          -- sample i is seeded with rs[i]
  | fixed (k : Nat)    -- every sample is seeded with rs[k]
  | userSeed           -- every sample is seeded with the user's random_state
deriving DecidableEq, Repr

inductive QMethod where
  | linear | lower | higher | nearest | midpoint
deriving DecidableEq, Repr

inductive QOrder where
  | asGiven | sorted | reversed
deriving DecidableEq, Repr

/-! `generate_single_bootstrap_sample`: `data.sample(..)` -/
def drawSize : DrawSize := {draw}
def sampleReplace : Bool := {b(replace)}
def sampleAxis : Int := {axis}
def sampleIgnoreIndex : Bool := {b(ign)}

/-! `generate_bootstrap_samples` -/
/-- the seed stream has `size=n_samples` entries (uint32, `default_rng(seed=random_state).integers`) -/
def seedStreamSizeIsNSamples : Bool := {b(size_is_n)}
/-- the loop runs `n_samples + loopCountOffset` times -/
def loopCountOffset : Int := {loop_off}
def seedRule : SeedRule := .{seed}

/-! `_calc_series_quantiles` (np.quantile) / `_calc_dataframe_quantiles` (np.nanquantile) -/
def seriesSkipsNaN : Bool := {b(ser['skips'])}
def frameSkipsNaN : Bool := {b(frm['skips'])}
def seriesMethod : QMethod := .{ser['method']}
def frameMethod : QMethod := .{frm['method']}
def seriesAxis : Int := {ser['axis']}
def frameAxis : Int := {frm['axis']}
def seriesQOrder : QOrder := .{ser['order']}
def frameQOrder : QOrder := .{frm['order']}
/-- entry i is built from row i of the quantile array with name/columns and index of the first sample -/
def seriesShapeFromFirstSample : Bool := {b(ser['shape'])}
def frameShapeFromFirstSample : Bool := {b(frm['shape'])}
/-- the DataFrame samples are first reindexed to the union of their indices (NaN filling) -/
def frameAligned : Bool := {b(frm['aligned'] and union)}

/-! `MetricFrame.__init__` / `_populate_results_ci` / `_group_ci` -/
def nSamplesIsNBoot : Bool := {b(n_is_nboot)}
def randomStatePassed : Bool := {b(rs_passed)}
/-- the quantile argument at every `calculate_pandas_quantiles` / `_group_ci` call site -/
def quantileArgs : List String := [{", ".join('"' + q + '"' for q in qargs)}]
/-- the `*_ci` cache entries filled -/
def ciAccessors : List String := [{", ".join('"' + k + '"' for k in keys)}]

end Generated.BootstrapSrc
"""
    meta = {"draw": draw, "replace": replace, "seed": seed, "loop_offset": loop_off, "series": ser, "frame": frm,
            "union_align": union, "quantile_args": qargs, "accessors": keys}
    return "BootstrapSrc.lean", src, meta
