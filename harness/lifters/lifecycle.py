"""Lifter for C19: the life-cycle facts of every estimator class, derived from the Python `ast` of the working tree.

Generates lean/FairModel/Generated/LifecycleSrc.lean.  Per estimator class (ThresholdOptimizer, ExponentiatedGradient,
GridSearch, CorrelationRemover, _AdversarialFairness, AdversarialFairnessClassifier/Regressor, and the helper class
_Lagrangian that ExponentiatedGradient.fit hands its parameters to):

  ctorParams        names of the `__init__` signature (= what `get_params` reports)
  fitAssigned       `self.<name>` rebinding targets (assignment, augmented assignment, for/with targets, `del`,
                    `setattr(self, "<name>", ..)`) in `fit` / `partial_fit` and every method of the same class (incl. bases
                    defined in the same module) they reach through `self.<method>` — calls into other classes are not followed
  fitMutated        `self.<name>[..] = ..` / `self.<name>.<attr> = ..` stores (in-place change of the object behind the name)
  predictMethods    which of predict, predict_proba, decision_function, _pmf_predict, transform, _raw_predict exist
  predictAssigned   the same two sets (united) for the closure of the prediction methods
  fitReturns        the distinct `return` expressions of fit / partial_fit, plus "<end>" if the body can fall off its end
  fitSelfEscapes / predictSelfEscapes   callees that receive the bare `self` as an argument (code outside the class that can
                    reach the estimator); any other bare use of `self` (aliasing) is refused
  fitReceivers      for every `<r>.fit(..)` / `<r>.partial_fit(..)` call: where `<r>` was last bound on every path
                    (clone / ctor:<Class> / alias:<expr> / unknown)
  fitHistoryReads   flow-sensitive: fitted attributes (not constructor parameters) that `fit` may READ (`self.<n>`,
                    `hasattr(self, "<n>")`, `getattr(self, "<n>", ..)`) before it has definitely (re)assigned them in this call
  fitDefinitelyAssigned / predictReads   fitted attributes `fit` has reassigned on EVERY normally returning path / that the
                    prediction entry points read (predictReads within fitDefinitelyAssigned + no history reads = every fit
                    overwrites all fitted state a prediction can see)
  initDerivedReads  attributes read by fit / the prediction entry points that are neither parameters nor ever assigned
                    outside `__init__`;  initDerivedDeps: the constructor parameters each `__init__`-only attribute depends on
plus
  momentLatch       some `load_data` in fairlearn/reductions/_moments asserts / raises on `data_loaded`
  constraintsInPlace / constraintsCopied   how EG (via _Lagrangian) and GridSearch treat the object behind `constraints`
  advReinit, advSetupCond, advKeepEngine   the three closed boolean rules that decide whether an adversarial fit builds new
                    networks (`reinitialize = ..` in fit, the guard of `self.__setup(..)` in _validate_input,
                    the keep-the-old-models condition of BackendEngine.__init__)

Anything not of the shapes understood here raises `Untranslatable` (dynamic attribute names, `self.__dict__`, `vars(self)`,
aliasing of `self`, unknown statement kinds, a changed shape of the three adversarial rules ...)."""
import ast
import os

from .. import translate
from . import lifecycle_helpers, normalize
from ..translate import Untranslatable

ADV = "fairlearn/adversarial/_adversarial_mitigation.py"
CLASSES = [
    # (Lean constructor, file, class name)
    ("TO", "fairlearn/postprocessing/_threshold_optimizer.py", "ThresholdOptimizer"),
    ("EG", "fairlearn/reductions/_exponentiated_gradient/exponentiated_gradient.py", "ExponentiatedGradient"),
    ("GS", "fairlearn/reductions/_grid_search/grid_search.py", "GridSearch"),
    ("CR", "fairlearn/preprocessing/_correlation_remover.py", "CorrelationRemover"),
    ("ADV", ADV, "_AdversarialFairness"),
    ("ADVC", ADV, "AdversarialFairnessClassifier"),
    ("ADVR", ADV, "AdversarialFairnessRegressor"),
    ("LAG", "fairlearn/reductions/_exponentiated_gradient/_lagrangian.py", "_Lagrangian"),
]
# Methods whose LOCAL names reach the generated text (the receiver of `.fit(..)` in fitReceivers): their locals, in order
# of first binding, in the source this lifter was written against.  normalize.rename_in_tree alpha-renames a renamed local
# back to these names, so that renaming `current_estimator` / `estimator` does not change LifecycleSrc.lean.
PINNED_LOCALS = {
    "fairlearn/reductions/_grid_search/grid_search.py": {
        "GridSearch.fit": ["is_classification_reduction", "objective", "pos_basis", "neg_basis", "neg_allowed", "objective_in_the_span",
                           "grid", "i", "lambda_vec", "weights", "y_reduction", "y_reduction_unique", "current_estimator",
                           "oracle_call_start_time", "oracle_call_execution_time", "predict_fct", "loss_fct", "losses"]},
    "fairlearn/reductions/_exponentiated_gradient/_lagrangian.py": {
        "_Lagrangian._call_oracle": ["signed_weights", "redY", "redW", "redY_unique", "estimator", "oracle_call_start_time"]},
}
FIT_ROOTS = ("fit", "partial_fit")
PREDICT_ROOTS = ("predict", "predict_proba", "decision_function", "_pmf_predict", "transform", "_raw_predict")
CLONERS = ("clone", "deepcopy", "copy.deepcopy", "sklearn.base.clone", "base.clone")


def lstr(s):
    return '"' + s.replace("\\", "\\\\").replace('"', '\\"') + '"'


def slist(xs):
    return "[" + ", ".join(lstr(x) for x in xs) + "]"


def _is_self(n):
    return isinstance(n, ast.Name) and n.id == "self"


def _self_attr(n):
    """`self.<name>` -> name"""
    if isinstance(n, ast.Attribute) and _is_self(n.value):
        return n.attr
    return None


def _root_self_attr(n):
    """`self.<name>[..]...` / `self.<name>.<a>...` -> name (n itself is not `self.<name>`)"""
    while isinstance(n, (ast.Subscript, ast.Attribute)):
        inner = n.value
        a = _self_attr(inner)
        if a is not None:
            return a
        n = inner
    return None


def _callee(fn, call):
    """name of the callee that receives `self`.  A local that is bound only as the variable of `for <v> in self.callbacks_`
    denotes "a user callback of the estimator" whatever the loop variable is called: it is reported under the canonical
    name `cb`."""
    f = call.func
    if isinstance(f, ast.Name):
        stores = [n for n in ast.walk(fn) if isinstance(n, ast.Name) and n.id == f.id and isinstance(n.ctx, (ast.Store, ast.Del))]
        loops = [n for n in ast.walk(fn) if isinstance(n, ast.For) and isinstance(n.target, ast.Name) and n.target.id == f.id
                 and ast.unparse(n.iter) == "self.callbacks_"]
        args = {a.arg for a in normalize._all_args(fn)}
        if len(stores) == 1 and len(loops) == 1 and f.id not in args and any(n is call for n in ast.walk(loops[0])):
            return "cb"
    return ast.unparse(f)


class ClassView:
    """a class with its methods resolved through the bases that live in the same module"""

    def __init__(self, tree, name, rel):
        self.rel, self.name = rel, name
        classes = {n.name: n for n in tree.body if isinstance(n, ast.ClassDef)}
        if name not in classes:
            raise Untranslatable(f"{rel}: class {name} not found")
        self.methods = {}
        order, todo = [], [name]
        while todo:
            c = todo.pop(0)
            if c in order or c not in classes:
                continue
            order.append(c)
            todo.extend(b.id for b in classes[c].bases if isinstance(b, ast.Name))
        for c in order:
            for m in classes[c].body:
                if isinstance(m, ast.FunctionDef) and m.name not in self.methods:
                    self.methods[m.name] = m
        if "__init__" not in self.methods:
            raise Untranslatable(f"{rel}: {name} has no __init__ in this module")
        a = self.methods["__init__"].args
        if a.vararg is not None:
            raise Untranslatable(f"{rel}: {name}.__init__ takes *args")
        self.params = [x.arg for x in a.posonlyargs + a.args + a.kwonlyargs if x.arg != "self"]
        self.classes = classes
        self.order = order
        # attributes assigned outside __init__ anywhere in the class (fitted attributes)
        self.assigned_outside_init = set()
        for mn, m in self.methods.items():
            if mn == "__init__":
                continue
            for n in ast.walk(m):
                a = _self_attr(n)
                if a is not None and isinstance(n.ctx, (ast.Store, ast.Del)):
                    self.assigned_outside_init.add(a)

    def bad(self, node, why):
        raise Untranslatable(f"{self.rel}: {self.name}: {why}: `{ast.unparse(node)[:120]}`")

    # ------------------------------------------------------------------ attributes __init__ derives from parameters
    def init_derived(self):
        """[(attribute, sorted constructor parameters of THIS class its value depends on)] for every `self.a = <expr>` of the
        `__init__` chain where `a` is not a constructor parameter of this class"""
        out = {}

        def visit(cname, env, depth=0):
            """env: parameter name of class cname's __init__ -> set of parameters of the analysed class it depends on"""
            init = next((m for m in self.classes[cname].body if isinstance(m, ast.FunctionDef) and m.name == "__init__"), None)
            if init is None or depth > 4:
                return
            local = dict(env)
            for st in ast.walk(init):
                if isinstance(st, ast.Assign) and len(st.targets) == 1:
                    deps = set()
                    for n in ast.walk(st.value):
                        if isinstance(n, ast.Name) and n.id in local:
                            deps |= local[n.id]
                        a = _self_attr(n)
                        if a is not None and a in out:
                            deps |= set(out[a])
                        elif a is not None and a in self.params:
                            deps.add(a)
                    t = st.targets[0]
                    a = _self_attr(t)
                    if a is not None:
                        if a not in self.params:
                            out[a] = sorted(set(out.get(a, [])) | deps)
                    elif isinstance(t, ast.Name):
                        local[t.id] = deps
                elif isinstance(st, ast.Call) and isinstance(st.func, ast.Attribute) and st.func.attr == "__init__" \
                        and isinstance(st.func.value, ast.Call) and ast.unparse(st.func.value.func) == "super":
                    bases = [b.id for b in self.classes[cname].bases if isinstance(b, ast.Name) and b.id in self.classes]
                    for b in bases:
                        binit = next((m for m in self.classes[b].body if isinstance(m, ast.FunctionDef) and m.name == "__init__"), None)
                        if binit is None:
                            continue
                        bparams = [x.arg for x in binit.args.posonlyargs + binit.args.args + binit.args.kwonlyargs if x.arg != "self"]
                        benv = {p: set() for p in bparams}
                        for pname, arg in zip(bparams, st.args):
                            benv[pname] = {n.id for n in ast.walk(arg) if isinstance(n, ast.Name) and n.id in local for _ in [0]} and \
                                set().union(*[local[n.id] for n in ast.walk(arg) if isinstance(n, ast.Name) and n.id in local])
                        for k in st.keywords:
                            if k.arg in benv:
                                names = [n.id for n in ast.walk(k.value) if isinstance(n, ast.Name) and n.id in local]
                                benv[k.arg] = set().union(*[local[x] for x in names]) if names else set()
                        visit(b, benv, depth + 1)
        visit(self.name, {p: {p} for p in self.params})
        return sorted(out.items())

    # ------------------------------------------------------------------ closure + flow-insensitive facts
    def closure(self, roots):
        seen, todo = [], [r for r in roots if r in self.methods]
        while todo:
            m = todo.pop(0)
            if m in seen:
                continue
            seen.append(m)
            for n in ast.walk(self.methods[m]):
                a = _self_attr(n)
                if a is not None and isinstance(n.ctx, ast.Load) and a in self.methods and a not in seen:
                    todo.append(a)
        return seen

    def facts(self, roots):
        assigned, mutated, escapes = set(), set(), set()
        for mn in self.closure(roots):
            fn = self.methods[mn]
            parents = {}
            for p in ast.walk(fn):
                for c in ast.iter_child_nodes(p):
                    parents[c] = p
            for n in ast.walk(fn):
                if isinstance(n, ast.Attribute) and _is_self(n.value):
                    if n.attr == "__dict__":
                        self.bad(parents.get(n, n), "use of self.__dict__")
                    if isinstance(n.ctx, (ast.Store, ast.Del)):
                        assigned.add(n.attr)
                elif isinstance(n, (ast.Subscript, ast.Attribute)) and isinstance(n.ctx, (ast.Store, ast.Del)):
                    r = _root_self_attr(n)
                    if r is not None:
                        mutated.add(r)
                elif _is_self(n):
                    p = parents.get(n)
                    if isinstance(p, ast.Attribute) and p.value is n:
                        continue
                    if isinstance(p, ast.Return) and p.value is n:
                        continue
                    if isinstance(p, ast.arg) or isinstance(p, ast.arguments):
                        continue
                    if isinstance(p, ast.Call) and (n in p.args):
                        f = ast.unparse(p.func)
                        if f in ("setattr", "delattr"):
                            if len(p.args) >= 2 and isinstance(p.args[1], ast.Constant) and isinstance(p.args[1].value, str):
                                assigned.add(p.args[1].value)
                                continue
                            self.bad(p, "setattr/delattr on self with a computed name")
                        if f in ("vars", "object.__setattr__"):
                            self.bad(p, "reflective access to the attributes of self")
                        if f in ("hasattr", "getattr"):
                            if len(p.args) >= 2 and isinstance(p.args[1], ast.Constant) and isinstance(p.args[1].value, str):
                                continue
                            self.bad(p, "hasattr/getattr on self with a computed name")
                        escapes.add(_callee(fn, p))
                        continue
                    if isinstance(p, ast.keyword) and isinstance(parents.get(p), ast.Call):
                        escapes.add(_callee(fn, parents[p]))
                        continue
                    self.bad(p if p is not None else n, "bare use of self that I do not understand (aliasing?)")
        return sorted(assigned), sorted(mutated), sorted(escapes)

    def other_calls(self, roots, helper_attr):
        """calls on attribute objects in the closure of `roots` that are NOT followed: `<attr>.<method>` for a method call on
        `self.<attr>` / an element of it, `<attr>()` for a call of the attribute (or of an element) itself; the helper attribute
        whose class IS followed (lifecycle_helpers) is left out"""
        out = set()
        for mn in self.closure(roots):
            for n in ast.walk(self.methods[mn]):
                if not isinstance(n, ast.Call):
                    continue
                f = n.func
                if isinstance(f, ast.Attribute) and _is_self(f.value):
                    if f.attr not in self.methods:
                        out.add(f.attr + "()")
                elif isinstance(f, ast.Attribute):
                    r = _root_self_attr(f)
                    if r is not None and r != helper_attr:
                        out.add(f"{r}.{f.attr}")
                elif isinstance(f, ast.Subscript):
                    r = _self_attr(f.value) or _root_self_attr(f)
                    if r is not None and r != helper_attr:
                        out.add(r + "()")
        return sorted(out)

    def validate_resets(self, roots):
        """methods in the closure of `roots` that call `validate_data(self, ..)` with `reset` omitted or the literal True: sklearn's
        default `reset=True` REWRITES `n_features_in_` / `feature_names_in_` of the estimator from the array it is given (finding
        F5g, repaired by `reset=False`).  `reset=False` -> not listed; any other value of `reset` is refused."""
        out = set()
        for mn in self.closure(roots):
            for n in ast.walk(self.methods[mn]):
                if isinstance(n, ast.Call) and ast.unparse(n.func).split(".")[-1] in ("validate_data", "_validate_data") \
                        and any(_is_self(a) for a in n.args):
                    kw = {k.arg: k.value for k in n.keywords}
                    if None in kw:
                        self.bad(n, "validate_data(self, .., **kwargs): cannot see `reset`")
                    r = kw.get("reset")
                    if r is None or (isinstance(r, ast.Constant) and r.value is True):
                        out.add(mn)                     # omitted (sklearn's default) or the literal True: the attributes are rewritten
                    elif not (isinstance(r, ast.Constant) and r.value is False):
                        self.bad(n, f"validate_data(self, .., reset={ast.unparse(r)}): `reset` is neither omitted nor a literal True / False")
        return sorted(out)

    # ------------------------------------------------------------------ return analysis
    def returns(self, roots):
        out = set()
        for r in roots:
            if r not in self.methods:
                continue
            fn = self.methods[r]

            def walk(stmts):
                """collect returns (not descending into nested defs); True if the block cannot complete normally"""
                for s in stmts:
                    if isinstance(s, ast.Return):
                        out.add("None" if s.value is None else ast.unparse(s.value))
                        return True
                    if isinstance(s, ast.Raise):
                        return True
                    if isinstance(s, ast.If):
                        a, b = walk(s.body), walk(s.orelse)
                        if a and b:
                            return True
                    elif isinstance(s, (ast.For, ast.While)):
                        walk(s.body)
                        walk(s.orelse)
                    elif isinstance(s, ast.With):
                        if walk(s.body):
                            return True
                    elif isinstance(s, ast.Try):
                        a = walk(s.body)
                        hs = [walk(h.body) for h in s.handlers]
                        walk(s.orelse)
                        if walk(s.finalbody):
                            return True
                        if a and all(hs):
                            return True
                    elif isinstance(s, (ast.FunctionDef, ast.ClassDef, ast.AsyncFunctionDef)):
                        continue
                    elif isinstance(s, ast.Match):
                        self.bad(s, "match statement")
                return False
            if not walk(fn.body):
                out.add("<end>")
        return sorted(out)

    # ------------------------------------------------------------------ receivers of .fit(..)
    def receivers(self, roots):
        res = {}
        for mn in self.closure(roots):
            fn = self.methods[mn]
            self._recv_block(fn.body, [], res)
        return sorted((k, sorted(v)) for k, v in res.items())

    def _classify(self, v):
        if isinstance(v, ast.Constant) and v.value is None:
            return None
        if isinstance(v, ast.Call):
            f = ast.unparse(v.func)
            if f in CLONERS:
                return "clone"
            if isinstance(v.func, ast.Name) and v.func.id[:1].isupper():
                return "ctor:" + v.func.id
            if isinstance(v.func, ast.Attribute) and v.func.attr[:1].isupper():
                return "ctor:" + v.func.attr
            return "unknown"
        if isinstance(v, (ast.Attribute, ast.Name)):
            return "alias:" + ast.unparse(v)
        return "unknown"

    def _prov(self, recv, before):
        """provenance labels of `recv` given the statements executed before (innermost block last)"""
        labels = set()
        for s in reversed(before):
            if isinstance(s, (ast.Assign, ast.AnnAssign)):
                targets = s.targets if isinstance(s, ast.Assign) else [s.target]
                if any(ast.unparse(t) == recv for t in targets) and s.value is not None:
                    c = self._classify(s.value)
                    if c is None:
                        continue          # `x = None` placeholder: keep looking (a later branch must rebind)
                    labels.add(c)
                    return labels
                if any(recv in [ast.unparse(e) for e in ast.walk(t)] for t in targets):
                    labels.add("unknown")
                    return labels
            elif isinstance(s, ast.If):
                a = self._prov_branch(recv, s.body)
                b = self._prov_branch(recv, s.orelse)
                if a is not None and b is not None:
                    return labels | a | b
                if a is not None:
                    labels |= a
                if b is not None:
                    labels |= b
            elif any(isinstance(n, (ast.Assign, ast.AugAssign, ast.AnnAssign)) and
                     recv in [ast.unparse(t) for t in (n.targets if isinstance(n, ast.Assign) else [n.target])]
                     for n in ast.walk(s)):
                labels.add("unknown")
                return labels
        labels.add("param" if "." not in recv else "unbound")
        return labels

    def _prov_branch(self, recv, stmts):
        """labels if the branch (re)binds recv on its straight-line level, else None"""
        for s in reversed(stmts):
            if isinstance(s, (ast.Assign, ast.AnnAssign)):
                targets = s.targets if isinstance(s, ast.Assign) else [s.target]
                if any(ast.unparse(t) == recv for t in targets) and s.value is not None:
                    c = self._classify(s.value)
                    return {c} if c is not None else None
            elif isinstance(s, ast.If):
                a, b = self._prov_branch(recv, s.body), self._prov_branch(recv, s.orelse)
                if a is not None and b is not None:
                    return a | b
                if a is not None or b is not None:
                    return (a or b) | {"unknown"}
        return None

    def _recv_block(self, stmts, before, res):
        for i, s in enumerate(stmts):
            ctx = before + stmts[:i]
            # calls in the statement's own expressions (not in nested blocks)
            heads = []
            if isinstance(s, (ast.If, ast.While)):
                heads = [s.test]
            elif isinstance(s, ast.For):
                heads = [s.iter]
            elif isinstance(s, ast.With):
                heads = [it.context_expr for it in s.items]
            elif isinstance(s, (ast.Try, ast.FunctionDef, ast.ClassDef)):
                heads = []
            else:
                heads = [s]
            for h in heads:
                for n in ast.walk(h):
                    if isinstance(n, ast.Call) and isinstance(n.func, ast.Attribute) and n.func.attr in FIT_ROOTS \
                            and not _is_self(n.func.value):
                        recv = ast.unparse(n.func.value)
                        if isinstance(n.func.value, ast.Call):
                            # fitted on the spot: `Ctor(..).fit(..)` / `clone(e).fit(..)`
                            c = self._classify(n.func.value)
                            recv = ast.unparse(n.func.value.func) + "(..)"
                            res.setdefault(recv, set()).add(c or "unknown")
                            continue
                        res.setdefault(recv, set()).update(self._prov(recv, ctx))
            for blk in ("body", "orelse", "finalbody"):
                sub = getattr(s, blk, None)
                if isinstance(sub, list) and sub and isinstance(sub[0], ast.stmt):
                    self._recv_block(sub, ctx, res)
            for h in getattr(s, "handlers", []):
                self._recv_block(h.body, ctx, res)

    # ------------------------------------------------------------------ flow-sensitive history reads
    def definitely_assigned(self, root):
        """fitted attributes that `root` has (re)assigned on EVERY path that returns normally"""
        if root not in self.methods:
            return []
        return sorted(a for a in _Flow(self).call(root, frozenset()) if a in self.assigned_outside_init)

    def fitted_reads(self, roots):
        """fitted attributes (assigned somewhere outside __init__) that the closure of `roots` reads"""
        out = set()
        for r in roots:
            if r in self.methods:
                fa = _Flow(self)
                fa.call(r, frozenset())
                out |= {n for n in fa.reads if n in self.assigned_outside_init}
        return sorted(out)

    def history_reads(self, root):
        if root not in self.methods:
            return [], []
        fa = _Flow(self)
        fa.call(root, frozenset())
        hist = sorted(x for x in fa.sites if x.split(" in ")[0] in self.assigned_outside_init or x.startswith("<"))
        initd = sorted(n for n in fa.reads if n not in self.assigned_outside_init and not n.startswith("<"))
        return hist, initd


class _Flow:
    """definite-assignment analysis of `self.<name>` over one call of a method (same-class calls are inlined)"""

    def __init__(self, cv):
        self.cv = cv
        self.reads = set()
        self.sites = set()
        self.stack = []

    def call(self, name, da):
        if name in self.stack:
            return da          # recursion: assume nothing more
        self.stack.append(name)
        exits = []
        end = self.block(self.cv.methods[name].body, set(da), exits)
        if end is not None:
            exits.append(end)
        self.stack.pop()
        if not exits:
            return frozenset(da)      # never returns normally
        out = set(exits[0])
        for e in exits[1:]:
            out &= e
        return frozenset(out)

    def read(self, name, da):
        cv = self.cv
        if name in cv.params or name in da or name.startswith("__class__"):
            return
        if name in ("__class__",):
            return
        self.reads.add(name)
        self.sites.add(f"{name} in {self.stack[-1] if self.stack else '?'}")

    # -- expressions: returns the DA set after evaluation (same-class calls may assign)
    def expr(self, e, da):
        if e is None:
            return da
        if isinstance(e, ast.Attribute):
            a = _self_attr(e)
            if a is not None:
                if a in self.cv.methods:
                    return set(self.call(a, frozenset(da)))
                self.read(a, da)
                return da
            return self.expr(e.value, da)
        if isinstance(e, ast.Call):
            f = ast.unparse(e.func)
            if f in ("hasattr", "getattr") and e.args and _is_self(e.args[0]) and len(e.args) >= 2 \
                    and isinstance(e.args[1], ast.Constant) and isinstance(e.args[1].value, str):
                if e.args[1].value not in self.cv.methods:
                    self.read(e.args[1].value, da)
                for x in e.args[2:]:
                    da = self.expr(x, da)
                return da
            if f == "check_is_fitted" and e.args and _is_self(e.args[0]):
                # sklearn: looks at __sklearn_is_fitted__ or at the attributes ending in "_"
                if "__sklearn_is_fitted__" in self.cv.methods:
                    da = set(self.call("__sklearn_is_fitted__", frozenset(da)))
                else:
                    self.reads.add("<any fitted attribute>")
                    self.sites.add(f"<any fitted attribute> in {self.stack[-1] if self.stack else '?'}")
                return da
            da = self.expr(e.func, da)
            for x in e.args:
                da = self.expr(x.value if isinstance(x, ast.Starred) else x, da)
            for k in e.keywords:
                da = self.expr(k.value, da)
            return da
        if isinstance(e, ast.IfExp):
            da = self.expr(e.test, da)
            a, b = self.expr(e.body, set(da)), self.expr(e.orelse, set(da))
            return a & b
        if isinstance(e, ast.BoolOp):
            da = self.expr(e.values[0], da)
            for v in e.values[1:]:
                self.expr(v, set(da))
            return da
        if isinstance(e, (ast.ListComp, ast.SetComp, ast.GeneratorExp, ast.DictComp)):
            d = set(da)
            for g in e.generators:
                d = self.expr(g.iter, d)
                for c in g.ifs:
                    self.expr(c, set(d))
            if isinstance(e, ast.DictComp):
                self.expr(e.key, set(d))
                self.expr(e.value, set(d))
            else:
                self.expr(e.elt, set(d))
            return da
        if isinstance(e, ast.Lambda):
            self.expr(e.body, set(da))
            return da
        if isinstance(e, ast.NamedExpr):
            return self.expr(e.value, da)
        for c in ast.iter_child_nodes(e):
            if isinstance(c, ast.expr):
                da = self.expr(c, da)
            elif isinstance(c, (ast.keyword,)):
                da = self.expr(c.value, da)
            elif isinstance(c, ast.comprehension):
                pass
        return da

    def store(self, t, da):
        a = _self_attr(t)
        if a is not None:
            da = set(da)
            da.add(a)
            return da
        if isinstance(t, (ast.Tuple, ast.List)):
            for x in t.elts:
                da = self.store(x, da)
            return da
        if isinstance(t, ast.Starred):
            return self.store(t.value, da)
        if isinstance(t, (ast.Subscript, ast.Attribute)):
            # in-place store: the container is read
            da = self.expr(t.value, da)
            if isinstance(t, ast.Subscript):
                da = self.expr(t.slice, da)
            return da
        return da

    # -- statements: returns DA at normal completion or None if the block cannot complete normally
    def block(self, stmts, da, exits, loop=None):
        for s in stmts:
            da = self.stmt(s, da, exits, loop)
            if da is None:
                return None
        return da

    def stmt(self, s, da, exits, loop):
        if isinstance(s, ast.Expr):
            return self.expr(s.value, da)
        if isinstance(s, ast.Assign):
            da = self.expr(s.value, da)
            for t in s.targets:
                da = self.store(t, da)
            return da
        if isinstance(s, ast.AnnAssign):
            da = self.expr(s.value, da)
            return self.store(s.target, da) if s.value is not None else da
        if isinstance(s, ast.AugAssign):
            a = _self_attr(s.target)
            if a is not None:
                self.read(a, da)
            else:
                da = self.store(s.target, da)
            da = self.expr(s.value, da)
            return self.store(s.target, da)
        if isinstance(s, ast.Return):
            da = self.expr(s.value, da)
            exits.append(set(da))
            return None
        if isinstance(s, ast.Raise):
            self.expr(s.exc, da)
            return None
        if isinstance(s, ast.Assert):
            self.expr(s.test, set(da))
            return da
        if isinstance(s, ast.Delete):
            da = set(da)
            for t in s.targets:
                a = _self_attr(t)
                if a is not None:
                    da.discard(a)
            return da
        if isinstance(s, ast.If):
            da = self.expr(s.test, da)
            a = self.block(s.body, set(da), exits, loop)
            b = self.block(s.orelse, set(da), exits, loop)
            if a is None:
                return b
            if b is None:
                return a
            return a & b
        if isinstance(s, (ast.For, ast.While)):
            if isinstance(s, ast.For):
                da = self.expr(s.iter, da)
                inner = self.store(s.target, set(da))
            else:
                da = self.expr(s.test, da)
                inner = set(da)
            self.block(s.body, inner, exits, loop=True)
            return self.block(s.orelse, set(da), exits, loop)
        if isinstance(s, ast.With):
            for it in s.items:
                da = self.expr(it.context_expr, da)
                if it.optional_vars is not None:
                    da = self.store(it.optional_vars, da)
            return self.block(s.body, da, exits, loop)
        if isinstance(s, ast.Try):
            a = self.block(s.body, set(da), exits, loop)
            if a is not None:
                a = self.block(s.orelse, a, exits, loop)
            outs = [a] if a is not None else []
            for h in s.handlers:
                b = self.block(h.body, set(da), exits, loop)
                if b is not None:
                    outs.append(b)
            if not outs:
                self.block(s.finalbody, set(da), exits, loop)
                return None
            r = set(outs[0])
            for o in outs[1:]:
                r &= o
            return self.block(s.finalbody, r, exits, loop)
        if isinstance(s, (ast.FunctionDef, ast.Lambda)):
            # a local function: its body runs later, at the earliest with today's DA
            self.block(s.body, set(da), [], None)
            return da
        if isinstance(s, (ast.Break, ast.Continue)):
            return None
        if isinstance(s, (ast.Pass, ast.Import, ast.ImportFrom, ast.Global, ast.Nonlocal)):
            return da
        self.cv.bad(s, "statement kind in the flow analysis")


# ----------------------------------------------------------------------------------------------
# the three closed boolean rules of the adversarial estimators, and the moment latch
# ----------------------------------------------------------------------------------------------
def _bool(e, atoms, where):
    t = ast.unparse(e)
    if t in atoms:
        return atoms[t]
    if isinstance(e, ast.BoolOp):
        op = " && " if isinstance(e.op, ast.And) else " || "
        return "(" + op.join(_bool(v, atoms, where) for v in e.values) + ")"
    if isinstance(e, ast.UnaryOp) and isinstance(e.op, ast.Not):
        return f"(!{_bool(e.operand, atoms, where)})"
    if isinstance(e, ast.Constant) and isinstance(e.value, bool):
        return "true" if e.value else "false"
    raise Untranslatable(f"{where}: not a boolean rule over the atoms {sorted(atoms)}: `{t}`")


def _eval_rule(e, atoms, env):
    """value of a boolean rule under an assignment of its (side-effect free) atoms"""
    t = ast.unparse(e)
    if t in atoms:
        return env[atoms[t]]
    if isinstance(e, ast.BoolOp):
        vals = [_eval_rule(v, atoms, env) for v in e.values]
        return all(vals) if isinstance(e.op, ast.And) else any(vals)
    if isinstance(e, ast.UnaryOp) and isinstance(e.op, ast.Not):
        return not _eval_rule(e.operand, atoms, env)
    if isinstance(e, ast.Constant) and isinstance(e.value, bool):
        return e.value
    raise Untranslatable(f"not a boolean rule: `{t}`")


def _rule(e, atoms, where, pinned_src):
    """Lean text of a closed boolean rule over pure atoms.  A rule with the same truth table as the pinned spelling
    `pinned_src` (De Morgan, swapped operands of `and` / `or`, double negation: the atoms are attribute reads, `hasattr`
    probes and local booleans, so short-circuit order is unobservable) is emitted in the pinned spelling; a rule that
    differs from it on some assignment is emitted as written."""
    text = _bool(e, atoms, where)
    pinned = ast.parse(pinned_src, mode="eval").body
    try:
        ptext = _bool(pinned, atoms, where)
    except Untranslatable:
        return text
    names = sorted(set(atoms.values()))
    for bits in range(2 ** len(names)):
        env = {n: bool(bits >> i & 1) for i, n in enumerate(names)}
        if _eval_rule(e, atoms, env) != _eval_rule(pinned, atoms, env):
            return text
    return ptext


def _rule_pure(e, atoms):
    """a boolean combination of the atoms, of local names and of constants"""
    if ast.unparse(e) in atoms or isinstance(e, ast.Name) or (isinstance(e, ast.Constant) and isinstance(e.value, bool)):
        return True
    if isinstance(e, ast.BoolOp):
        return all(_rule_pure(v, atoms) for v in e.values)
    if isinstance(e, ast.UnaryOp) and isinstance(e.op, ast.Not):
        return _rule_pure(e.operand, atoms)
    return False


def _stores(fn, name):
    return [n for n in ast.walk(fn) if isinstance(n, ast.Name) and n.id == name and isinstance(n.ctx, (ast.Store, ast.Del))]


def _resolve_rule_temps(fn, expr, use_idx, atoms, where):
    """Replace local names in the rule `expr` (used by the top-level statement number `use_idx` of `fn`) by their
    definitions: a name bound exactly once, by a top-level `name = <rule over atoms / names>` before the use, such that
    every top-level statement from that definition up to the use is again such a pure local assignment (nothing in between
    can change what the atoms read).  Anything else is left alone (and then refused by `_bool`)."""
    def top_def(name):
        hits = [(i, s) for i, s in enumerate(fn.body) if isinstance(s, ast.Assign) and len(s.targets) == 1
                and isinstance(s.targets[0], ast.Name) and s.targets[0].id == name]
        if len(hits) != 1 or len(_stores(fn, name)) != 1 or name in {a.arg for a in normalize._all_args(fn)}:
            return None
        return hits[0]

    def quiet(i, j):
        return all(isinstance(s, ast.Assign) and len(s.targets) == 1 and isinstance(s.targets[0], ast.Name)
                   and (_rule_pure(s.value, atoms) or normalize.is_pure(s.value)) for s in fn.body[i:j])

    def subst(e, depth):
        if ast.unparse(e) in atoms:
            return e
        if isinstance(e, ast.Name) and depth < 6:
            d = top_def(e.id)
            if d is None or d[0] >= use_idx or not _rule_pure(d[1].value, atoms) or not quiet(d[0], use_idx):
                return e
            return subst(d[1].value, depth + 1)
        if isinstance(e, ast.BoolOp):
            return ast.BoolOp(op=e.op, values=[subst(v, depth) for v in e.values])
        if isinstance(e, ast.UnaryOp) and isinstance(e.op, ast.Not):
            return ast.UnaryOp(op=e.op, operand=subst(e.operand, depth))
        return e
    return subst(expr, 0)


def _top_index(fn, node):
    for i, s in enumerate(fn.body):
        if any(n is node for n in ast.walk(s)):
            return i
    return None


def _parse(repo, rel):
    try:
        with open(os.path.join(repo, rel)) as f:
            return normalize.parse(f.read())
    except (OSError, SyntaxError) as e:
        raise Untranslatable(f"{rel}: {e}")


def _fitted_probe(t):
    """`try: check_is_fitted(self); v = True / except NotFittedError: v = False` (or `v = True` in the `else:` of the try,
    which runs exactly when the body completed) -> the name v"""
    if len(t.handlers) != 1 or t.finalbody or t.handlers[0].type is None or ast.unparse(t.handlers[0].type) != "NotFittedError":
        return None
    hb = t.handlers[0].body
    if len(hb) != 1 or not (isinstance(hb[0], ast.Assign) and len(hb[0].targets) == 1 and isinstance(hb[0].targets[0], ast.Name)):
        return None
    v = hb[0].targets[0].id
    if ast.unparse(hb[0]) != f"{v} = False":
        return None
    body, orelse = [ast.unparse(x) for x in t.body], [ast.unparse(x) for x in t.orelse]
    if (body, orelse) in ((["check_is_fitted(self)", f"{v} = True"], []), (["check_is_fitted(self)"], [f"{v} = True"])):
        return v
    return None


def _adv_rules(repo, cv):
    fit = cv.methods.get("fit")
    if fit is None:
        raise Untranslatable("_AdversarialFairness.fit not found")
    # (1) reinitialize = <rule>;  ... self._validate_input(X, y, sensitive_features, reinitialize)
    calls = [n for n in ast.walk(fit) if isinstance(n, ast.Call) and _self_attr(n.func) == "_validate_input"]
    if len(calls) != 1:
        raise Untranslatable("_AdversarialFairness.fit: expected exactly one call of self._validate_input")
    c = calls[0]
    vi = cv.methods.get("_validate_input")
    if vi is None:
        raise Untranslatable("_AdversarialFairness._validate_input not found")
    vparams = [a.arg for a in vi.args.args if a.arg != "self"]
    bound = dict(zip(vparams, c.args))
    bound.update({k.arg: k.value for k in c.keywords})
    if len(vparams) < 4:
        raise Untranslatable("_validate_input: signature changed")
    rname = vparams[3]
    arg = bound.get(rname)
    atoms1 = {"hasattr(self, 'classes_')": "has_classes", "self.warm_start": "warm_start"}
    pin1 = "not hasattr(self, 'classes_') or not self.warm_start"
    use_idx = _top_index(fit, c)
    if arg is None:
        dflt = vi.args.defaults[-1] if vi.args.defaults else None
        if dflt is None:
            raise Untranslatable("_validate_input: the reinitialize argument is not passed and has no default")
        reinit = _rule(dflt, atoms1, "fit/reinitialize", pin1)
    else:
        if use_idx is None:
            raise Untranslatable("_AdversarialFairness.fit: the call of self._validate_input is not in a top-level statement")
        rule_e = _resolve_rule_temps(fit, arg, use_idx, atoms1, "fit/reinitialize")
        reinit = _rule(rule_e, atoms1, "fit/reinitialize", pin1)
    # (2) guard of self.__setup(..) in _validate_input
    guards = []
    for n in ast.walk(vi):
        if isinstance(n, ast.If) and any(isinstance(x, ast.Call) and _self_attr(x.func) in ("__setup", "_AdversarialFairness__setup")
                                         for s in n.body for x in ast.walk(s)):
            guards.append(n)
    setups = [x for x in ast.walk(vi) if isinstance(x, ast.Call) and _self_attr(x.func) in ("__setup", "_AdversarialFairness__setup")]
    if len(guards) != 1 or len(setups) != 1 or guards[0].orelse:
        raise Untranslatable("_validate_input: expected exactly one `if <rule>: self.__setup(..)`")
    # `is_fitted` (any local name) must be the try/except around check_is_fitted(self)
    probes = [v for v in (_fitted_probe(t) for t in vi.body if isinstance(t, ast.Try)) if v is not None]
    if len(probes) != 1 or probes[0] == rname or len(_stores(vi, probes[0])) != 2:
        raise Untranslatable("_validate_input: `is_fitted` is no longer `try: check_is_fitted(self) ... except NotFittedError`")
    setup = _rule(guards[0].test, {probes[0]: "is_fitted", rname: "reinitialize"}, "_validate_input/setup guard",
                  f"not {probes[0]} or {rname}")
    sif = cv.methods.get("__sklearn_is_fitted__")
    if sif is None or [ast.unparse(s) for s in sif.body if not (isinstance(s, ast.Expr) and isinstance(s.value, ast.Constant))] \
            != ["return hasattr(self, '_is_setup')"]:
        raise Untranslatable("__sklearn_is_fitted__ is no longer `return hasattr(self, '_is_setup')`")
    # (3) BackendEngine.__init__: `if <rule>: keep the models of base.backendEngine_ else: build new ones`
    be = _parse(repo, "fairlearn/adversarial/_backend_engine.py")
    init = None
    for n in be.body:
        if isinstance(n, ast.ClassDef) and n.name == "BackendEngine":
            for m in n.body:
                if isinstance(m, ast.FunctionDef) and m.name == "__init__":
                    init = m
    if init is None:
        raise Untranslatable("BackendEngine.__init__ not found")
    base = [a.arg for a in init.args.args][1] if len(init.args.args) > 1 else None
    keeps = [s for s in init.body if isinstance(s, ast.If) and
             any(f"{base}.backendEngine_.predictor_model" in ast.unparse(x) for x in s.body)]
    # every mention of the old engine: `<anything>.backendEngine_` or the string "backendEngine_" (hasattr / getattr)
    mentions = [n for n in ast.walk(init) if (isinstance(n, ast.Attribute) and n.attr == "backendEngine_")
                or (isinstance(n, ast.Constant) and n.value == "backendEngine_")]
    if len(keeps) != 1:
        if not mentions:
            keep = "false"
        else:
            raise Untranslatable("BackendEngine.__init__: the reuse of base.backendEngine_ is not one top-level `if`")
    else:
        inside = {id(n) for part in [keeps[0].test] + keeps[0].body for n in ast.walk(part)}
        if any(id(n) not in inside for n in mentions) or any(
                isinstance(n, ast.Attribute) and ast.unparse(n.value) != base for n in mentions):
            raise Untranslatable("BackendEngine.__init__: base.backendEngine_ is also used outside the keep branch")
        keep = _rule(keeps[0].test, {f"{base}.warm_start": "warm_start", f"hasattr({base}, 'backendEngine_')": "has_engine"},
                     "BackendEngine.__init__/keep", f"{base}.warm_start and hasattr({base}, 'backendEngine_')")
    return reinit, setup, keep


def _moment_latch(repo):
    d = os.path.join(repo, "fairlearn/reductions/_moments")
    hits = []
    try:
        files = sorted(f for f in os.listdir(d) if f.endswith(".py"))
    except OSError as e:
        raise Untranslatable(str(e))
    n_load = 0
    for fn in files:
        tree = _parse(repo, os.path.join("fairlearn/reductions/_moments", fn))
        for node in ast.walk(tree):
            if isinstance(node, ast.FunctionDef) and node.name == "load_data":
                n_load += 1
                for s in ast.walk(node):
                    if isinstance(s, ast.Assert) and "data_loaded" in ast.unparse(s.test):
                        hits.append(f"{fn}:{s.lineno}")
                    if isinstance(s, ast.If) and "data_loaded" in ast.unparse(s.test) and \
                            any(isinstance(x, ast.Raise) for b in s.body for x in ast.walk(b)):
                        hits.append(f"{fn}:{s.lineno}")
    if n_load == 0:
        raise Untranslatable("no load_data found under fairlearn/reductions/_moments")
    return hits


def _constraints_use(cv, roots, lag):
    """(in place?, copied?) for the object behind the `constraints` parameter"""
    in_place, copied = False, False
    for mn in cv.closure(roots):
        fn = cv.methods[mn]
        for n in ast.walk(fn):
            if isinstance(n, ast.Call):
                f = ast.unparse(n.func)
                if f == "self.constraints.load_data":
                    in_place = True
                if f in CLONERS and any(ast.unparse(a) == "self.constraints" for a in list(n.args) + [k.value for k in n.keywords]):
                    copied = True
                if f == "_Lagrangian":
                    for k in n.keywords:
                        if ast.unparse(k.value) == "self.constraints":
                            # follow into _Lagrangian.__init__: the parameter it is bound to
                            init = lag.methods["__init__"]
                            binds = [s for s in init.body if isinstance(s, ast.Assign) and ast.unparse(s.value) == k.arg
                                     and len(s.targets) == 1 and _self_attr(s.targets[0]) is not None]
                            loads = [x for x in ast.walk(init) if isinstance(x, ast.Call) and
                                     ast.unparse(x.func) in (f"{k.arg}.load_data",) +
                                     tuple(f"self.{_self_attr(b.targets[0])}.load_data" for b in binds)]
                            if loads:
                                in_place = True
                            cps = [x for x in ast.walk(init) if isinstance(x, ast.Call) and ast.unparse(x.func) in CLONERS and
                                   any(ast.unparse(a) == k.arg for a in list(x.args) + [kk.value for kk in x.keywords])]
                            if cps and not loads:
                                copied = True
                            if cps and loads:
                                raise Untranslatable("_Lagrangian.__init__: constraints both copied and loaded in place")
                    if any(ast.unparse(a) == "self.constraints" for a in n.args):
                        raise Untranslatable("_Lagrangian(..) receives self.constraints positionally")
    if in_place and copied:
        raise Untranslatable(f"{cv.name}: constraints both copied and loaded in place")
    if not in_place and not copied:
        raise Untranslatable(f"{cv.name}: cannot see how fit loads the constraints object")
    return in_place, copied


def _to_prefit(cv):
    """ThresholdOptimizer.fit: `if not self.prefit: <clone + fit> else: <check, alias>` -> (the prefit branch calls .fit on
    something?, it aliases the user's estimator?)"""
    fit = cv.methods.get("fit")
    ifs = [st for st in ast.walk(fit) if isinstance(st, ast.If) and ast.unparse(st.test) in ("not self.prefit", "self.prefit")]
    if len(ifs) != 1 or not ifs[0].orelse:
        raise Untranslatable("ThresholdOptimizer.fit: expected exactly one `if (not) self.prefit: .. else: ..`")
    st = ifs[0]
    pre = st.orelse if ast.unparse(st.test) == "not self.prefit" else st.body
    refits = any(isinstance(c, ast.Call) and isinstance(c.func, ast.Attribute) and c.func.attr in FIT_ROOTS
                 for x in pre for c in ast.walk(x))
    # a local bound exactly once in fit, to `self.estimator`, in the prefit branch itself, stands for the user's object
    temps = {x.targets[0].id for x in pre if isinstance(x, ast.Assign) and len(x.targets) == 1
             and isinstance(x.targets[0], ast.Name) and ast.unparse(x.value) == "self.estimator"
             and len(_stores(fit, x.targets[0].id)) == 1}
    alias = any(isinstance(x, ast.Assign) and len(x.targets) == 1 and ast.unparse(x.targets[0]) == "self.estimator_"
                and (ast.unparse(x.value) == "self.estimator" or (isinstance(x.value, ast.Name) and x.value.id in temps))
                for x in pre)
    if not alias and not refits:
        raise Untranslatable("ThresholdOptimizer.fit: prefit branch neither aliases nor fits the estimator")
    return refits, alias


def analyse(repo):
    trees = {}
    views = {}
    for tag, rel, name in CLASSES:
        if rel not in trees:
            trees[rel] = normalize.rename_in_tree(_parse(repo, rel), PINNED_LOCALS.get(rel, {}))
        views[tag] = ClassView(trees[rel], name, rel)
    data = {}
    for tag, rel, name in CLASSES:
        cv = views[tag]
        roots = FIT_ROOTS if tag != "LAG" else tuple(m for m in cv.methods if m != "__init__")
        fa, fm, fe = cv.facts(roots)
        pmeth = [m for m in PREDICT_ROOTS if m in cv.methods] if tag != "LAG" else []
        pa, pm, pe = cv.facts(pmeth)
        hist, initd = cv.history_reads("fit") if tag != "LAG" else ([], [])
        # attributes only `__init__` sets that a prediction entry point reads go stale after set_params just the same
        for m in pmeth:
            initd = sorted(set(initd) | set(cv.history_reads(m)[1]))
        data[tag] = dict(cls=name, params=cv.params, fitAssigned=fa, fitMutated=fm, fitSelfEscapes=fe,
                         predictMethods=pmeth, predictAssigned=sorted(set(pa) | set(pm)), predictSelfEscapes=pe,
                         fitReturns=cv.returns(FIT_ROOTS) if tag != "LAG" else [],
                         fitReceivers=cv.receivers(roots), fitHistoryReads=hist, initDerivedReads=initd,
                         initDerivedDeps=cv.init_derived(),
                         fitDefinitelyAssigned=cv.definitely_assigned("fit") if tag != "LAG" else [],
                         predictReads=cv.fitted_reads(pmeth), predictValidateResets=cv.validate_resets(pmeth),
                         predictOtherCalls=cv.other_calls(pmeth, lifecycle_helpers.HELPERS.get(tag, ("",))[0]))
    latch = _moment_latch(repo)
    cons = {}
    for tag in ("EG", "GS"):
        cons[tag] = _constraints_use(views[tag], FIT_ROOTS, views["LAG"])
    reinit, setup, keep = _adv_rules(repo, views["ADV"])
    data["_toprefit"] = _to_prefit(views["TO"])
    # the prediction closure followed across the helper objects (InterpolatedThresholder, the backend engines)
    data["_helpers"] = lifecycle_helpers.analyse_helpers(repo, {t: views[t] for t, _, _ in CLASSES}, PREDICT_ROOTS)
    return data, latch, cons, (reinit, setup, keep)


@translate.lifter
def lifecycle_src(repo):
    data, latch, cons, (reinit, setup, keep) = analyse(repo)
    tags = [t for t, _, _ in CLASSES]

    def table(name, typ, fmt, doc):
        rows = "\n".join(f"  | .{t} => {fmt(data[t])}" for t in tags)
        return f"/-- {doc} -/\ndef {name} : EstCls → {typ}\n{rows}\n"

    def recv(d):
        return "[" + ", ".join(f"({lstr(r)}, {slist(p)})" for r, p in d["fitReceivers"]) + "]"

    def bcons(i):
        return lambda d, i=i: "false"
    src = "/- GENERATED by harness/lifters/lifecycle.py from the fairlearn working tree. Do not edit. -/\n"
    src += "namespace Generated.LifecycleSrc\n\n"
    src += "/-- the analysed classes: " + "; ".join(f"{t} = {data[t]['cls']}" for t in tags) + " -/\n"
    src += "inductive EstCls where\n" + "".join(f"  | {t}\n" for t in tags) + "deriving DecidableEq, Repr\n\n"
    src += "def allClasses : List EstCls := [" + ", ".join("." + t for t in tags) + "]\n\n"
    src += table("ctorParams", "List String", lambda d: slist(d["params"]), "names of the `__init__` signature")
    src += table("fitAssigned", "List String", lambda d: slist(d["fitAssigned"]),
                 "`self.<name>` rebound somewhere in the closure of fit / partial_fit")
    src += table("fitMutated", "List String", lambda d: slist(d["fitMutated"]),
                 "`self.<name>[..] = ..` / `self.<name>.<a> = ..` somewhere in that closure")
    src += table("fitSelfEscapes", "List String", lambda d: slist(d["fitSelfEscapes"]),
                 "callees that receive the bare `self` in that closure")
    src += table("fitReturns", "List String", lambda d: slist(d["fitReturns"]),
                 "distinct return expressions of fit / partial_fit (`<end>` = the body can fall off its end)")
    src += table("fitReceivers", "List (String × List String)", recv,
                 "receivers of `.fit(..)` / `.partial_fit(..)` calls and where they were bound")
    src += table("fitHistoryReads", "List String", lambda d: slist(d["fitHistoryReads"]),
                 "fitted attributes that `fit` may read before it has definitely reassigned them")
    src += table("initDerivedReads", "List String", lambda d: slist(d["initDerivedReads"]),
                 "attributes read by `fit` or a prediction entry point that are neither parameters nor assigned outside `__init__`")
    src += table("fitDefinitelyAssigned", "List String", lambda d: slist(d["fitDefinitelyAssigned"]),
                 "fitted attributes that `fit` has (re)assigned on every path that returns normally")
    src += table("predictReads", "List String", lambda d: slist(d["predictReads"]),
                 "fitted attributes read by the closure of the prediction entry points")
    src += table("initDerivedDeps", "List (String × List String)",
                 lambda d: "[" + ", ".join(f"({lstr(a)}, {slist(ps)})" for a, ps in d["initDerivedDeps"]) + "]",
                 "attributes `__init__` sets that are not constructor parameters, with the parameters their value depends on")
    src += table("predictMethods", "List String", lambda d: slist(d["predictMethods"]), "prediction entry points present")
    src += table("predictAssigned", "List String", lambda d: slist(d["predictAssigned"]),
                 "`self.<name>` rebound or stored into in the closure of the prediction entry points")
    src += table("predictSelfEscapes", "List String", lambda d: slist(d["predictSelfEscapes"]),
                 "callees that receive the bare `self` in the closure of the prediction entry points")
    src += table("predictOtherCalls", "List String", lambda d: slist(d["predictOtherCalls"]),
                 "calls on attribute objects in that closure that are NOT followed (`<attr>.<method>`, `<attr>()`): the wrapped "
                 "estimators, the label transformer, the predictor function — the helper attribute of `helperAttr` is followed instead")
    src += table("predictValidateResets", "List String", lambda d: slist(d["predictValidateResets"]),
                 "methods of that closure that call `validate_data(self, ..)` WITHOUT `reset=False` (sklearn then rewrites "
                 "`n_features_in_` / `feature_names_in_` of the estimator from the array to predict on)")
    src += f"/-- some `load_data` under fairlearn/reductions/_moments refuses a second call ({', '.join(latch) or 'none'}) -/\n"
    src += f"def momentLatch : Bool := {'true' if latch else 'false'}\n\n"
    src += "/-- fit calls `load_data` on the object behind the `constraints` parameter itself -/\n"
    src += "def constraintsInPlace : EstCls → Bool\n" + "".join(
        f"  | .{t} => {'true' if cons[t][0] else 'false'}\n" for t in ("EG", "GS")) + "  | _ => false\n"
    src += "/-- fit loads a clone / deep copy of the `constraints` parameter -/\n"
    src += "def constraintsCopied : EstCls → Bool\n" + "".join(
        f"  | .{t} => {'true' if cons[t][1] else 'false'}\n" for t in ("EG", "GS")) + "  | _ => false\n\n"
    pre_refits, pre_alias = data["_toprefit"]
    src += "/-- `ThresholdOptimizer.fit`, prefit=True branch: something is `.fit(..)`-ed there -/\n"
    src += f"def toPrefitRefits : Bool := {'true' if pre_refits else 'false'}\n"
    src += "/-- … and `self.estimator_ = self.estimator` (the user's object is used as it is) -/\n"
    src += f"def toPrefitAliases : Bool := {'true' if pre_alias else 'false'}\n\n"
    est_h, hfacts = data["_helpers"]
    htags = lifecycle_helpers.HELPER_TAGS

    def plist(xs):
        return "[" + ", ".join(f"({lstr(a)}, {lstr(b)})" for a, b in xs) + "]"

    def htable(name, typ, fmt, doc):
        rows = "\n".join(f"  | .{t} => {fmt(hfacts[t])}" for t in htags)
        return f"/-- {doc} -/\ndef {name} : HelperCls → {typ}\n{rows}\n"
    src += ("/-- helper classes the closure of the prediction entry points is followed into: "
            + "; ".join(f"{t} = {hfacts[t]['cls']}" for t in htags)
            + " (IT is held by `ThresholdOptimizer.interpolated_thresholder_`, the engines by `_AdversarialFairness.backendEngine_`) -/\n")
    src += "inductive HelperCls where\n" + "".join(f"  | {t}\n" for t in htags) + "deriving DecidableEq, Repr\n\n"
    src += "def allHelpers : List HelperCls := [" + ", ".join("." + t for t in htags) + "]\n\n"
    src += "/-- the attribute of the estimator that holds the helper object (\"\" = the class delegates to no helper class) -/\n"
    src += "def helperAttr : EstCls → String\n" + "".join(f"  | .{t} => {lstr(est_h[t]['attr'])}\n" for t in tags)
    src += "/-- the helper classes behind that attribute (for the engines: the base class and every subclass) -/\n"
    src += "def helpersOf : EstCls → List HelperCls\n" + "".join(
        f"  | .{t} => [" + ", ".join("." + h for h in est_h[t]["helpers"]) + "]\n" for t in tags)
    src += "/-- methods the closure of the prediction entry points calls on the helper object (`self.<helperAttr>.<m>(..)`) -/\n"
    src += "def helperPredictCalls : EstCls → List String\n" + "".join(f"  | .{t} => {slist(est_h[t]['calls'])}\n" for t in tags)
    src += htable("helperPredictClosure", "List String", lambda d: slist(d["closure"]),
                  "`Class.method` for every method of the helper class (and its bases) reachable from those calls")
    src += htable("helperPredictWrites", "List String", lambda d: slist(d["writes"]),
                  "attributes of the helper object (`base.<a>`: of the estimator behind `self.base`) that this closure rebinds, "
                  "stores into in place, or mutates through a mutating method call (`<a>.<m>()`), also through local aliases")
    src += htable("helperPredictModeCalls", "List (String × String)", lambda d: plist(d["modes"]),
                  "train / eval MODE calls in that closure: (attribute, \"eval\" | \"train\"); keras `training=` included")
    src += htable("helperPredictForwardModes", "List (String × String)", lambda d: plist(d["forwardModes"]),
                  "(callable attribute that is called = forward pass, mode set unconditionally before it in the same call | \"unset\")")
    src += htable("helperPredictSelfEscapes", "List String", lambda d: slist(d["escapes"]),
                  "callees that receive the bare helper object in that closure")
    src += htable("helperPredictAttrArgs", "List String", lambda d: slist(d["attrArgs"]),
                  "`callee(attribute)`: functions (other than pure builtins / array constructors) that receive a helper attribute")
    src += htable("helperTrainStepForwardModes", "List (String × String)", lambda d: plist(d["trainForwardModes"]),
                  "the same for `train_step`, the fit-side method that runs the networks")
    src += "\n"
    src += "/-- `_AdversarialFairness.fit`: the value passed as `reinitialize` -/\n"
    src += f"def advReinit (has_classes warm_start : Bool) : Bool := {reinit}\n"
    src += "/-- `_validate_input`: the guard of `self.__setup(..)`; `is_fitted` = `hasattr(self, \"_is_setup\")` -/\n"
    src += f"def advSetupCond (is_fitted reinitialize : Bool) : Bool := {setup}\n"
    src += "/-- `BackendEngine.__init__`: keep the networks of the existing engine -/\n"
    src += f"def advKeepEngine (warm_start has_engine : Bool) : Bool := {keep}\n\n"
    src += "end Generated.LifecycleSrc\n"
    meta = {"classes": len(tags), "momentLatch": bool(latch),
            "paramsAssignedInFit": {t: sorted(set(data[t]["fitAssigned"]) & set(data[t]["params"])) for t in tags},
            "fitReturns": {t: data[t]["fitReturns"] for t in tags if t != "LAG"},
            "predictAssigned": {t: data[t]["predictAssigned"] for t in tags if data[t]["predictAssigned"]},
            "fitHistoryReads": {t: data[t]["fitHistoryReads"] for t in tags if data[t]["fitHistoryReads"]},
            "initDerivedReads": {t: data[t]["initDerivedReads"] for t in tags if data[t]["initDerivedReads"]},
            "constraints": {t: ("inPlace" if v[0] else "copied") for t, v in cons.items()},
            "adv": {"reinit": reinit, "setup": setup, "keep": keep},
            "predictValidateResets": {t: data[t]["predictValidateResets"] for t in tags if data[t]["predictValidateResets"]},
            "helperPredictCalls": {t: est_h[t]["calls"] for t in tags if est_h[t]["calls"]},
            "helperPredictClosure": {t: hfacts[t]["closure"] for t in htags},
            "helperPredictWrites": {t: hfacts[t]["writes"] for t in htags if hfacts[t]["writes"]},
            "helperPredictModeCalls": {t: hfacts[t]["modes"] for t in htags if hfacts[t]["modes"]}}
    return "LifecycleSrc.lean", src, meta
