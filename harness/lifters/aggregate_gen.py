"""Lifter for the BODIES of DisaggregatedResult.apply_grouping / difference / ratio
(fairlearn/metrics/_disaggregated_result.py) -> Generated/AggregateGen.lean

The three method bodies are symbolically executed, once per "world"
    (method in {between_groups, to_overall}) x (control features present / absent)        [difference, ratio]
    (errors in {raise, coerce})               x (control features present / absent)        [apply_grouping]
with an environment of local variables, and every pandas expression they build is translated into a
composition of the model primitives of `Model/AggregatePrim.lean`:

    self.apply_grouping("min"|"max", control_feature_names, errors=errors)   applyGrouping .min|.max e t
    self.by_group.apply(lambda x: x.apply(lambda y: y if np.isscalar(y) else np.nan))   Prim.coerced t
    self.by_group / self.overall  (used as numbers)                          Prim.byGroupNum t / Prim.overallNum t
    X - Y, X / Y                                                             Prim.bcast op t X Y   (group level  o stratum level)
                                                                             Prim.same  op   X Y   (same level)
    X.abs()                                                                  Prim.map XR.abs X
    X.apply(lambda c: c.transform(ratio_sub_one))                            Prim.map AggregateSpec.ratioSubOne X
    X.groupby(level=control_feature_names).max()|.min()|.agg(g)              Prim.aggLevel g t X
    X.max()|.min()|.agg(g, axis=0)     without control features              Prim.aggLevel g t X
                                       on an index that still has control levels   Prim.aggAll g X
    X.unstack(level=control_feature_names) ... .min().unstack(0)             layout only (tracked, must round-trip)

The result is `applyGroupingGen`, `differenceGen`, `ratioGen`; `Lemmas/AggregateGen.lean` proves them
equal to the hand-written `Aggregate.applyGrouping / difference / ratio` (theorems re-exported in
namespace C02), so dropping the `.abs()`, swapping "min"/"max", aggregating with the wrong function,
dropping the `groupby`, dividing the wrong way round ... breaks a named theorem.
Local variable names and the order of independent statements do not matter.  Everything that is not one of
the shapes above is refused (`translate.Untranslatable`)."""
import ast
import os

from .. import translate
from . import normalize

REL = "fairlearn/metrics/_disaggregated_result.py"


def U(msg):
    return translate.Untranslatable(f"{REL}: {msg}")


class Raised(Exception):
    """the interpreted body executed a `raise`"""


class T:
    """a lifted pandas value: op tree + index level ('G' group level, 'S' stratum level) + layout
    ('n' normal, 'u' control levels unstacked into the columns, 'm' reduced-while-unstacked)"""

    def __init__(self, op, args, level, layout="n"):
        self.op, self.args, self.level, self.layout = op, args, level, layout

    def key(self):
        """the lifted term itself (the layout bookkeeping is not part of it)"""
        return (self.op, tuple(a.key() if isinstance(a, T) else a for a in self.args), self.level)


class P:
    """the (never rebound) parameter `name` of the interpreted method, possibly reached through a local alias"""

    def __init__(self, name):
        self.name = name


class Grouped:
    """`X.groupby(level=control_feature_names)` not yet reduced"""

    def __init__(self, x):
        self.x = x


def bind_call(call, names, what):
    """bind the arguments of `call` against the positional-or-keyword parameter list `names` -> {name: node}
    (refuses *args / **kwargs, unknown or duplicate names)"""
    if len(call.args) > len(names) or any(isinstance(a, ast.Starred) for a in call.args):
        raise U(f"{what}: cannot bind the arguments of `{ast.unparse(call)[:60]}`")
    out = dict(zip(names, call.args))
    for k in call.keywords:
        if k.arg is None or k.arg not in names or k.arg in out:
            raise U(f"{what}: cannot bind the arguments of `{ast.unparse(call)[:60]}`")
        out[k.arg] = k.value
    return out


LEAVES = {"grouping", "coerced", "bygroup", "overall"}


def is_name(e, name):
    return isinstance(e, ast.Name) and e.id == name


def is_self_attr(e, attr):
    return isinstance(e, ast.Attribute) and e.attr == attr and is_name(e.value, "self")


def is_coerce_lambda(lam):
    """lambda x: x.apply(lambda y: y if np.isscalar(y) else np.nan)"""
    if not (isinstance(lam, ast.Lambda) and len(lam.args.args) == 1):
        return False
    x = lam.args.args[0].arg
    b = lam.body
    if not (isinstance(b, ast.Call) and isinstance(b.func, ast.Attribute) and b.func.attr == "apply"
            and is_name(b.func.value, x) and len(b.args) == 1 and not b.keywords):
        return False
    inner = b.args[0]
    if not (isinstance(inner, ast.Lambda) and len(inner.args.args) == 1):
        return False
    y = inner.args.args[0].arg
    ib = inner.body
    return (isinstance(ib, ast.IfExp) and is_name(ib.body, y) and ast.unparse(ib.test) == f"np.isscalar({y})"
            and ast.unparse(ib.orelse) == "np.nan")


def transform_lambda(lam):
    """lambda x: x.transform(<name>) -> name"""
    if not (isinstance(lam, ast.Lambda) and len(lam.args.args) == 1):
        return None
    x = lam.args.args[0].arg
    b = lam.body
    if (isinstance(b, ast.Call) and isinstance(b.func, ast.Attribute) and b.func.attr == "transform"
            and is_name(b.func.value, x) and len(b.args) == 1 and isinstance(b.args[0], ast.Name) and not b.keywords):
        return b.args[0].id
    return None


class Interp:
    def __init__(self, world, what, params=()):
        self.w = world      # dict: cf (bool), method (str|None), errors (str|None)
        self.what = what
        self.params = set(params)
        self.env = {p: P(p) for p in params}

    def is_param(self, e, name):
        """`e` is the parameter `name`, or a local alias of it"""
        if not isinstance(e, ast.Name):
            return False
        v = self.env.get(e.id)
        return isinstance(v, P) and v.name == name

    def param_name(self, e):
        v = self.env.get(e.id) if isinstance(e, ast.Name) else None
        return v.name if isinstance(v, P) else None

    # ------------------------------------------------------------------ conditions
    def cond(self, t):
        w = self.w
        if isinstance(t, ast.Compare) and len(t.ops) == 1 and isinstance(t.left, ast.Constant) \
                and isinstance(t.ops[0], (ast.Eq, ast.NotEq)) and isinstance(t.comparators[0], ast.Name):
            t = ast.Compare(left=t.comparators[0], ops=t.ops, comparators=[t.left])     # "c" == name  ->  name == "c"
        if isinstance(t, ast.Compare) and len(t.ops) == 1 and self.param_name(t.left) is not None:
            n, op, c = self.param_name(t.left), t.ops[0], t.comparators[0]
            if n in ("method", "errors") and isinstance(op, (ast.Eq, ast.NotEq)) and isinstance(c, ast.Constant) \
                    and isinstance(c.value, str):
                if w.get(n) is None:
                    raise U(f"{self.what}: branch on `{n}` where it is symbolic")
                r = (w[n] == c.value)
                return r if isinstance(op, ast.Eq) else not r
            if n == "control_feature_names" and isinstance(c, ast.Constant) and c.value is None:
                if isinstance(op, ast.Is):
                    return not w["cf"]
                if isinstance(op, ast.IsNot):
                    return w["cf"]
        if self.is_param(t, "control_feature_names"):
            return w["cf"]
        if isinstance(t, ast.UnaryOp) and isinstance(t.op, ast.Not):
            return not self.cond(t.operand)
        raise U(f"{self.what}: unsupported condition `{ast.unparse(t)}`")

    @staticmethod
    def is_guard(s):
        """`if <name> not in _VALID_...: raise ValueError(...)`  (argument validation, outside the model's enums)"""
        return (isinstance(s.test, ast.Compare) and len(s.test.ops) == 1 and isinstance(s.test.ops[0], ast.NotIn)
                and isinstance(s.test.left, ast.Name) and s.test.left.id in ("errors", "grouping_function", "method")
                and isinstance(s.test.comparators[0], ast.Name) and s.test.comparators[0].id.startswith("_VALID_")
                and len(s.body) == 1 and isinstance(s.body[0], ast.Raise) and not s.orelse)

    # ------------------------------------------------------------------ statements
    def block(self, stmts):
        for s in stmts:
            r = self.stmt(s)
            if r is not None:
                return r
        return None

    def stmt(self, s):
        if isinstance(s, ast.Expr) and isinstance(s.value, ast.Constant):
            return None
        if isinstance(s, ast.Assert):
            return None
        if isinstance(s, ast.FunctionDef):
            if s.name != "ratio_sub_one" or s.name in self.env:
                raise U(f"{self.what}: unexpected (or repeated) nested function {s.name}")
            self.env[s.name] = "fn:ratio_sub_one"
            return None
        if isinstance(s, ast.If):
            if self.is_guard(s):
                return None
            return self.block(s.body if self.cond(s.test) else s.orelse)
        if isinstance(s, ast.Raise):
            raise Raised()
        if isinstance(s, ast.Try):
            for h in s.handlers:
                if not (len(h.body) == 1 and isinstance(h.body[0], ast.Raise)):
                    raise U(f"{self.what}: an exception handler does more than re-raise")
            if s.finalbody or s.orelse:
                raise U(f"{self.what}: try/else/finally")
            return self.block(s.body)
        if isinstance(s, ast.Assign) and len(s.targets) == 1 and isinstance(s.targets[0], ast.Name):
            if s.targets[0].id in self.params or s.targets[0].id == "self":
                raise U(f"{self.what}: the parameter `{s.targets[0].id}` is rebound")
            self.env[s.targets[0].id] = self.expr(s.value)
            return None
        if isinstance(s, ast.Return):
            if s.value is None:
                raise U(f"{self.what}: bare return")
            return self.expr(s.value)
        raise U(f"{self.what}: unsupported statement `{ast.unparse(s)[:80]}`")

    # ------------------------------------------------------------------ expressions
    def grouping_arg(self, e):
        if isinstance(e, ast.Constant) and e.value in ("min", "max"):
            return "." + e.value
        if self.is_param(e, "grouping_function") and self.what == "apply_grouping":
            return "g"
        raise U(f"{self.what}: grouping function `{ast.unparse(e)}`")

    def is_cf_level_kw(self, call):
        return (not call.args and len(call.keywords) == 1 and call.keywords[0].arg == "level"
                and self.is_param(call.keywords[0].value, "control_feature_names"))

    def agg_function(self, call, grouped):
        """the grouping function of `.agg(func[, axis=0])` (DataFrame / Series: axis 0 is the default) resp. of
        `<groupby>.agg(func)`; positional or keyword"""
        b = bind_call(call, ["func"] if grouped else ["func", "axis"], self.what)
        if "func" not in b:
            raise U(f"{self.what}: unsupported agg `{ast.unparse(call)[:60]}`")
        ax = b.get("axis")
        if ax is not None and not (isinstance(ax, ast.Constant) and ax.value == 0 and not isinstance(ax.value, bool)):
            raise U(f"{self.what}: unsupported agg `{ast.unparse(call)[:60]}`")
        return self.grouping_arg(b["func"])

    def reduce(self, g, x, grouped):
        if not isinstance(x, T):
            raise U(f"{self.what}: reduction of a non-frame")
        if grouped:
            if not self.w["cf"]:
                raise U(f"{self.what}: groupby(level=control_feature_names) reached without control features")
            if x.level != "G" or x.layout != "n":
                raise U(f"{self.what}: groupby on a value that is not at group level")
            return T("aggLevel", [g, x], "S")
        if x.level != "G":
            raise U(f"{self.what}: reduction of a value that is already at stratum level")
        if x.layout == "u":
            return T("aggLevel", [g, x], "S", "m")          # column-wise over the unstacked control levels
        if x.layout != "n":
            raise U(f"{self.what}: reduction of an oddly shaped value")
        if self.w["cf"]:
            return T("aggAll", [g, x], "S")
        return T("aggLevel", [g, x], "S")

    def expr(self, e):
        what = self.what
        if isinstance(e, ast.Constant) and e.value is None:
            return None
        if isinstance(e, ast.Name):
            if e.id not in self.env:
                raise U(f"{what}: unknown name `{e.id}`")
            return self.env[e.id]       # a T, a Grouped, None, "fn:..." or a P (alias of a parameter)
        if is_self_attr(e, "overall"):
            return T("overall", [], "S")
        if is_self_attr(e, "by_group"):
            return T("bygroup", [], "G")
        if isinstance(e, ast.BinOp):
            op = {ast.Sub: "XR.sub", ast.Div: "XR.div"}.get(type(e.op))
            if op is None:
                raise U(f"{what}: unsupported operator in `{ast.unparse(e)[:60]}`")
            a, b = self.expr(e.left), self.expr(e.right)
            if not (isinstance(a, T) and isinstance(b, T)):
                raise U(f"{what}: arithmetic on a non-frame in `{ast.unparse(e)[:60]}`")
            if a.layout != b.layout or a.layout == "m":
                raise U(f"{what}: operands of `{ast.unparse(e)[:60]}` have different layouts")
            if a.level == "G" and b.level == "S":
                return T("bcast", [op, a, b], "G", a.layout)
            if a.level == b.level:
                return T("same", [op, a, b], a.level, a.layout)
            raise U(f"{what}: stratum-level value combined with a group-level right operand")
        if isinstance(e, ast.Call) and isinstance(e.func, ast.Attribute):
            attr, recv = e.func.attr, e.func.value
            # self.apply_grouping("min", control_feature_names, errors=errors)
            if attr == "apply_grouping" and is_name(recv, "self"):
                if what == "apply_grouping":
                    raise U("apply_grouping calls itself")
                b = bind_call(e, ["grouping_function", "control_feature_names", "errors"], what)
                if not (len(b) == 3 and self.is_param(b["control_feature_names"], "control_feature_names")
                        and self.is_param(b["errors"], "errors")):
                    raise U(f"{what}: apply_grouping is not called with (g, control_feature_names, errors=errors)")
                return T("grouping", [self.grouping_arg(b["grouping_function"])], "S")
            if attr == "apply" and len(e.args) == 1 and not e.keywords and isinstance(e.args[0], ast.Lambda):
                lam = e.args[0]
                if is_coerce_lambda(lam):
                    if not is_self_attr(recv, "by_group"):
                        raise U(f"{what}: the isscalar-coercion is applied to something else than self.by_group")
                    return T("coerced", [], "G")
                f = transform_lambda(lam)
                if f is not None:
                    if self.env.get(f) != "fn:ratio_sub_one":
                        raise U(f"{what}: transform function `{f}` is not the nested ratio_sub_one")
                    x = self.expr(recv)
                    if not isinstance(x, T):
                        raise U(f"{what}: transform of a non-frame")
                    return T("map", ["AggregateSpec.ratioSubOne", x], x.level, x.layout)
                raise U(f"{what}: unsupported lambda in .apply")
            if attr == "abs" and not e.args and not e.keywords:
                x = self.expr(recv)
                if not isinstance(x, T):
                    raise U(f"{what}: abs of a non-frame")
                return T("map", ["XR.abs", x], x.level, x.layout)
            if attr == "unstack":
                x = self.expr(recv)
                if not isinstance(x, T):
                    raise U(f"{what}: unstack of a non-frame")
                lv = bind_call(e, ["level"], what).get("level")
                if lv is not None and self.is_param(lv, "control_feature_names"):
                    if not self.w["cf"] or x.layout != "n":
                        raise U(f"{what}: unstack(level=control_feature_names) in an unexpected place")
                    return T(x.op, x.args, x.level, "u")
                if isinstance(lv, ast.Constant) and lv.value == 0 and not isinstance(lv.value, bool):
                    if x.layout != "m":
                        raise U(f"{what}: unstack(0) of a value that is not a column-wise reduction of an unstacked frame")
                    return T(x.op, x.args, x.level, "n")
                raise U(f"{what}: unsupported unstack `{ast.unparse(e)[:60]}`")
            if attr == "groupby":
                if not self.is_cf_level_kw(e):
                    raise U(f"{what}: groupby is not by level=control_feature_names")
                x = self.expr(recv)
                if not isinstance(x, T):
                    raise U(f"{what}: groupby of a non-frame")
                return Grouped(x)
            if attr in ("min", "max") and not e.args and not e.keywords:
                x = self.expr(recv)
                if isinstance(x, Grouped):
                    return self.reduce("." + attr, x.x, True)
                return self.reduce("." + attr, x, False)
            if attr == "agg":
                x = self.expr(recv)
                if isinstance(x, Grouped):
                    return self.reduce(self.agg_function(e, True), x.x, True)
                return self.reduce(self.agg_function(e, False), x, False)
        raise U(f"{what}: unsupported expression `{ast.unparse(e)[:80]}`")


# ---------------------------------------------------------------------- Lean emission
LEAF_LEAN = {"coerced": "Prim.coerced t", "bygroup": "Prim.byGroupNum t", "overall": "Prim.overallNum t"}


def emit(term):
    """T -> (list of leaf binders in first-evaluation order, pure Lean expression)"""
    binds, names = [], {}

    def go(x):
        if x.op in LEAVES:
            k = x.key()[:2]
            if k not in names:
                names[k] = f"v{len(names) + 1}"
                src = f"applyGrouping {x.args[0]} e t" if x.op == "grouping" else LEAF_LEAN[x.op]
                binds.append((names[k], src))
            return names[k]
        if x.op in ("bcast",):
            a, b = go(x.args[1]), go(x.args[2])
            return f"(Prim.bcast {x.args[0]} t {a} {b})"
        if x.op == "same":
            a, b = go(x.args[1]), go(x.args[2])
            return f"(Prim.same {x.args[0]} {a} {b})"
        if x.op == "map":
            return f"(Prim.map {x.args[0]} {go(x.args[1])})"
        if x.op == "aggLevel":
            return f"(Prim.aggLevel {x.args[0]} t {go(x.args[1])})"
        if x.op == "aggAll":
            return f"(Prim.aggAll {x.args[0]} {go(x.args[1])})"
        raise U(f"cannot emit {x.op}")

    body = go(term)
    return binds, body


def do_block(term, ind):
    binds, body = emit(term)
    pad = " " * ind
    if body.startswith("(") and body.endswith(")"):
        body = body[1:-1]
    return "do\n" + "".join(f"{pad}let {n} ← {src}\n" for n, src in binds) + f"{pad}pure ({body})"


MODULE_FNS = "<module-level functions>"


def run_world(fn, what, world, module_fns=()):
    it = Interp(world, what, [a.arg for a in fn.args.args if a.arg != "self"])
    if "ratio_sub_one" in module_fns:       # hoisted out of `ratio` under the same name (lifters/aggregate.py lifts its body)
        it.env["ratio_sub_one"] = "fn:ratio_sub_one"
    try:
        r = it.block(fn.body)
    except Raised:
        raise U(f"{what}: the {world} path ends in a raise")
    if not isinstance(r, T):
        raise U(f"{what}: the {world} path does not return a frame")
    if r.level != "S" or r.layout != "n":
        raise U(f"{what}: the {world} path returns a value that is not indexed by the control levels "
                f"(level {r.level}, layout {r.layout})")
    return r


def branch(fn, what, fixed, module_fns=()):
    """lift one (method|errors) branch in both control-feature worlds; merge when the terms agree"""
    a = run_world(fn, what, dict(fixed, cf=False), module_fns)
    b = run_world(fn, what, dict(fixed, cf=True), module_fns)
    if a.key() == b.key():
        return do_block(a, 4), False
    return (f"if t.ncf = 0 then {do_block(a, 6)}\n    else {do_block(b, 6)}"), True


def check_sig(fn, what, names):
    got = [a.arg for a in fn.args.args]
    if got != names or fn.args.vararg or fn.args.kwarg or fn.args.kwonlyargs:
        raise U(f"{what}: signature {got}, expected {names}")


def parse_methods(repo):
    src = open(os.path.join(repo, REL)).read()
    tree = normalize.parse(src)
    cls = next((n for n in tree.body if isinstance(n, ast.ClassDef) and n.name == "DisaggregatedResult"), None)
    if cls is None:
        raise U("class DisaggregatedResult not found")
    meth = {n.name: n for n in cls.body if isinstance(n, ast.FunctionDef)}
    for nm in ("apply_grouping", "difference", "ratio"):
        if nm not in meth:
            raise U(f"{nm} not found")
    top = [n.name for n in tree.body if isinstance(n, ast.FunctionDef)]
    meth[MODULE_FNS] = {n for n in top if top.count(n) == 1}
    check_sig(meth["apply_grouping"], "apply_grouping", ["self", "grouping_function", "control_feature_names", "errors"])
    check_sig(meth["difference"], "difference", ["self", "control_feature_names", "method", "errors"])
    check_sig(meth["ratio"], "ratio", ["self", "control_feature_names", "method", "errors"])
    return meth


def world_terms(repo):
    """{(method name, branch, control features present?): lifted term} for difference and ratio
    (used by lifters/aggregate.py to read the grouping constants of `AggregateSpec` off the same terms)"""
    meth = parse_methods(repo)
    out = {}
    for nm in ("difference", "ratio"):
        for m in ("between_groups", "to_overall"):
            for cf in (False, True):
                out[nm, m, cf] = run_world(meth[nm], nm, {"method": m, "errors": None, "cf": cf}, meth[MODULE_FNS])
    return out


@translate.lifter
def lift(repo):
    meth = parse_methods(repo)
    split = {}
    ag = {}
    for e in ("raise", "coerce"):
        ag[e], split[f"apply_grouping/{e}"] = branch(meth["apply_grouping"], "apply_grouping", {"errors": e, "method": None})
    out = {}
    for nm in ("difference", "ratio"):
        for m in ("between_groups", "to_overall"):
            out[nm, m], split[f"{nm}/{m}"] = branch(meth[nm], nm, {"method": m, "errors": None}, meth[MODULE_FNS])
    lean = f"""-- GENERATED by harness/lifters/aggregate_gen.py from {REL}; do not edit.
import FairModel.Model.AggregatePrim

namespace AggregateGen
open Aggregate

/-- body of `DisaggregatedResult.apply_grouping` -/
def applyGroupingGen (g : Grouping) (e : Errors) (t : Tables) : Option Series :=
  match e with
  | .raise => {ag['raise']}
  | .coerce => {ag['coerce']}

/-- body of `DisaggregatedResult.difference` -/
def differenceGen (m : Method) (e : Errors) (t : Tables) : Option Series :=
  match m with
  | .between => {out['difference', 'between_groups']}
  | .toOverall => {out['difference', 'to_overall']}

/-- body of `DisaggregatedResult.ratio` -/
def ratioGen (m : Method) (e : Errors) (t : Tables) : Option Series :=
  match m with
  | .between => {out['ratio', 'between_groups']}
  | .toOverall => {out['ratio', 'to_overall']}

end AggregateGen
"""
    meta = {"source": REL, "bodies": ["apply_grouping", "difference", "ratio"],
            "worlds_that_differ_by_control_features": sorted(k for k, v in split.items() if v)}
    return "AggregateGen.lean", lean, meta
