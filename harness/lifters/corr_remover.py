"""Lifter for C15: fairlearn/preprocessing/_correlation_remover.py.

`fit` and `transform` are evaluated SYMBOLICALLY (locals are inlined in statement order), so the result does not
depend on the names of temporaries or on the order of independent statements.  From the inlined expressions it
regenerates lean/FairModel/Generated/CorrRemoverSrc.lean:

  fitMeanKind        what `self.sensitive_mean_` is: `<sensitive block>.mean(axis=0)` (per column) or `.mean()` (grand mean)
  fitCenter          the entry-wise centring expression of the first lstsq operand (operand order of the subtraction)
  (checked)          lstsq(A, b): A = the centred sensitive block, b = the other columns; beta_ = first result
  lstsqRcond         the rcond of that call: `none` for None / omitted, `some q` for a numeric literal, anything else refused
  transformMean      whether `transform` centres with the STORED `self.sensitive_mean_` or recomputes a mean from its input
  transformCenter    the entry-wise centring expression inside `transform`
  outEntry           the entry-wise output as a function of (alpha, use, proj) where proj = (centred sensitive row)·beta_
                     (i.e. `alpha * (use - proj) + (1 - alpha) * use`, operand order as written)
  sensitiveIdx       `[self.lookup_[i] for i in self.sensitive_feature_ids]`
  nonSensitiveIdx    `[i for i in range(X.shape[1]) if i not in sensitive]`
  (checked)          `_split_X` returns (X[:, non_sensitive], X[:, sensitive]); `_create_lookup` maps a DataFrame's column
                     names to their positions and an array's positions to themselves
Anything else is refused."""
import ast
import copy
import os

from .. import translate
from . import normalize

REL = "fairlearn/preprocessing/_correlation_remover.py"


# name of the generated definition -> (the term emitted for the pinned source, the source text quoted in its doc comment).
# When the lifted term IS the pinned term (modulo the operand order of numeric `+` / `*`, normalize.lean_prefer) the pinned
# term and quotation are emitted: a re-spelling of the same definition (renamed local or comprehension variable, `np.mean(x)`
# for `x.mean()`, commuted summands) leaves the generated file byte-identical.  Any other term is emitted with the actual text.
PINNED_DEFS = {
    "fitMeanKind": (".perColumn", "self.sensitive_mean_ = SENS.mean(axis=0)"),
    "fitCenter": ("(s - mean)", "np.linalg.lstsq(SENS - (self.sensitive_mean_), USE)  -- first operand, entry-wise"),
    "transformMean": (".stored", "centring vector of transform: SENS - self.sensitive_mean_"),
    "transformCenter": ("(s - mean)", "SENS - self.sensitive_mean_"),
    "outEntry": ("((alpha * (use - proj)) + (((1 : Rat) - alpha) * use))",
                 "return self.alpha * np.atleast_2d(USE - PROJ) + (1 - self.alpha) * np.atleast_2d(USE)   "
                 "with PROJ = (centred sensitive).dot(self.beta_)"),
    "lookupDataFrame": ("dictGet (columns.zipIdx.map (fun p => (p.1, p.2))) key",
                        "DataFrame: self.lookup_ = {c: i for i, c in enumerate(X.columns)}   (column names as code numbers)"),
    "lookupArray": ("dictGet (((List.range m).map (fun i => (i, i))).map (fun p => (p.1, p.1))) key",
                    "ndarray: self.lookup_ = {i: i for i in range(X.shape[1])}"),
    "sensitiveIdx": ("(ids.map (fun i => lookup i))", "sensitive = [self.lookup_[i] for i in self.sensitive_feature_ids]"),
    "nonSensitiveIdx": ("(((List.range m).filter (fun i => !(sensitive.contains i))).map (fun i => i))",
                        "non_sensitive = [i for i in range(X.shape[1]) if i not in sensitive]"),
}
BOUND = "i"      # the bound variable of an emitted `fun` (the comprehension variable of the source may have any name)


class _U(translate.Untranslatable):
    pass


def _src(n):
    return ast.unparse(n)


def _bad(msg):
    raise _U("C15 lifter: " + msg)


def _strip_doc(body):
    return [s for s in body if not (isinstance(s, ast.Expr) and isinstance(s.value, ast.Constant) and isinstance(s.value.value, str))]


class _Subst(ast.NodeTransformer):
    def __init__(self, env):
        self.env = env

    def visit_Name(self, node):
        if isinstance(node.ctx, ast.Load) and node.id in self.env:
            return copy.deepcopy(self.env[node.id])
        return node

    def visit_Attribute(self, node):
        key = _src(node)
        if isinstance(node.ctx, ast.Load) and key in self.env:
            return copy.deepcopy(self.env[key])
        return self.generic_visit(node)


def _sym(name):
    return ast.Name(id=name, ctx=ast.Load())


def split_method(fns):
    """name of the private method that cuts X into the two column blocks: the one `fit` calls as `a, b = self.<m>(X)`
    (pinned name `_split_X`; a renamed private method is the same method)"""
    names = set()
    for st in fns["fit"].body:
        if isinstance(st, ast.Assign) and len(st.targets) == 1 and isinstance(st.targets[0], ast.Tuple) and len(st.targets[0].elts) == 2 \
                and isinstance(st.value, ast.Call) and isinstance(st.value.func, ast.Attribute) and _src(st.value.func.value) == "self" \
                and [_src(a) for a in st.value.args] == ["X"] and not st.value.keywords:
            names.add(st.value.func.attr)
    if len(names) != 1 or next(iter(names)) not in fns:
        _bad(f"fit does not split X by exactly one `a, b = self.<method>(X)` call of a method of the class: {sorted(names)}")
    return next(iter(names))


def symbolic(fn, split_roles, what, split="_split_X"):
    """inline the straight-line body of `fn`; returns (env, return expression)."""
    env = {}
    ret = None
    for st in _strip_doc(fn.body):
        if isinstance(st, ast.Return):
            ret = _Subst(env).visit(copy.deepcopy(st.value)) if st.value is not None else None
            break
        if isinstance(st, ast.Expr) and isinstance(st.value, ast.Call):
            f = _src(st.value.func)
            if f in ("check_is_fitted", "self._check_sensitive_features_in_X", "self._create_lookup") \
                    or f.split(".")[0] in ("logger", "logging", "warnings"):
                continue
            _bad(f"{what}: unexpected call statement `{_src(st)[:80]}`")
        if isinstance(st, ast.If):
            # only the feature-count guard of transform: `if ...: raise ValueError(...)`
            if not st.orelse and len(st.body) == 1 and isinstance(st.body[0], ast.Raise):
                continue
            a, b = (st.body[0], st.orelse[0]) if len(st.body) == 1 and len(st.orelse) == 1 else (None, None)
            if isinstance(a, ast.Assign) and isinstance(b, ast.Assign) and len(a.targets) == 1 and len(b.targets) == 1 \
                    and _src(a.targets[0]) == _src(b.targets[0]) and isinstance(a.targets[0], (ast.Name, ast.Attribute)):
                # `if c: t = x  else: t = y`  is  `t = x if c else y`
                st = ast.Assign(targets=[a.targets[0]], value=ast.IfExp(test=st.test, body=a.value, orelse=b.value))
            else:
                _bad(f"{what}: unexpected if-statement `{_src(st)[:80]}`")
        if not (isinstance(st, ast.Assign) and len(st.targets) == 1):
            _bad(f"{what}: unexpected statement `{_src(st)[:80]}`")
        tgt, val = st.targets[0], st.value
        if isinstance(val, ast.Call) and _src(val.func) == "validate_data" and len(val.args) == 2 \
                and _src(val.args[0]) == "self" and _src(val.args[1]) == "X" and _src(tgt) == "X":
            continue      # X = validate_data(self, X): same matrix as ndarray
        if isinstance(val, ast.Call) and _src(val.func) == "self." + split:
            if not (isinstance(tgt, ast.Tuple) and len(tgt.elts) == 2 and all(isinstance(e, ast.Name) for e in tgt.elts)
                    and [_src(a) for a in val.args] == ["X"] and not val.keywords):
                _bad(f"{what}: `_split_X` call of unknown shape: {_src(st)}")
            for e, role in zip(tgt.elts, split_roles):
                env[e.id] = _sym(role)
            continue
        v = _Subst(env).visit(copy.deepcopy(val))
        if isinstance(tgt, ast.Name):
            env[tgt.id] = v
        elif isinstance(tgt, ast.Attribute) and _src(tgt.value) == "self":
            env[_src(tgt)] = v
        elif isinstance(tgt, ast.Tuple) and all(isinstance(e, (ast.Name, ast.Attribute)) for e in tgt.elts):
            env["(" + ", ".join(_src(e) for e in tgt.elts) + ")"] = v
        else:
            _bad(f"{what}: unexpected assignment target `{_src(tgt)}`")
    return env, ret


# ------------------------------------------------------------------------------------------- entry-wise arithmetic
def arith(node, atoms, what):
    """+ - * over atoms (dict: canonical source text -> Lean name) and integer / float constants"""
    key = _src(node)
    if key in atoms:
        return atoms[key]
    if isinstance(node, ast.BinOp) and type(node.op) in (ast.Add, ast.Sub, ast.Mult):
        op = {ast.Add: "+", ast.Sub: "-", ast.Mult: "*"}[type(node.op)]
        return f"({arith(node.left, atoms, what)} {op} {arith(node.right, atoms, what)})"
    if isinstance(node, ast.UnaryOp) and isinstance(node.op, ast.USub):
        return f"(-{arith(node.operand, atoms, what)})"
    if isinstance(node, ast.Constant) and isinstance(node.value, int) and not isinstance(node.value, bool):
        return f"({node.value} : Rat)"
    if isinstance(node, ast.Constant) and isinstance(node.value, float) and node.value == int(node.value):
        return f"({int(node.value)} : Rat)"
    if isinstance(node, ast.Call) and _src(node.func) in ("np.atleast_2d", "numpy.atleast_2d", "np.asarray", "np.array") \
            and len(node.args) == 1 and not node.keywords:
        return arith(node.args[0], atoms, what)      # identity on a 2-d block
    _bad(f"{what}: cannot translate `{key[:100]}` entry-wise")


def classify_mean(node, what):
    """SENS.mean(axis=0) | np.mean(SENS, axis=0) -> perColumn ; SENS.mean() | np.mean(SENS) -> grand"""
    if isinstance(node, ast.Call):
        f = node.func
        if isinstance(f, ast.Attribute) and f.attr == "mean" and _src(f.value) == "SENS" and not node.args:
            kws = {k.arg: _src(k.value) for k in node.keywords}
        elif _src(f) in ("np.mean", "numpy.mean") and len(node.args) == 1 and _src(node.args[0]) == "SENS":
            kws = {k.arg: _src(k.value) for k in node.keywords}
        else:
            return None
        if kws == {"axis": "0"}:
            return "perColumn"
        if kws == {} or kws == {"axis": "None"}:
            return "grand"
        _bad(f"{what}: mean with arguments {kws}")
    return None


def find_means(node, what):
    """all mean sub-expressions of the sensitive block inside `node`: list of (source text, kind)"""
    out = []
    for n in ast.walk(node):
        k = classify_mean(n, what)
        if k:
            out.append((_src(n), k))
    return out


def center_expr(node, mean_atoms, what):
    """entry-wise expression over `s` (entry of the sensitive block) and `mean`"""
    atoms = {"SENS": "s"}
    atoms.update({k: "mean" for k in mean_atoms})
    return arith(node, atoms, what)


# ------------------------------------------------------------------------------------------- _split_X, _create_lookup
def comprehension(node, env_names, what):
    """[ELT for v in ITER if COND] -> Lean list expression"""
    if not (isinstance(node, ast.ListComp) and len(node.generators) == 1 and not node.generators[0].is_async
            and isinstance(node.generators[0].target, ast.Name)):
        _bad(f"{what}: not a simple list comprehension: {_src(node)[:80]}")
    g = node.generators[0]
    v = g.target.id

    def it(n):
        s = _src(n)
        if s in ("range(X.shape[1])", "range(len(X[0]))"):
            return "(List.range m)"
        if s == "self.sensitive_feature_ids":
            return "ids"
        if isinstance(n, ast.Call) and _src(n.func) == "reversed" and len(n.args) == 1:
            return f"({it(n.args[0])}).reverse"
        _bad(f"{what}: unknown iteration source `{s}`")
    e = it(g.iter)
    for c in g.ifs:
        ok = isinstance(c, ast.Compare) and len(c.ops) == 1 and _src(c.left) == v and isinstance(c.comparators[0], ast.Name) \
            and c.comparators[0].id in env_names
        if not ok:
            _bad(f"{what}: unknown filter `{_src(c)}`")
        nm = env_names[c.comparators[0].id]
        if isinstance(c.ops[0], ast.NotIn):
            e = f"({e}.filter (fun {BOUND} => !({nm}.contains {BOUND})))"
        elif isinstance(c.ops[0], ast.In):
            e = f"({e}.filter (fun {BOUND} => {nm}.contains {BOUND}))"
        else:
            _bad(f"{what}: unknown filter `{_src(c)}`")
    elt = _src(node.elt)
    if elt == v:
        body = BOUND
    elif elt == f"self.lookup_[{v}]":
        body = f"lookup {BOUND}"
    else:
        _bad(f"{what}: unknown element expression `{elt}`")
    return f"({e}.map (fun {BOUND} => {body}))"


def lift_split(cls, split="_split_X"):
    fn = [f for f in cls.body if isinstance(f, ast.FunctionDef) and f.name == split]
    if len(fn) != 1:
        _bad("_split_X not found")
    body = _strip_doc(fn[0].body)
    # `t = X[:, <list>]` temporaries (assigned once, after the two lists) are substituted into the return
    lists = {s.targets[0].id for s in body if isinstance(s, ast.Assign) and len(s.targets) == 1
             and isinstance(s.targets[0], ast.Name) and isinstance(s.value, ast.ListComp)}
    temps, rest = {}, []
    for st in body:
        if len(rest) >= 2 and isinstance(st, ast.Assign) and len(st.targets) == 1 and isinstance(st.targets[0], ast.Name) \
                and st.targets[0].id not in temps and st.targets[0].id not in lists | {"X", "self"} \
                and isinstance(st.value, ast.Subscript) and _src(st.value.value) == "X":
            temps[st.targets[0].id] = st.value
        else:
            rest.append(st)
    if temps and rest and isinstance(rest[-1], ast.Return) and rest[-1].value is not None:
        rest[-1] = ast.Return(value=_Subst(temps).visit(copy.deepcopy(rest[-1].value)))
    body = rest
    if not (len(body) == 3 and all(isinstance(s, ast.Assign) and len(s.targets) == 1 and isinstance(s.targets[0], ast.Name)
                                   for s in body[:2]) and isinstance(body[2], ast.Return)):
        _bad(f"_split_X: expected two list definitions and a return, got {[_src(s)[:40] for s in body]}")
    a, b, ret = body
    defs = {}
    sens_name = kept_name = None
    for st in (a, b):
        nm = st.targets[0].id
        src = _src(st.value)
        if "self.lookup_" in src:
            if sens_name:
                _bad("_split_X: two lookups")
            sens_name = nm
            defs[nm] = (comprehension(st.value, {}, "_split_X/sensitive"), _src(st))
        else:
            kept_name = nm
    if not sens_name or not kept_name or a.targets[0].id != sens_name:
        _bad("_split_X: the sensitive positions must be looked up first, the other positions derived from them")
    defs[kept_name] = (comprehension(b.value, {sens_name: "sensitive"}, "_split_X/non-sensitive"), _src(b))
    if not (isinstance(ret.value, ast.Tuple) and len(ret.value.elts) == 2):
        _bad(f"_split_X: return of unknown shape: {_src(ret)}")
    roles = []
    for e in ret.value.elts:
        s = _src(e)
        if s == f"X[:, {kept_name}]":
            roles.append("USE")
        elif s == f"X[:, {sens_name}]":
            roles.append("SENS")
        else:
            _bad(f"_split_X: returns `{s}`")
    if sorted(roles) != ["SENS", "USE"]:
        _bad(f"_split_X: returns {roles}")
    return roles, defs[sens_name], defs[kept_name]


def _dict_comp(node, what):
    """{K: V for TARGET in ITER} -> Lean association list (entries in iteration order; later entries win on lookup)"""
    if not (isinstance(node, ast.DictComp) and len(node.generators) == 1 and not node.generators[0].ifs):
        _bad(f"{what}: not a simple dict comprehension: {_src(node)[:80]}")
    g = node.generators[0]
    it, tg = _src(g.iter), g.target
    if it == "enumerate(X.columns)" and isinstance(tg, ast.Tuple) and len(tg.elts) == 2 and all(isinstance(e, ast.Name) for e in tg.elts):
        src, names = "columns.zipIdx", {tg.elts[0].id: "p.2", tg.elts[1].id: "p.1"}      # (index, element) = (p.2, p.1)
    elif it == "range(X.shape[1])" and isinstance(tg, ast.Name):
        src, names = "((List.range m).map (fun i => (i, i)))", {tg.id: "p.1"}
    else:
        _bad(f"{what}: unknown iteration `{_src(g.target)} in {it}`")
    k, v = _src(node.key), _src(node.value)
    if k not in names or v not in names:
        _bad(f"{what}: key / value `{k}: {v}` are not the loop variables")
    return f"({src}.map (fun p => ({names[k]}, {names[v]})))"


def lift_lookup(cls):
    fn = [f for f in cls.body if isinstance(f, ast.FunctionDef) and f.name == "_create_lookup"]
    if len(fn) != 1:
        _bad("_create_lookup not found")
    assigns = [n for n in ast.walk(fn[0]) if isinstance(n, ast.Assign) and _src(n.targets[0]) == "self.lookup_"]
    if len(assigns) != 2:
        _bad(f"_create_lookup: expected two lookup tables (DataFrame / array), found {len(assigns)}")
    df = [n for n in fn[0].body if isinstance(n, ast.If) and _src(n.test) == "isinstance(X, pd.DataFrame)"]
    if len(df) != 1 or df[0].orelse:
        _bad("_create_lookup: no `if isinstance(X, pd.DataFrame):` branch")
    in_df = [a for a in assigns if any(a is n for n in ast.walk(df[0]))]
    rest = [a for a in assigns if a not in in_df]
    if len(in_df) != 1 or len(rest) != 1 or not isinstance(df[0].body[-1], ast.Return):
        _bad("_create_lookup: the by-name table must be built (and returned from) under the DataFrame branch")
    return (_dict_comp(in_df[0].value, "_create_lookup/DataFrame"), _src(in_df[0].value)), \
           (_dict_comp(rest[0].value, "_create_lookup/array"), _src(rest[0].value))


# ------------------------------------------------------------------------------------------- fit / transform
def lift_fit(fn, roles, split="_split_X"):
    env, ret = symbolic(fn, roles, "fit", split)
    if ret is None or _src(ret) != "self":
        _bad("fit: does not return self")
    # beta_
    beta = None
    for k, v in env.items():
        if k.startswith("(self.beta_,"):
            beta = v
        if k == "self.beta_":
            if isinstance(v, ast.Subscript) and _src(v.slice) == "0":
                beta = v.value
            else:
                _bad(f"fit: self.beta_ = `{_src(v)[:80]}`")
    if beta is None or not (isinstance(beta, ast.Call) and _src(beta.func) in ("np.linalg.lstsq", "numpy.linalg.lstsq")):
        _bad("fit: beta_ is not the first result of np.linalg.lstsq")
    rcond, rcond_src = _lstsq_rcond(beta)
    A, b = beta.args[:2]
    if _src(b) != "USE":
        _bad(f"fit: second lstsq operand is `{_src(b)[:60]}`, not the non-sensitive columns")
    # the stored mean
    m = env.get("self.sensitive_mean_")
    if m is None:
        _bad("fit: self.sensitive_mean_ is not assigned")
    guard = False
    if isinstance(m, ast.IfExp):
        if _src(m.test) == "SENS.shape[1] == 0" and _src(m.body) in ("np.array([])", "numpy.array([])"):
            m, guard = m.orelse, True
        elif _src(m.test) == "SENS.shape[1] != 0" and _src(m.orelse) in ("np.array([])", "numpy.array([])"):
            m, guard = m.body, True
        else:
            _bad(f"fit: conditional sensitive_mean_ of unknown shape: {_src(m)[:100]}")
    kind = classify_mean(m, "fit")
    if kind is None:
        _bad(f"fit: self.sensitive_mean_ = `{_src(m)[:80]}` is not a mean of the sensitive block")
    # A = centred sensitive block, written with the stored mean (inlined)
    full_mean_src = _src(env["self.sensitive_mean_"])
    means = {full_mean_src, _src(m)}
    A2 = copy.deepcopy(A)
    expr = center_expr(A2, means, "fit/centring")
    if "mean" not in expr or "s" not in expr.replace("mean", ""):
        _bad(f"fit: first lstsq operand `{_src(A)[:80]}` does not combine the sensitive block with its mean")
    extra = [t for t, _ in find_means(A, "fit") if t not in means]
    if extra:
        _bad(f"fit: first lstsq operand uses another mean: {extra}")
    return dict(kind=kind, center=expr, guard=guard, src_mean=_src(m), src_A=_src(A).replace(full_mean_src, "self.sensitive_mean_"),
                rcond=rcond, src_rcond=rcond_src)


def _lstsq_rcond(call):
    """The `rcond` of `np.linalg.lstsq(a, b, rcond=None)` (numpy signature: a, b, rcond).  -> (Lean `Option Rat` text, source text)
    `None` -- written, or omitted (the default of numpy >= 2.0, the installed version) -- is numpy's machine-precision cut-off
    eps * max(M, N): emitted as `none`, the only value under which the model assumes the normal equations of the result
    (`CorrL.lstsqAssumed`).  An explicit NUMBER (literal, possibly signed; third positional argument or keyword) is a
    truncated least-squares solve: emitted as `some q`, so that `C15.lifted_lstsq_untruncated` and everything built on it
    break by name.  Anything else (a name, an expression, another keyword, *args) is refused."""
    from fractions import Fraction
    if any(isinstance(a, ast.Starred) for a in call.args) or not 2 <= len(call.args) <= 3:
        _bad(f"fit: lstsq call of unknown shape (two positional operands, optional rcond): {_src(call)[:120]}")
    given = list(call.args[2:])
    for k in call.keywords:
        if k.arg != "rcond":
            _bad(f"fit: lstsq keyword `{k.arg}` I do not understand: {_src(call)[:120]}")
        given.append(k.value)
    if len(given) > 1:
        _bad(f"fit: lstsq rcond given twice: {_src(call)[:120]}")
    if not given:
        return "none", "rcond=None"        # same text as the written form: dropping the keyword is a harmless refactor
    v = given[0]
    if isinstance(v, ast.Constant) and v.value is None:
        return "none", "rcond=None"
    sign = 1
    w = v
    if isinstance(w, ast.UnaryOp) and isinstance(w.op, (ast.USub, ast.UAdd)):
        sign = -1 if isinstance(w.op, ast.USub) else 1
        w = w.operand
    if isinstance(w, ast.Constant) and isinstance(w.value, (int, float)) and not isinstance(w.value, bool) \
            and w.value == w.value and abs(w.value) != float("inf"):
        q = sign * Fraction(repr(w.value)) if isinstance(w.value, float) else Fraction(sign * w.value)
        return f"some (({q.numerator} : Rat) / {q.denominator})", f"rcond={_src(v)}"
    _bad(f"fit: lstsq rcond is `{_src(v)[:60]}`: neither None nor a numeric literal")


def lift_transform(fn, roles, split="_split_X"):
    env, ret = symbolic(fn, roles, "transform", split)
    if ret is None:
        _bad("transform: no return value")
    dots = []
    for n in ast.walk(ret):
        if isinstance(n, ast.Call) and isinstance(n.func, ast.Attribute) and n.func.attr == "dot" and len(n.args) == 1 and not n.keywords:
            dots.append((n, n.func.value, n.args[0]))
        elif isinstance(n, ast.Call) and _src(n.func) in ("np.dot", "numpy.dot", "np.matmul") and len(n.args) == 2 and not n.keywords:
            dots.append((n, n.args[0], n.args[1]))
        elif isinstance(n, ast.BinOp) and isinstance(n.op, ast.MatMult):
            dots.append((n, n.left, n.right))
    keys = {_src(d[0]) for d in dots}
    if len(keys) != 1:
        _bad(f"transform: expected one matrix product in the returned expression, found {len(keys)}")
    node, left, right = dots[0]
    if _src(right) != "self.beta_":
        _bad(f"transform: the product uses `{_src(right)[:60]}`, not the stored self.beta_")
    means = find_means(left, "transform")
    stored = "self.sensitive_mean_" in {_src(n) for n in ast.walk(left)}
    if stored and not means:
        mean_src, atoms = "stored", {"self.sensitive_mean_"}
    elif means and not stored and len({k for _, k in means}) == 1 and len({t for t, _ in means}) == 1:
        mean_src, atoms = "recomputed ." + means[0][1], {means[0][0]}
    else:
        _bad(f"transform: centring `{_src(left)[:80]}` uses neither exactly the stored mean nor exactly one recomputed mean")
    cexpr = center_expr(left, atoms, "transform/centring")
    if "mean" not in cexpr:
        _bad("transform: the sensitive block is not centred")
    # the output entry
    key = _src(node)

    class R(ast.NodeTransformer):
        def generic_visit(self, n):
            if _src(n) == key:
                return _sym("PROJ")
            return super().generic_visit(n)
    out = R().visit(copy.deepcopy(ret))
    oexpr = arith(out, {"USE": "use", "PROJ": "proj", "self.alpha": "alpha"}, "transform/output")
    for need in ("use", "proj", "alpha"):
        if need not in oexpr:
            _bad(f"transform: the returned expression does not depend on {need}")
    return dict(mean_src=mean_src, center=cexpr, out=oexpr, src_center=_src(left), src_out=_src(out))


def _doc(s):
    return s.replace("-/", "- /").replace("\n", " ")


@translate.lifter
def corr_remover(repo):
    with open(os.path.join(repo, REL)) as f:
        tree = normalize.parse(f.read())
    cls = [c for c in tree.body if isinstance(c, ast.ClassDef) and c.name == "CorrelationRemover"]
    if len(cls) != 1:
        _bad("class CorrelationRemover not found")
    cls = cls[0]
    fns = {f.name: f for f in cls.body if isinstance(f, ast.FunctionDef)}
    for need in ("fit", "transform", "_create_lookup"):
        if need not in fns:
            _bad(f"method {need} not found")
    if len(fns) != sum(1 for f in cls.body if isinstance(f, ast.FunctionDef)):
        _bad("a method is defined twice")
    split = split_method(fns)
    roles, sens_def, kept_def = lift_split(cls, split)
    lk_df, lk_arr = lift_lookup(cls)
    ft = lift_fit(fns["fit"], roles, split)
    tr = lift_transform(fns["transform"], roles, split)
    o = ["/-", f"GENERATED by harness/lifters/corr_remover.py from {REL}. Do not edit.",
         "`fit` / `transform` are inlined symbolically; SENS / USE are the two blocks returned by `_split_X`.", "-/", "",
         "set_option linter.unusedVariables false", "", "namespace CorrRemoverSrc", "",
         "/-- which mean of the sensitive block: one per column (`mean(axis=0)`) or one scalar (`mean()`) -/",
         "inductive MeanKind where", "  | perColumn", "  | grand", "deriving DecidableEq, Repr", "",
         "/-- where `transform` takes the centring vector from -/",
         "inductive MeanSrc where", "  | stored", "  | recomputed (k : MeanKind)", "deriving DecidableEq, Repr", ""]

    def d(name, params, ty, expr, src):
        pin = PINNED_DEFS.get(name)
        if pin is not None and normalize.lean_prefer(expr, [pin[0]]) == pin[0]:
            expr, src = pin
        o.extend([f"/-- `{_doc(src)}` -/", f"def {name} {params} : {ty} := {expr}", ""])
    d("fitMeanKind", "", "MeanKind", "." + ft["kind"], "self.sensitive_mean_ = " + ft["src_mean"])
    d("fitCenter", "(s mean : Rat)", "Rat", ft["center"], "np.linalg.lstsq(" + ft["src_A"] + ", USE)  -- first operand, entry-wise")
    o.extend(["/-- the `rcond` argument of the `np.linalg.lstsq` call of `fit`: `" + _doc(ft["src_rcond"]) + "`.",
              "    `none` = numpy's machine-precision cut-off eps * max(M, N) (`rcond=None`, also the default when omitted, numpy >= 2.0);",
              "    `some q` = singular values below q * (largest singular value) are treated as zero (a truncated solve). -/",
              f"def lstsqRcond : Option Rat := {ft['rcond']}", ""])
    d("transformMean", "", "MeanSrc", "." + tr["mean_src"], "centring vector of transform: " + tr["src_center"])
    d("transformCenter", "(s mean : Rat)", "Rat", tr["center"], tr["src_center"])
    d("outEntry", "(alpha use proj : Rat)", "Rat", tr["out"], "return " + tr["src_out"] + "   with PROJ = (centred sensitive).dot(self.beta_)")
    o.extend(["/-- `dict[key]` for a dict built from `entries` in this order (a later entry with the same key wins) -/",
              "def dictGet (entries : List (Nat × Nat)) (key : Nat) : Nat :=",
              "  ((entries.reverse.find? (fun e => e.1 == key)).map (fun e => e.2)).getD 0", ""])
    d("lookupDataFrame", "(columns : List Nat) (key : Nat)", "Nat", f"dictGet {lk_df[0]} key",
      "DataFrame: self.lookup_ = " + lk_df[1] + "   (column names as code numbers)")
    d("lookupArray", "(m : Nat) (key : Nat)", "Nat", f"dictGet {lk_arr[0]} key", "ndarray: self.lookup_ = " + lk_arr[1])
    d("sensitiveIdx", "(lookup : Nat → Nat) (ids : List Nat)", "List Nat", sens_def[0], sens_def[1])
    d("nonSensitiveIdx", "(m : Nat) (sensitive : List Nat)", "List Nat", kept_def[0], kept_def[1])
    o += ["end CorrRemoverSrc", ""]
    meta = dict(fit_mean=ft["kind"], transform_mean=tr["mean_src"], out=tr["out"], split_returns=roles, rcond=ft["rcond"])
    return "CorrRemoverSrc.lean", "\n".join(o), meta
