"""Lifter for the relabel / reweight step that turns the Lagrangian into a weighted classification
(or regression) problem for the base learner:

  * `_Lagrangian._call_oracle`        (fairlearn/reductions/_exponentiated_gradient/_lagrangian.py)
  * the per-column loop of `GridSearch.fit` (fairlearn/reductions/_grid_search/grid_search.py)

Generates lean/FairModel/Generated/OracleSrc.lean.  `Model/Oracle.lean` defines `callOracle*` over these
definitions and the C07 theorems unfold them: the comparison operator and threshold of the relabelling, the
`abs`, the `n * w / sum` normalisation, the order of the two weight summands, which branch relabels, the
`len(unique) == 1` shortcut and the constant it hands to `DummyClassifier`, and GridSearch's
`if not objective_in_the_span` switch all come from the Python `ast`.

The statements of both functions are walked in order; each statement must be one of the known shapes
(logging calls, timing, bookkeeping are recognised and skipped by shape, not by position), every statement
that assigns one of the tracked variables must be of the expected form, and anything else touching a
tracked variable is refused.  Local names are resolved through the assignments, not assumed, so renaming
a local variable does not break the lift."""
import ast
import os

from .. import translate
from . import normalize
from .moments import _lean_rat, _rat_of_const, call_like, inline_temps

LG = "fairlearn/reductions/_exponentiated_gradient/_lagrangian.py"
GS = "fairlearn/reductions/_grid_search/grid_search.py"
UP = "fairlearn/reductions/_moments/utility_parity.py"
BG = "fairlearn/reductions/_moments/bounded_group_loss.py"

# the locals of the pinned source, in order of first binding (normalize.binding_order): what inline_temps must keep and
# what rename_locals renames to
CALL_ORACLE_LOCALS = ["signed_weights", "redY", "redW", "redY_unique", "estimator", "oracle_call_start_time"]
GRID_FIT_LOCALS = ["is_classification_reduction", "objective", "pos_basis", "neg_basis", "neg_allowed",
                   "objective_in_the_span", "grid", "i", "lambda_vec", "weights", "y_reduction", "y_reduction_unique",
                   "current_estimator", "oracle_call_start_time", "oracle_call_execution_time", "predict_fct", "loss_fct",
                   "losses"]


def _bad(msg):
    raise translate.Untranslatable("oracle lifter: " + msg)


def _parse(repo, rel):
    with open(os.path.join(repo, rel)) as f:
        return normalize.parse(f.read())


def _cls(tree, name):
    for n in tree.body:
        if isinstance(n, ast.ClassDef) and n.name == name:
            return n
    _bad(f"class {name} not found")


def _fn(cls, name):
    for n in cls.body:
        if isinstance(n, ast.FunctionDef) and n.name == name:
            return n
    _bad(f"method {cls.name}.{name} not found")


CMP = {ast.Gt: ">", ast.GtE: "≥", ast.Lt: "<", ast.LtE: "≤"}


def _label_expr(node, wname):
    """`1 * (<w> > 0)` (also `(<w> > 0) * 1`, `(<w> > 0).astype(int)`) -> Lean term over the variable `w`"""
    def cmp_of(c):
        if isinstance(c, ast.Compare) and len(c.ops) == 1 and type(c.ops[0]) in CMP \
                and isinstance(c.left, ast.Name) and c.left.id == wname \
                and isinstance(c.comparators[0], (ast.Constant, ast.UnaryOp)):
            thr = c.comparators[0]
            if isinstance(thr, ast.UnaryOp):
                if not (isinstance(thr.op, ast.USub) and isinstance(thr.operand, ast.Constant)):
                    _bad(f"relabel threshold {ast.unparse(thr)!r}")
                q = -_rat_of_const(thr.operand)
            else:
                q = _rat_of_const(thr)
            return f"(if w {CMP[type(c.ops[0])]} {_lean_rat(q)} then (1 : Rat) else 0)"
        return None
    if isinstance(node, ast.BinOp) and isinstance(node.op, ast.Mult):
        for k, c in ((node.left, node.right), (node.right, node.left)):
            if isinstance(k, ast.Constant) and not isinstance(k.value, bool) and isinstance(k.value, int):
                ind = cmp_of(c)
                if ind is not None:
                    return f"({_lean_rat(k.value)} * {ind})"
    if isinstance(node, ast.Call) and isinstance(node.func, ast.Attribute) and node.func.attr == "astype" \
            and len(node.args) == 1 and ast.unparse(node.args[0]) == "int" and not node.keywords:
        ind = cmp_of(node.func.value)
        if ind is not None:
            return f"({_lean_rat(1)} * {ind})"        # bool -> int is `1 * <bool>`: the spelling of the pinned source
    _bad(f"relabelling expression {ast.unparse(node)!r}")


def _abs_expr(node, wname):
    """`<w>.abs()` / `np.abs(<w>)` / `abs(<w>)`"""
    txt = ast.unparse(node)
    if txt in (f"{wname}.abs()", f"np.abs({wname})", f"abs({wname})"):
        return "(absR w)"
    _bad(f"weight expression {txt!r} (expected the absolute value of {wname})")


def _arith(node, env):
    txt = ast.unparse(node)
    if txt in env:
        return env[txt]
    if isinstance(node, ast.BinOp):
        a, b = _arith(node.left, env), _arith(node.right, env)
        op = {ast.Add: "+", ast.Sub: "-", ast.Mult: "*", ast.Div: "/"}.get(type(node.op))
        if op is None:
            _bad(f"operator in {txt!r}")
        return f"({a} {op} {b})"
    if isinstance(node, ast.UnaryOp) and isinstance(node.op, ast.USub):
        return f"(-{_arith(node.operand, env)})"
    if isinstance(node, ast.Constant):
        return _lean_rat(_rat_of_const(node))
    _bad(f"cannot translate {txt!r}")


def _is_noise(st):
    """statements that cannot influence what the learner receives: logging, timing, counters, docstrings"""
    if isinstance(st, ast.Expr) and isinstance(st.value, ast.Constant):
        return True
    if isinstance(st, ast.Expr) and isinstance(st.value, ast.Call):
        f = ast.unparse(st.value.func)
        if f.startswith("logger."):
            return True
        if f.endswith("oracle_execution_times.append") or f.endswith("oracle_execution_times_.append"):
            return True
    if isinstance(st, ast.AugAssign) and ast.unparse(st.target) in ("self.n_oracle_calls", "self.n_oracle_calls_dummy_returned"):
        return True
    if isinstance(st, ast.Assign) and len(st.targets) == 1 and isinstance(st.targets[0], ast.Name):
        v = ast.unparse(st.value)
        if v == "time()" or v.startswith("time() - "):
            return True
    return False


def _noise_targets(stmts):
    """names assigned by the statements that _is_noise skips (the timing temporaries)"""
    out = set()
    for st in stmts:
        for n in ast.walk(st):
            if isinstance(n, ast.Assign) and _is_noise(n):
                out |= _assigned_names(n)
    return out


def _assigned_names(st):
    out = set()
    for n in ast.walk(st):
        if isinstance(n, (ast.Assign, ast.AugAssign, ast.AnnAssign)):
            tg = n.targets if isinstance(n, ast.Assign) else [n.target]
            for t in tg:
                for m in ast.walk(t):
                    if isinstance(m, ast.Name):
                        out.add(m.id)
    return out


def _shortcut(stmts, i, yname, est_name_hint, clone_shapes):
    """<u> = np.unique(<y>) ; [<est> = None] ; if len(<u>) == 1: <est> = DummyClassifier(strategy="constant",
    constant=<u>[k]) else: <est> = clone(...)/copy.deepcopy(...).  Returns (next index, est name, when, pick)."""
    st = stmts[i]
    if not (isinstance(st, ast.Assign) and len(st.targets) == 1 and isinstance(st.targets[0], ast.Name)
            and ast.unparse(st.value) == f"np.unique({yname})"):
        _bad(f"expected <u> = np.unique({yname}), found {ast.unparse(st)!r}")
    uname = st.targets[0].id
    i += 1
    while i < len(stmts) and (_is_noise(stmts[i]) or (isinstance(stmts[i], ast.Assign)
                                                      and ast.unparse(stmts[i].value) == "None")):
        i += 1
    st = stmts[i]
    if isinstance(st, ast.If) and isinstance(st.test, ast.Compare) and len(st.test.ops) == 1 \
            and isinstance(st.test.ops[0], ast.Eq) and ast.unparse(st.test.comparators[0]) == f"len({uname})":
        st.test.left, st.test.comparators = st.test.comparators[0], [st.test.left]      # `1 == len(u)` -> `len(u) == 1`
    if not (isinstance(st, ast.If) and isinstance(st.test, ast.Compare) and len(st.test.ops) == 1
            and ast.unparse(st.test.left) == f"len({uname})" and isinstance(st.test.comparators[0], ast.Constant)
            and isinstance(st.test.comparators[0].value, int) and not isinstance(st.test.comparators[0].value, bool)):
        _bad(f"expected `if len({uname}) == 1:`, found {ast.unparse(st)[:80]!r}")
    op = {ast.Eq: "==", ast.LtE: "≤", ast.Lt: "<"}.get(type(st.test.ops[0]))
    if op is None:
        _bad(f"shortcut test {ast.unparse(st.test)!r}")
    when = f"decide (k {'=' if op == '==' else op} {st.test.comparators[0].value})"
    body = [s for s in st.body if not _is_noise(s)]
    orelse = [s for s in st.orelse if not _is_noise(s)]
    if len(body) != 1 or len(orelse) != 1:
        _bad("shortcut branches contain unexpected statements")
    b, e = body[0], orelse[0]
    if not (isinstance(b, ast.Assign) and isinstance(e, ast.Assign) and len(b.targets) == 1 and len(e.targets) == 1
            and isinstance(b.targets[0], ast.Name) and ast.unparse(b.targets[0]) == ast.unparse(e.targets[0])):
        _bad("shortcut branches do not assign the same estimator variable")
    est = b.targets[0].id
    c = b.value
    if not (isinstance(c, ast.Call) and ast.unparse(c.func) == "DummyClassifier" and not c.args
            and sorted(k.arg for k in c.keywords) == ["constant", "strategy"]):
        _bad(f"dummy estimator {ast.unparse(c)!r}")
    kw = {k.arg: k.value for k in c.keywords}
    if not (isinstance(kw["strategy"], ast.Constant) and kw["strategy"].value == "constant"):
        _bad(f"dummy strategy {ast.unparse(kw['strategy'])!r}")
    k = kw["constant"]
    if not (isinstance(k, ast.Subscript) and ast.unparse(k.value) == uname and isinstance(k.slice, ast.Constant)
            and isinstance(k.slice.value, int) and k.slice.value >= 0):
        _bad(f"dummy constant {ast.unparse(k)!r}")
    if ast.unparse(call_like(e.value, *clone_shapes[1:])) != clone_shapes[0]:
        _bad(f"learner copy {ast.unparse(e.value)!r}")
    if uname == est:
        _bad(f"{est} is both the unique labels and the estimator")
    return i + 1, est, when, k.slice.value, uname


def _lift_call_oracle(fn):
    if [a.arg for a in fn.args.args] != ["self", "lambda_vec"]:
        _bad("_call_oracle(self, lambda_vec) signature changed")
    inline_temps(fn, CALL_ORACLE_LOCALS)
    stmts = [s for s in fn.body if not _is_noise(s)]
    # 1. signed weights
    st = stmts[0]
    if not (isinstance(st, ast.Assign) and len(st.targets) == 1 and isinstance(st.targets[0], ast.Name)):
        _bad(f"first statement {ast.unparse(st)!r}")
    w = st.targets[0].id
    signed = _arith(st.value, {"self.obj.signed_weights()": "ow", "self.constraints.signed_weights(lambda_vec)": "cw"})
    if "ow" not in signed or "cw" not in signed:
        _bad(f"signed weights {ast.unparse(st.value)!r} do not use both the objective's and the constraints' weights")
    # 2./3. between the signed weights and `np.unique`: the relabel branch, the abs and (after the abs) the
    # normalisation -- the relabel branch and the weight statements are independent, so their relative order is free
    end = [i for i, st in enumerate(stmts) if isinstance(st, ast.Assign) and isinstance(st.value, ast.Call)
           and ast.unparse(st.value.func) == "np.unique"]
    if len(end) != 1 or end[0] != 4:
        _bad("expected exactly three statements between the signed weights and np.unique(<labels>)")
    mid = stmts[1:4]
    ifs = [st for st in mid if isinstance(st, ast.If)]
    asg = [st for st in mid if isinstance(st, ast.Assign)]
    if len(ifs) != 1 or len(asg) != 2:
        _bad(f"relabel / reweight statements: {[ast.unparse(x)[:60] for x in mid]}")
    st = ifs[0]
    if not (ast.unparse(st.test) == "isinstance(self.constraints, ClassificationMoment)"
            and len(st.body) == 1 and len(st.orelse) == 1 and isinstance(st.body[0], ast.Assign)
            and isinstance(st.orelse[0], ast.Assign) and isinstance(st.body[0].targets[0], ast.Name)
            and ast.unparse(st.body[0].targets[0]) == ast.unparse(st.orelse[0].targets[0])):
        _bad(f"relabel branch {ast.unparse(st)[:120]!r}")
    yv = st.body[0].targets[0].id
    label = _label_expr(st.body[0].value, w)
    if ast.unparse(st.orelse[0].value) != "self.constraints._y_as_series":
        _bad(f"regression labels {ast.unparse(st.orelse[0].value)!r}")
    st = asg[0]
    if not isinstance(st.targets[0], ast.Name):
        _bad(f"weights {ast.unparse(st)!r}")
    wv = st.targets[0].id
    if wv in (w, yv):
        _bad(f"weights overwrite {wv}")
    absw = _abs_expr(st.value, w)
    st = asg[1]
    if not (isinstance(st.targets[0], ast.Name) and st.targets[0].id == wv):
        _bad(f"normalisation {ast.unparse(st)!r}")
    norm = _arith(st.value, {"self.constraints.total_samples": "n", wv: "a", f"{wv}.sum()": "s"})
    if "a" not in norm:
        _bad(f"normalisation {ast.unparse(st.value)!r} does not use the weights")
    # 4. shortcut
    i, est, when, pick, uname = _shortcut(stmts, 4, yv, "estimator",
                                          ("clone(estimator=self.estimator, safe=False)", ["estimator", "safe"],
                                           "clone(estimator=self.estimator, safe=False)"))
    # 5. the fit call and the return
    rest = stmts[i:]
    fit = f"{est}.fit(self.constraints.X, {yv}, **{{self.sample_weight_name: {wv}}})"
    if len(rest) != 2 or not (isinstance(rest[0], ast.Expr) and ast.unparse(rest[0].value) == fit) \
            or ast.unparse(rest[1]) != f"return {est}":
        _bad(f"fit call / return changed: {[ast.unparse(s)[:100] for s in rest]}")
    for s in stmts[4:]:
        if {w, wv, yv} & _assigned_names(s):
            _bad(f"{ast.unparse(s)[:80]!r} re-assigns the labels or weights after they were computed")
    for s in stmts[i:]:
        if {est, uname} & _assigned_names(s):
            _bad(f"{ast.unparse(s)[:80]!r} re-assigns the estimator after it was chosen")
    if len({w, wv, yv, est, uname}) != 5 or {w, wv, yv, est, uname, "self", "lambda_vec"} & _noise_targets(fn.body):
        _bad("a timing / bookkeeping statement assigns one of the tracked variables")
    signed = normalize.lean_prefer(signed, ["(ow + cw)"])
    norm = normalize.lean_prefer(norm, ["((n * a) / s)"])
    return dict(signed=signed, label=label, abs=absw, norm=norm, when=when, pick=pick)


def _lift_grid(fn):
    """the `for i in grid.columns:` loop of GridSearch.fit"""
    inline_temps(fn, GRID_FIT_LOCALS)
    fn = normalize.rename_locals(fn, GRID_FIT_LOCALS)
    span = [n for n in ast.walk(fn) if isinstance(n, ast.Assign) and ast.unparse(n.targets[0]) == "objective_in_the_span"]
    if len(span) != 1 or ast.unparse(span[0].value) != "self.constraints.default_objective_lambda_vec is not None":
        _bad("objective_in_the_span is not `self.constraints.default_objective_lambda_vec is not None`")
    isc = [n for n in fn.body if isinstance(n, ast.If)
           and ast.unparse(n.test) == "isinstance(self.constraints, ClassificationMoment)"]
    direct = [n for n in fn.body if isinstance(n, ast.Assign)
              and ast.unparse(n) == "is_classification_reduction = isinstance(self.constraints, ClassificationMoment)"]
    if len(isc) + len(direct) != 1:
        _bad("classification test not found")
    if isc:
        flags = [s for s in isc[0].body + isc[0].orelse if isinstance(s, ast.Assign)]
        if [ast.unparse(s) for s in flags] != ["is_classification_reduction = True", "is_classification_reduction = False"] \
                or len(isc[0].body) != 1 or len(isc[0].orelse) != 1:
            _bad("is_classification_reduction assignments changed")
    nflag = sum(1 for n in ast.walk(fn) if isinstance(n, ast.Name) and n.id == "is_classification_reduction"
                and isinstance(n.ctx, ast.Store))
    if nflag != (2 if isc else 1):
        _bad("is_classification_reduction is assigned elsewhere")
    loops = [n for n in fn.body if isinstance(n, ast.For) and ast.unparse(n.iter) == "grid.columns"]
    if len(loops) != 1 or not isinstance(loops[0].target, ast.Name):
        _bad("`for i in grid.columns` loop not found")
    col = loops[0].target.id
    stmts = [s for s in loops[0].body if not _is_noise(s)]
    st = stmts[0]
    if not (isinstance(st, ast.Assign) and ast.unparse(st.value) == f"grid[{col}]" and isinstance(st.targets[0], ast.Name)):
        _bad(f"lambda column {ast.unparse(st)!r}")
    lam = st.targets[0].id
    st = stmts[1]
    if not (isinstance(st, ast.Assign) and isinstance(st.targets[0], ast.Name)
            and ast.unparse(st.value) == f"self.constraints.signed_weights({lam})"):
        _bad(f"constraint weights {ast.unparse(st)!r}")
    w = st.targets[0].id
    st = stmts[2]
    if not (isinstance(st, ast.If) and len(st.body) == 1 and not st.orelse and isinstance(st.body[0], ast.Assign)
            and ast.unparse(st.body[0].targets[0]) == w):
        _bad(f"objective switch {ast.unparse(st)[:100]!r}")
    t = ast.unparse(st.test)
    if t == "not objective_in_the_span":
        adds = "!inSpan"
    elif t == "objective_in_the_span":
        adds = "inSpan"
    else:
        _bad(f"objective switch test {t!r}")
    signed = _arith(st.body[0].value, {w: "cw", "objective.signed_weights()": "ow"})
    if "ow" not in signed or "cw" not in signed:
        _bad(f"objective switch body {ast.unparse(st.body[0])!r}")
    st = stmts[3]
    if not (isinstance(st, ast.If) and ast.unparse(st.test) == "is_classification_reduction" and len(st.orelse) == 1):
        _bad(f"relabel branch {ast.unparse(st)[:100]!r}")
    body = [s for s in st.body if not _is_noise(s)]
    if not (len(body) == 2 and all(isinstance(s, ast.Assign) and isinstance(s.targets[0], ast.Name) for s in body)
            and body[1].targets[0].id == w):
        _bad(f"relabel branch body {[ast.unparse(s) for s in body]}")
    yv = body[0].targets[0].id
    label = _label_expr(body[0].value, w)
    absw = _abs_expr(body[1].value, w)
    e = st.orelse[0]
    if not (isinstance(e, ast.Assign) and ast.unparse(e.targets[0]) == yv
            and ast.unparse(e.value) == "self.constraints._y_as_series"):
        _bad(f"regression labels {ast.unparse(e)!r}")
    i, est, when, pick, uname = _shortcut(stmts, 4, yv, "current_estimator",
                                          ("copy.deepcopy(self.estimator)", ["x", "memo"], "copy.deepcopy(self.estimator)"))
    fit = f"{est}.fit(X, {yv}, **{{self.sample_weight_name: {w}}})"
    fits = [s for s in stmts[i:] if isinstance(s, ast.Expr) and isinstance(s.value, ast.Call)
            and ast.unparse(s.value.func) == f"{est}.fit"]
    if len(fits) != 1 or ast.unparse(fits[0].value) != fit:
        _bad(f"fit call changed: {[ast.unparse(s)[:100] for s in fits]}")
    for s in stmts[4:]:
        if {w, yv} & _assigned_names(s):
            _bad(f"{ast.unparse(s)[:80]!r} re-assigns the labels or weights after they were computed")
    k_fit = stmts.index(fits[0])
    for s in stmts[i:k_fit]:
        if {est, uname} & _assigned_names(s):
            _bad(f"{ast.unparse(s)[:80]!r} re-assigns the estimator after it was chosen")
    if len({col, lam, w, yv, est, uname}) != 6 or \
            {col, lam, w, yv, est, uname, "self", "X", "objective_in_the_span", "is_classification_reduction", "objective"} \
            & _noise_targets(loops[0].body):
        _bad("a timing / bookkeeping statement assigns one of the tracked variables")
    signed = normalize.lean_prefer(signed, ["(cw + ow)"])
    return dict(signed=signed, adds=adds, label=label, abs=absw, when=when, pick=pick)


def _span_flag(tree, cname, allowed):
    """`self.default_objective_lambda_vec = <None | self.prob_attr>` in <cname>.load_data -> Lean Bool
    (what GridSearch's `objective_in_the_span` evaluates to for this moment)"""
    hits = [n for n in ast.walk(_fn(_cls(tree, cname), "load_data")) if isinstance(n, ast.Assign)
            and ast.unparse(n.targets[0]) == "self.default_objective_lambda_vec"]
    if len(hits) != 1:
        _bad(f"{cname}.load_data: expected one assignment to default_objective_lambda_vec, found {len(hits)}")
    v = ast.unparse(hits[0].value)
    if v not in allowed:
        _bad(f"{cname}.default_objective_lambda_vec = {v!r}")
    return "false" if v == "None" else "true"


@translate.lifter
def lift_oracle(repo):
    parity_span = _span_flag(_parse(repo, UP), "UtilityParity", ("None",))
    bgt = _parse(repo, BG)
    loss_span = _span_flag(bgt, "ConditionalLossMoment", ("None", "self.prob_attr"))
    dfn = inline_temps(_fn(_cls(bgt, "ConditionalLossMoment"), "default_objective"), ())
    dobj = ast.unparse(dfn.body[-1])
    if dobj != "return MeanLoss(self.reduction_loss)" or len(dfn.body) != 1:
        _bad(f"ConditionalLossMoment.default_objective: {dobj!r}")
    eg = _lift_call_oracle(_fn(_cls(_parse(repo, LG), "_Lagrangian"), "_call_oracle"))
    gr = _lift_grid(_fn(_cls(_parse(repo, GS), "GridSearch"), "fit"))
    lean = f"""/-
GENERATED by harness/lifters/oracle.py from {LG} (`_call_oracle`)
and {GS} (`GridSearch.fit`) — do not edit.
The relabel / reweight step that hands the Lagrangian to the base learner.
-/
namespace OracleSrc

def absR (x : Rat) : Rat := if x < 0 then -x else x

/-! `_Lagrangian._call_oracle` -/
/-- `signed_weights`: ow = `self.obj.signed_weights()` entry, cw = `self.constraints.signed_weights(lambda_vec)` entry -/
def egSigned (ow cw : Rat) : Rat := {eg['signed']}
/-- `redY` entry for a `ClassificationMoment` (a regression moment passes `_y_as_series` unchanged) -/
def egLabel (w : Rat) : Rat := {eg['label']}
/-- `redW` entry before the normalisation -/
def egAbs (w : Rat) : Rat := {eg['abs']}
/-- `redW` entry after it: n = total_samples, a = entry, s = `redW.sum()` -/
def egNorm (n a s : Rat) : Rat := {eg['norm']}
/-- the `DummyClassifier` shortcut is taken when this holds of k = `len(np.unique(redY))` … -/
def egDummyWhen (k : Nat) : Bool := {eg['when']}
/-- … with `constant = redY_unique[egDummyPick]` -/
def egDummyPick : Nat := {eg['pick']}

/-! `GridSearch.fit`, per grid column -/
/-- the objective's weights are added iff this holds of `objective_in_the_span` -/
def gridAddsObjective (inSpan : Bool) : Bool := {gr['adds']}
/-- `weights` after the addition: cw = `self.constraints.signed_weights(lambda_vec)` entry, ow = `objective.signed_weights()` entry -/
def gridSigned (cw ow : Rat) : Rat := {gr['signed']}
/-- `y_reduction` entry for a `ClassificationMoment` (a regression moment passes `_y_as_series` and the raw weights) -/
def gridLabel (w : Rat) : Rat := {gr['label']}
def gridAbs (w : Rat) : Rat := {gr['abs']}
def gridDummyWhen (k : Nat) : Bool := {gr['when']}
def gridDummyPick : Nat := {gr['pick']}
/-- value of `objective_in_the_span` (`default_objective_lambda_vec is not None`) for the parity moments / the loss moments -/
def parityObjectiveInSpan : Bool := {parity_span}
def lossObjectiveInSpan : Bool := {loss_span}

end OracleSrc
"""
    meta = {"source": [LG, GS, UP, BG], "eg": eg, "grid": gr, "in_span": {"parity": parity_span, "loss": loss_span}}
    return "OracleSrc.lean", lean, meta
