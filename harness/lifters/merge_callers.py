"""Lifter for the CALLERS of `_merge_columns` (C13): what `_validate_and_reformat_input` does to the sensitive and to
the control feature table, and which encoder every fit-time and predict-time call site reaches.

Generates lean/FairModel/Generated/MergeCallers.lean:

  * per feature kind (sensitive / control): the column-count threshold of the merge test
    `len(v.shape) > 1 and v.shape[1] > K`, the function called on the table when it holds, and the fact that
    otherwise (and afterwards) the values go through `pd.Series(v.squeeze())` unchanged — no `astype(str)`,
    `check_array(..., dtype=None)` converts nothing;
  * the call sites: ThresholdOptimizer.fit, InterpolatedThresholder._pmf_predict (reached unchanged from
    ThresholdOptimizer.predict / _pmf_predict / InterpolatedThresholder.predict), the `load_data` of the five
    parity moments, ErrorRate and ConditionalLossMoment — each must call `_validate_and_reformat_input` with its
    own `sensitive_features` (and `control_features`) argument passed through by keyword, and must take the group
    vector (control vector) from position 2 (3) of the returned tuple.

Shapes that are not understood are refused."""
import ast
import os

from .. import translate
from . import normalize

IV = "fairlearn/utils/_input_validation.py"
TO = "fairlearn/postprocessing/_threshold_optimizer.py"
IT = "fairlearn/postprocessing/_interpolated_thresholder.py"
UP = "fairlearn/reductions/_moments/utility_parity.py"
ER = "fairlearn/reductions/_moments/error_rate.py"
BG = "fairlearn/reductions/_moments/bounded_group_loss.py"
VALIDATE = "_validate_and_reformat_input"


def _bad(msg):
    raise translate.Untranslatable("merge_callers lifter: " + msg)


def _parse(repo, rel):
    with open(os.path.join(repo, rel)) as f:
        return normalize.parse(f.read())


def _top_fn(tree, name):
    for n in tree.body:
        if isinstance(n, ast.FunctionDef) and n.name == name:
            return n
    _bad(f"function {name} not found")


def _method(tree, cname, mname):
    for n in tree.body:
        if isinstance(n, ast.ClassDef) and n.name == cname:
            for m in n.body:
                if isinstance(m, ast.FunctionDef) and m.name == mname:
                    return m
    _bad(f"{cname}.{mname} not found")


PINNED_IV = {"_validate_and_reformat_input": ["result_X", "sensitive_features", "control_features", "result_y"]}
PINNED_TO = {"ThresholdOptimizer.predict": [], "ThresholdOptimizer._pmf_predict": []}
PINNED_IT = {"InterpolatedThresholder.predict": ["positive_probs"]}


def _unflip(c):
    """a single comparison with the smaller side written first (`1 < n`, `1 <= n`) -> the same comparison as `n > 1`, `n >= 1`"""
    if isinstance(c, ast.Compare) and len(c.ops) == 1 and isinstance(c.ops[0], (ast.Lt, ast.LtE)):
        op = ast.Gt() if isinstance(c.ops[0], ast.Lt) else ast.GtE()
        return ast.Compare(left=c.comparators[0], ops=[op], comparators=[c.left])
    return c


def _feature_block(fn, var, kwname):
    """<var> = kwargs.get(<kwname>) ; if <var> is not None: check_consistent_length(X, var);
    var = check_array(var, ensure_2d=False, dtype=None); if len(var.shape) > 1 and var.shape[1] > K: var = F(var);
    var = pd.Series(var.squeeze())"""
    stmts = fn.body
    pos = [i for i, s in enumerate(stmts) if isinstance(s, ast.Assign) and ast.unparse(s) == f"{var} = kwargs.get({kwname})"]
    if len(pos) != 1:
        _bad(f"`{var} = kwargs.get({kwname})` not found exactly once")
    nxt = stmts[pos[0] + 1]
    if not (isinstance(nxt, ast.If) and ast.unparse(nxt.test) == f"{var} is not None"):
        _bad(f"`if {var} is not None:` does not follow the kwargs.get")
    body = [s for s in nxt.body if not (isinstance(s, ast.Expr) and isinstance(s.value, ast.Constant))]
    if len(body) != 4:
        _bad(f"{var}: expected 4 statements in the not-None branch, found {len(body)}: {[ast.unparse(s)[:60] for s in body]}")
    if ast.unparse(body[0]) != f"check_consistent_length(X, {var})":
        _bad(f"{var}: {ast.unparse(body[0])!r}")
    if ast.unparse(body[1]) != f"{var} = check_array({var}, ensure_2d=False, dtype=None)":
        _bad(f"{var}: conversion {ast.unparse(body[1])!r} (dtype=None = no conversion expected)")
    m = body[2]
    # the dimension test comes FIRST (it guards the `shape[1]` of the second conjunct); `x.ndim` = `len(x.shape)`
    if not (isinstance(m, ast.If) and not m.orelse and len(m.body) == 1 and isinstance(m.test, ast.BoolOp)
            and isinstance(m.test.op, ast.And) and len(m.test.values) == 2
            and ast.unparse(_unflip(m.test.values[0])) in (f"len({var}.shape) > 1", f"{var}.ndim > 1", f"len({var}.shape) >= 2",
                                                            f"{var}.ndim >= 2")):
        _bad(f"{var}: merge test {ast.unparse(m.test) if isinstance(m, ast.If) else ast.unparse(m)!r}")
    c = _unflip(m.test.values[1])
    if not (isinstance(c, ast.Compare) and len(c.ops) == 1 and ast.unparse(c.left) == f"{var}.shape[1]"
            and isinstance(c.comparators[0], ast.Constant) and isinstance(c.comparators[0].value, int)
            and not isinstance(c.comparators[0].value, bool)):
        _bad(f"{var}: column-count test {ast.unparse(c)!r}")
    k = c.comparators[0].value
    if isinstance(c.ops[0], ast.GtE):
        k -= 1
    elif not isinstance(c.ops[0], ast.Gt):
        _bad(f"{var}: column-count test {ast.unparse(c)!r}")
    if k < 0:
        _bad(f"{var}: column-count test {ast.unparse(c)!r}")
    a = m.body[0]
    if not (isinstance(a, ast.Assign) and ast.unparse(a.targets[0]) == var and isinstance(a.value, ast.Call)
            and isinstance(a.value.func, ast.Name) and [ast.unparse(x) for x in a.value.args] == [var]
            and not a.value.keywords):
        _bad(f"{var}: merge call {ast.unparse(a)!r}")
    if ast.unparse(body[3]) != f"{var} = pd.Series({var}.squeeze())":
        _bad(f"{var}: final conversion {ast.unparse(body[3])!r} (values must be passed through unchanged)")
    return k, a.value.func.id


def _call_site(fn, label, sf_pos_expected=2, with_control=False, cf_pos_expected=3):
    """the single call of _validate_and_reformat_input in `fn`: tuple-unpacked, keyword arguments passed through"""
    calls = [n for n in ast.walk(fn) if isinstance(n, ast.Assign) and isinstance(n.value, ast.Call)
             and isinstance(n.value.func, ast.Name) and n.value.func.id == VALIDATE]
    if len(calls) != 1:
        _bad(f"{label}: expected one call of {VALIDATE}, found {len(calls)}")
    a = calls[0]
    if not (len(a.targets) == 1 and isinstance(a.targets[0], ast.Tuple) and len(a.targets[0].elts) == 4):
        _bad(f"{label}: the result is not unpacked into 4 names")
    kws = {k.arg: ast.unparse(k.value) for k in a.value.keywords}
    if kws.get("sensitive_features") != "sensitive_features":
        _bad(f"{label}: sensitive_features={kws.get('sensitive_features')!r} is not the caller's own argument")
    params = [x.arg for x in fn.args.args + fn.args.kwonlyargs]
    if "sensitive_features" not in params:
        _bad(f"{label}: no sensitive_features parameter")
    names = [ast.unparse(e) for e in a.targets[0].elts]
    sf_name = names[sf_pos_expected]
    if sf_name == "_":
        _bad(f"{label}: the group vector (position {sf_pos_expected} of the result) is discarded")
    cf = None
    if with_control:
        if kws.get("control_features") != "control_features" or "control_features" not in params:
            _bad(f"{label}: control_features is not passed through")
        cf = names[cf_pos_expected]
    # the feature argument must not be re-assigned before the call
    for n in ast.walk(fn):
        if isinstance(n, ast.Assign) and n is not a and n.lineno < a.lineno:
            for t in n.targets:
                if ast.unparse(t) in ("sensitive_features", "control_features"):
                    _bad(f"{label}: {ast.unparse(t)} is re-assigned before validation")
    return sf_name, cf


def _delegates(fn, label, target):
    """`return <target>(X, sensitive_features=sensitive_features, ...)` somewhere in fn, nothing re-assigning it"""
    for n in ast.walk(fn):
        if isinstance(n, ast.Assign) and any(ast.unparse(t) == "sensitive_features" for t in n.targets):
            _bad(f"{label}: sensitive_features is re-assigned")
    hits = [n for n in ast.walk(fn) if isinstance(n, ast.Call) and ast.unparse(n.func) == target]
    if len(hits) != 1:
        _bad(f"{label}: expected one call of {target}")
    kws = {k.arg: ast.unparse(k.value) for k in hits[0].keywords}
    first = ast.unparse(hits[0].args[0]) if hits[0].args else kws.get("X")
    if kws.get("sensitive_features") != "sensitive_features" or first != "X" or "X" not in [a.arg for a in fn.args.args]:
        _bad(f"{label}: {ast.unparse(hits[0])[:100]!r} does not pass X / sensitive_features through")
    if any(isinstance(n, ast.Name) and n.id == "X" and isinstance(n.ctx, ast.Store) for n in ast.walk(fn)):
        _bad(f"{label}: X is re-assigned")


def _lean_str(s):
    if any(ord(c) < 32 or ord(c) > 126 or c in '"\\' for c in s):
        _bad(f"unexpected identifier {s!r}")
    return '"' + s + '"'


@translate.lifter
def lift_merge_callers(repo):
    iv = normalize.canon_tree(_parse(repo, IV), PINNED_IV, extra_funcs=("check_array", "_merge_columns"), extra_methods=("squeeze",))
    fn = _top_fn(iv, VALIDATE)
    sf_k, sf_f = _feature_block(fn, "sensitive_features", "_KW_SENSITIVE_FEATURES")
    cf_k, cf_f = _feature_block(fn, "control_features", "_KW_CONTROL_FEATURES")
    kwnames = {}
    for n in iv.body:
        if isinstance(n, ast.Assign) and isinstance(n.targets[0], ast.Name) and n.targets[0].id in (
                "_KW_SENSITIVE_FEATURES", "_KW_CONTROL_FEATURES"):
            if not (isinstance(n.value, ast.Constant) and isinstance(n.value.value, str)):
                _bad(f"{n.targets[0].id} is not a string constant")
            kwnames[n.targets[0].id] = n.value.value
    if kwnames != {"_KW_SENSITIVE_FEATURES": "sensitive_features", "_KW_CONTROL_FEATURES": "control_features"}:
        _bad(f"keyword names changed: {kwnames}")
    rets = [n for n in ast.walk(fn) if isinstance(n, ast.Return)]
    if len(rets) != 1 or ast.unparse(rets[0].value) != "(result_X, result_y, sensitive_features, control_features)":
        _bad("return tuple of _validate_and_reformat_input changed")
    for f in (sf_f, cf_f):
        _top_fn(iv, f)       # the callee must be a function of the same module

    to, it, up, er, bg = (_parse(repo, p) for p in (TO, IT, UP, ER, BG))
    to, it = normalize.canon_tree(to, PINNED_TO), normalize.canon_tree(it, PINNED_IT)
    sites = []      # (label, role, callee)
    _call_site(_method(to, "ThresholdOptimizer", "fit"), "ThresholdOptimizer.fit")
    sites.append(("ThresholdOptimizer.fit", "fit", VALIDATE))
    _call_site(_method(it, "InterpolatedThresholder", "_pmf_predict"), "InterpolatedThresholder._pmf_predict")
    sites.append(("InterpolatedThresholder._pmf_predict", "predict", VALIDATE))
    _delegates(_method(to, "ThresholdOptimizer", "predict"), "ThresholdOptimizer.predict",
               "self.interpolated_thresholder_.predict")
    _delegates(_method(to, "ThresholdOptimizer", "_pmf_predict"), "ThresholdOptimizer._pmf_predict",
               "self.interpolated_thresholder_._pmf_predict")
    _delegates(_method(it, "InterpolatedThresholder", "predict"), "InterpolatedThresholder.predict", "self._pmf_predict")
    for cname in ("DemographicParity", "TruePositiveRateParity", "FalsePositiveRateParity", "EqualizedOdds",
                  "ErrorRateParity"):
        sf_name, cf_name = _call_site(_method(up, cname, "load_data"), f"{cname}.load_data", with_control=True)
        body = _method(up, cname, "load_data")
        src = ast.unparse(body)
        if f"sensitive_features={sf_name}" not in src or f"_merge_event_and_control_columns(base_event, {cf_name})" not in src:
            _bad(f"{cname}.load_data does not hand the validated vectors on")
        sites.append((f"{cname}.load_data", "fit", VALIDATE))
    _call_site(_method(er, "ErrorRate", "load_data"), "ErrorRate.load_data")
    sites.append(("ErrorRate.load_data", "fit", VALIDATE))
    _call_site(_method(bg, "ConditionalLossMoment", "load_data"), "ConditionalLossMoment.load_data")
    sites.append(("ConditionalLossMoment.load_data", "fit", VALIDATE))

    site_txt = ",\n   ".join(f"({_lean_str(a)}, {_lean_str(b)}, {_lean_str(c)})" for a, b, c in sites)
    lean = f"""/-
GENERATED by harness/lifters/merge_callers.py from {IV},
{TO}, {IT}, {UP}, {ER}, {BG} — do not edit.
What `_validate_and_reformat_input` does to a feature table, and which encoder every call site reaches.
-/
namespace MergeCallers

/-- sensitive features: merged by `sfMerger` iff the table has more than `sfThreshold` columns; otherwise the single
    column is passed through `pd.Series(x.squeeze())` unchanged (`check_array(dtype=None)`, no `astype(str)`) -/
def sfThreshold : Nat := {sf_k}
def sfMerger : String := {_lean_str(sf_f)}
/-- control features: the same, separately -/
def cfThreshold : Nat := {cf_k}
def cfMerger : String := {_lean_str(cf_f)}

/-- (call site, role, function that encodes its sensitive features); every site passes its own
    `sensitive_features` argument through by keyword and uses position 2 of the returned tuple -/
def callSites : List (String × String × String) :=
  [{site_txt}]

end MergeCallers
"""
    meta = {"sf": [sf_k, sf_f], "cf": [cf_k, cf_f], "sites": len(sites)}
    return "MergeCallers.lean", lean, meta
