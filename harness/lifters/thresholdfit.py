"""Lifter for the GLUE of `ThresholdOptimizer.fit` (fairlearn/postprocessing/_threshold_optimizer.py):

  _threshold_optimization_for_simple_constraints   x grid `np.linspace(lo, hi, grid_size + k)`, start value of the overall
                                                   curve, group frequency `len(group) / n`, the accumulation
                                                   `overall += p * curve["y"]`, `idxmax`, `.iloc[i_best]`, the Bunch fields,
                                                   how `_tradeoff_curve` / `_interpolate_curve` are called
  _threshold_optimization_for_equalized_odds       n_positive / n_negative, `np.amin(y_values, axis=1)`, `np.around(., d)`,
                                                   `idxmax`, x_best / y_best, the p_ignore test and formula, the Bunch fields
  _reformat_and_group_data / _reformat_data_into_dict   which argument goes under which key, `.values` of Series / DataFrame
  fit                                              x_metric_ / y_metric_ for simple constraints, argument order of the call

and writes lean/FairModel/Generated/ThresholdFitSrc.lean.  `Model/Threshold.lean` (gridVal, objSimple, pIgnore) is defined
over it.  Unknown shapes are refused.
"""
import ast

from .. import translate
from . import normalize
from ..translate import Untranslatable
from .threshold import _expr, _find_func, _str_const, parse_top
from .tradeoff import _body, _int, _name, _single_assigns, only_statements

TOF = "fairlearn/postprocessing/_threshold_optimizer.py"
BUNCH = ["p0", "operation0", "p1", "operation1"]


def U(msg):
    return Untranslatable("threshold-fit lifter: " + msg)


# the arithmetic terms this lifter emits for the pinned source (see tradeoff.PINNED_TERMS)
PINNED_TERMS = ["(p * y)"]


def _pin(term):
    return normalize.lean_prefer(term, PINNED_TERMS)


def _self(n, attr=None):
    return (isinstance(n, ast.Attribute) and isinstance(n.value, ast.Name) and n.value.id == "self"
            and (attr is None or n.attr == attr))


def _walk_assign(fn, pred):
    return [n for n in ast.walk(fn) if isinstance(n, ast.Assign) and len(n.targets) == 1 and pred(n.targets[0])]


def _grid(fn):
    """self._x_grid = np.linspace(lo, hi, self.grid_size + k)"""
    a = _walk_assign(fn, lambda t: _self(t, "_x_grid"))
    if len(a) != 1:
        raise U(f"{fn.name}: self._x_grid is not assigned exactly once")
    c = a[0].value
    if not (isinstance(c, ast.Call) and isinstance(c.func, ast.Attribute) and c.func.attr == "linspace" and len(c.args) == 3
            and not c.keywords):
        raise U(f"{fn.name}: the grid is not np.linspace(lo, hi, num)")
    lo, hi = _int(c.args[0], "grid start"), _int(c.args[1], "grid end")
    num = c.args[2]
    if not (isinstance(num, ast.BinOp) and isinstance(num.op, ast.Add) and _self(num.left, "grid_size")):
        raise U(f"{fn.name}: number of grid points is not self.grid_size + k")
    return lo, hi, _int(num.right, "grid points offset")


def _idxmax(fn, target_pred):
    a = _walk_assign(fn, target_pred)
    if len(a) != 1:
        raise U(f"{fn.name}: best index is not assigned exactly once")
    c = a[0].value
    if not (isinstance(c, ast.Call) and isinstance(c.func, ast.Attribute) and isinstance(c.func.value, ast.Name)
            and not c.args and not c.keywords):
        raise U(f"{fn.name}: best index is not <series>.idxmax()")
    # pandas `Series.idxmax()` / `.argmax()`: label / position of the FIRST maximum (the curves carry a RangeIndex, so both are the
    # position); `.idxmin()` / `.argmin()`: of the FIRST minimum.  Which one is emitted (`bestIsIdxmax` / `eoBestIsIdxmax`).
    if c.func.attr not in ("idxmax", "argmax", "idxmin", "argmin"):
        raise U(f"{fn.name}: best index uses .{c.func.attr}()")
    return a[0].targets[0].id, c.func.value.id, c.func.attr in ("idxmax", "argmax")


def _group_loop(fn):
    loops = [s for s in fn.body if isinstance(s, ast.For) and isinstance(s.target, ast.Tuple) and len(s.target.elts) == 2]
    if len(loops) != 1:
        raise U(f"{fn.name}: group loop not found")
    lp = loops[0]
    key, grp = [_name(e, "group loop target") for e in lp.target.elts]
    src = _name(lp.iter, "group loop iterable")
    a, _ = _single_assigns(_body(fn))
    c = a.get(src)
    if not (isinstance(c, ast.Call) and isinstance(c.func, ast.Name) and c.func.id == "_reformat_and_group_data"
            and [_name(x, "argument") for x in c.args] == ["sensitive_features", "labels", "scores"] and not c.keywords):
        raise U(f"{fn.name}: groups do not come from _reformat_and_group_data(sensitive_features, labels, scores)")
    return lp, key, grp


def _curve_calls(fn, lp, key, grp, simple):
    """hull = _tradeoff_curve(group, key, flip=self.flip[, x_metric=self.x_metric_, y_metric=self.y_metric_]);
       self._tradeoff_curve[key] = _interpolate_curve(hull, "x", "y", "operation", self._x_grid)"""
    la, dup = _single_assigns(lp.body)
    hull = [k for k, v in la.items() if isinstance(v, ast.Call) and isinstance(v.func, ast.Name) and v.func.id == "_tradeoff_curve"]
    if len(hull) != 1 or dup:
        raise U(f"{fn.name}: _tradeoff_curve call not found")
    c = la[hull[0]]
    if [_name(x, "argument") for x in c.args[:2]] != [grp, key] or len(c.args) > 5:
        raise U(f"{fn.name}: _tradeoff_curve is not called with (group, sensitive_feature_value)")
    kw = {k.arg: k.value for k in c.keywords}
    # positional arguments are bound against the signature _tradeoff_curve(data, sensitive_feature_value, flip, x_metric, y_metric)
    for pname, val in zip(["flip", "x_metric", "y_metric"], c.args[2:]):
        if pname in kw:
            raise U(f"{fn.name}: _tradeoff_curve gets {pname} twice")
        kw[pname] = val
    want = {"flip": "flip"}
    if simple:
        want.update(x_metric="x_metric_", y_metric="y_metric_")
    if sorted(kw) != sorted(want) or any(not _self(kw[k], v) for k, v in want.items()):
        raise U(f"{fn.name}: _tradeoff_curve keywords {sorted(kw)} are not {want}")
    st = [s for s in lp.body if isinstance(s, ast.Assign) and isinstance(s.targets[0], ast.Subscript)
          and _self(s.targets[0].value, "_tradeoff_curve")]
    if len(st) != 1 or not (isinstance(st[0].targets[0].slice, ast.Name) and st[0].targets[0].slice.id == key):
        raise U(f"{fn.name}: self._tradeoff_curve[<key>] assignment not found")
    ic = st[0].value
    ok = (isinstance(ic, ast.Call) and isinstance(ic.func, ast.Name) and ic.func.id == "_interpolate_curve" and len(ic.args) == 5
          and not ic.keywords and isinstance(ic.args[0], ast.Name) and ic.args[0].id == hull[0]
          and [getattr(x, "value", None) for x in ic.args[1:4]] == ["x", "y", "operation"] and _self(ic.args[4], "_x_grid"))
    if not ok:
        raise U(f'{fn.name}: not _interpolate_curve(<hull>, "x", "y", "operation", self._x_grid)')


def _curve_y(node, key):
    """self._tradeoff_curve[key]["y"]"""
    return (isinstance(node, ast.Subscript) and isinstance(node.slice, ast.Constant) and node.slice.value == "y"
            and isinstance(node.value, ast.Subscript) and _self(node.value.value, "_tradeoff_curve")
            and isinstance(node.value.slice, ast.Name) and node.value.slice.id == key)


def _bunch(fn, row_var, extra):
    """interpolation_dict[key] = Bunch(p0=row.p0, ...)"""
    calls = [n for n in ast.walk(fn) if isinstance(n, ast.Call) and isinstance(n.func, ast.Name) and n.func.id == "Bunch"]
    if len(calls) != 1 or calls[0].args:
        raise U(f"{fn.name}: expected exactly one Bunch(...) keyword call")
    kw = {k.arg: k.value for k in calls[0].keywords}
    if sorted(kw) != sorted(BUNCH + list(extra)):
        raise U(f"{fn.name}: Bunch fields {sorted(kw)}")
    for f in BUNCH:
        v = kw[f]
        if not (isinstance(v, ast.Attribute) and isinstance(v.value, ast.Name) and v.value.id == row_var and v.attr == f):
            raise U(f"{fn.name}: Bunch field {f} is not taken from the same field of the selected curve row")
    return kw


def _simple(tree):
    fn = _find_func(tree, "_threshold_optimization_for_simple_constraints")
    if [a.arg for a in fn.args.args] != ["self", "sensitive_features", "labels", "scores"]:
        raise U("simple: signature changed")
    only_statements("_threshold_optimization_for_simple_constraints", _body(fn), allowed_expr_calls=("logger.debug",),
                    Assign=14, AugAssign=1, For=2, Return=1)
    lo, hi, extra = _grid(fn)
    a, _ = _single_assigns(_body(fn))
    if not (isinstance(a.get("n"), ast.Call) and ast.unparse(a["n"]) == "len(labels)"):
        raise U("simple: n is not len(labels)")
    lp, key, grp = _group_loop(fn)
    _curve_calls(fn, lp, key, grp, simple=True)
    la, _ = _single_assigns(lp.body)
    aug = [s for s in lp.body if isinstance(s, ast.AugAssign)]
    if len(aug) != 1 or not isinstance(aug[0].op, ast.Add):
        raise U("simple: the `overall += ...` accumulation changed")
    overall = _name(aug[0].target, "overall curve")

    # <weight> * curve["y"] (either order); the weight is a local of the loop body or the expression itself
    av = aug[0].value
    if not (isinstance(av, ast.BinOp) and isinstance(av.op, ast.Mult) and (_curve_y(av.left, key) != _curve_y(av.right, key))):
        raise U("simple: the accumulated term is not <group weight> * curve['y']")
    wnode = av.right if _curve_y(av.left, key) else av.left
    acc = _pin("(y * p)" if _curve_y(av.left, key) else "(p * y)")
    if isinstance(wnode, ast.Name):
        if wnode.id not in la:
            raise U(f"simple: unknown name {wnode.id} in the accumulation")
        wnode = la[wnode.id]

    def atom_freq(node):
        if isinstance(node, ast.Call) and ast.unparse(node) == f"len({grp})":
            return "glen"
        if isinstance(node, ast.Name):
            if node.id == "n":
                return "n"
            raise U(f"simple: unknown name {node.id} in the group frequency")
        if isinstance(node, ast.Call):
            raise U("simple: call in the group frequency")
        return None
    freq = _expr(wnode, atom_freq)
    # overall = C * self._x_grid
    init = a.get(overall)
    if isinstance(init, ast.BinOp) and isinstance(init.op, ast.Mult) and _self(init.left, "_x_grid"):
        init = ast.BinOp(left=init.right, op=init.op, right=init.left)      # `grid * c` is `c * grid`
    if not (isinstance(init, ast.BinOp) and isinstance(init.op, ast.Mult) and _self(init.right, "_x_grid")):
        raise U("simple: start value of the overall curve is not <c> * self._x_grid")
    c0 = _int(init.left, "overall start coefficient")
    ib, series, is_max = _idxmax(fn, lambda t: isinstance(t, ast.Name) and t.id == "i_best")
    if series != overall:
        raise U("simple: idxmax is not taken of the overall curve")
    # best_interpolation = self._tradeoff_curve[key].iloc[i_best]
    rows = [n for n in ast.walk(fn) if isinstance(n, ast.Assign) and isinstance(n.value, ast.Subscript)
            and isinstance(n.value.value, ast.Attribute) and n.value.value.attr == "iloc"]
    if len(rows) != 1 or not (isinstance(rows[0].value.slice, ast.Name) and rows[0].value.slice.id == ib
                              and isinstance(rows[0].value.value.value, ast.Subscript)
                              and _self(rows[0].value.value.value.value, "_tradeoff_curve")):
        raise U("simple: the rule is not self._tradeoff_curve[<key>].iloc[i_best]")
    _bunch(fn, _name(rows[0].targets[0], "curve row"), [])
    xb = _walk_assign(fn, lambda t: _self(t, "_x_best"))
    if len(xb) != 1 or ast.unparse(xb[0].value) != f"self._x_grid[{ib}]":
        raise U("simple: self._x_best is not self._x_grid[i_best]")
    return {"lo": lo, "hi": hi, "extra": extra, "freq": freq, "acc": acc, "c0": c0, "is_max": is_max}


def _eo(tree):
    fn = _find_func(tree, "_threshold_optimization_for_equalized_odds")
    if [a.arg for a in fn.args.args] != ["self", "sensitive_features", "labels", "scores"]:
        raise U("EO: signature changed")
    only_statements("_threshold_optimization_for_equalized_odds", _body(fn), allowed_expr_calls=("logger.debug",),
                    Assign=24, For=2, If=2, Return=1)
    grid = _grid(fn)
    lp, key, grp = _group_loop(fn)
    _curve_calls(fn, lp, key, grp, simple=False)
    a, _ = _single_assigns(_body(fn))
    if not (isinstance(a.get("n"), ast.Call) and ast.unparse(a["n"]) == "len(labels)"):
        raise U("EO: n is not len(labels)")
    # n_positive: sum(labels) (DataFrame: labels.sum().iloc[0]);  n_negative = <expr in n, n_positive>
    pos = [n for n in ast.walk(fn) if isinstance(n, ast.Assign) and isinstance(n.targets[0], ast.Name)
           and n.targets[0].id == "n_positive"]
    # either the plain `n_positive = sum(labels)`, or that in the else branch of `if isinstance(labels, pd.DataFrame):` whose
    # body is `n_positive = labels.sum().iloc[0]` (as a statement or as a conditional expression)
    def branches():
        if len(pos) == 1 and isinstance(pos[0].value, ast.IfExp):
            e = pos[0].value
            return ast.unparse(e.test), ast.unparse(e.body), ast.unparse(e.orelse)
        if len(pos) == 1:
            return None, None, ast.unparse(pos[0].value)
        ifs_ = [s_ for s_ in _body(fn) if isinstance(s_, ast.If) and len(s_.body) == 1 and len(s_.orelse) == 1
                and s_.body[0] in pos and s_.orelse[0] in pos]
        if len(pos) == 2 and len(ifs_) == 1:
            return ast.unparse(ifs_[0].test), ast.unparse(ifs_[0].body[0].value), ast.unparse(ifs_[0].orelse[0].value)
        raise U(f"EO: n_positive is assigned {len(pos)} times in an unknown shape")
    test_, df_, plain_ = branches()
    if plain_ != "sum(labels)" or (test_, df_) not in ((None, None), ("isinstance(labels, pd.DataFrame)", "labels.sum().iloc[0]")):
        raise U(f"EO: n_positive is computed as {[test_, df_, plain_]}")

    def atom_neg(node):
        if isinstance(node, ast.Name):
            if node.id == "n":
                return "n"
            if node.id == "n_positive":
                return "npos"
            raise U(f"EO: unknown name {node.id} in n_negative")
        return None
    if "n_negative" not in a:
        raise U("EO: n_negative not found")
    nneg = _expr(a["n_negative"], atom_neg)
    # y_values[key] = self._tradeoff_curve[key]["y"];  self._y_min = np.amin(y_values, axis=1)
    yv = [s for s in lp.body if isinstance(s, ast.Assign) and isinstance(s.targets[0], ast.Subscript)
          and isinstance(s.targets[0].value, ast.Name) and _curve_y(s.value, key)]
    if len(yv) != 1 or not (isinstance(yv[0].targets[0].slice, ast.Name) and yv[0].targets[0].slice.id == key):
        raise U("EO: y_values[<key>] = curve['y'] not found")
    ym = _walk_assign(fn, lambda t: _self(t, "_y_min"))
    if len(ym) != 1:
        raise U("EO: self._y_min is not assigned exactly once")
    c = ym[0].value
    if not (isinstance(c, ast.Call) and isinstance(c.func, ast.Attribute) and len(c.args) == 1
            and isinstance(c.args[0], ast.Name) and c.args[0].id == yv[0].targets[0].value.id
            and [(k.arg, getattr(k.value, "value", None)) for k in c.keywords] == [("axis", 1)]):
        # np.amin(a, axis) positionally
        if isinstance(c, ast.Call) and len(c.args) == 2 and not c.keywords:
            c = ast.Call(func=c.func, args=c.args[:1], keywords=[ast.keyword(arg="axis", value=c.args[1])])
    REDUCE = {"amin": True, "min": True, "amax": False, "max": False}
    if not (isinstance(c, ast.Call) and isinstance(c.func, ast.Attribute) and c.func.attr in REDUCE and len(c.args) == 1
            and isinstance(c.func.value, ast.Name) and c.func.value.id in ("np", "numpy")
            and isinstance(c.args[0], ast.Name) and c.args[0].id == yv[0].targets[0].value.id
            and [(k.arg, getattr(k.value, "value", None)) for k in c.keywords] == [("axis", 1)]):
        raise U("EO: self._y_min is not np.amin / np.amax (y_values, axis=1)")
    reduce_is_min = REDUCE[c.func.attr]
    # objective_values = np.around(METRIC_DICT[self.objective](counts), d)
    ov = a.get("objective_values")
    if not (isinstance(ov, ast.Call) and isinstance(ov.func, ast.Attribute) and ov.func.attr == "around" and len(ov.args) == 2
            and ast.unparse(ov.args[0]) == "METRIC_DICT[self.objective](counts)"):
        raise U("EO: objective_values is not np.around(METRIC_DICT[self.objective](counts), d)")
    decimals = _int(ov.args[1], "np.around decimals")
    ib, series, is_max = _idxmax(fn, lambda t: isinstance(t, ast.Name) and t.id == "i_best_EO")
    if series != "objective_values":
        raise U("EO: idxmax is not taken of objective_values")
    for attr, arr in (("_x_best", "_x_grid"), ("_y_best", "_y_min")):
        s = _walk_assign(fn, lambda t, attr=attr: _self(t, attr))
        if len(s) != 1 or ast.unparse(s[0].value) != f"self.{arr}[{ib}]":
            raise U(f"EO: self.{attr} is not self.{arr}[i_best_EO]")
    # second loop: roc_result = self._tradeoff_curve[key].transpose()[i_best_EO]; p_ignore
    loops = [s for s in fn.body if isinstance(s, ast.For) and isinstance(s.target, ast.Name)]
    if len(loops) != 1:
        raise U("EO: rule loop not found")
    rl = loops[0]
    k2 = rl.target.id
    if ast.unparse(rl.iter) != "self._tradeoff_curve.keys()":
        raise U("EO: rule loop does not run over self._tradeoff_curve.keys()")
    la, _ = _single_assigns(rl.body)
    row = [k for k, v in la.items() if ast.unparse(v) == f"self._tradeoff_curve[{k2}].transpose()[{ib}]"]
    if len(row) != 1:
        raise U("EO: roc_result is not self._tradeoff_curve[<key>].transpose()[i_best_EO]")
    rr = row[0]
    ifs = [s for s in rl.body if isinstance(s, ast.If)]
    if len(ifs) != 1:
        raise U("EO: p_ignore branch not found")
    t = ifs[0].test
    if not (isinstance(t, ast.Compare) and len(t.ops) == 1 and isinstance(t.ops[0], ast.Eq)
            and sorted([ast.unparse(t.left), ast.unparse(t.comparators[0])]) == [f"{rr}.x", f"{rr}.y"]):
        raise U("EO: the diagonal test is not `roc_result.y == roc_result.x`")
    if not (len(ifs[0].body) == 1 and isinstance(ifs[0].body[0], ast.Assign) and isinstance(ifs[0].body[0].targets[0], ast.Name)):
        raise U("EO: diagonal branch is not a single assignment")
    pvar = ifs[0].body[0].targets[0].id
    diag = _int(ifs[0].body[0].value, "p_ignore on the diagonal")
    ea, edup = _single_assigns(ifs[0].orelse)
    if edup or pvar not in ea:
        raise U("EO: else branch does not assign p_ignore once")

    def atom_pi(node):
        if isinstance(node, ast.Attribute):
            if isinstance(node.value, ast.Name) and node.value.id == rr and node.attr in ("x", "y"):
                return node.attr
            if _self(node, "_y_best"):
                return "ybest"
            raise U(f"EO: unknown term {ast.unparse(node)} in p_ignore")
        if isinstance(node, ast.Name):
            if node.id in ea and node.id != pvar:
                return _expr(ea[node.id], atom_pi)
            raise U(f"EO: unknown name {node.id} in p_ignore")
        return None
    pi = _expr(ea[pvar], atom_pi)
    kw = _bunch(fn, rr, ["p_ignore", "prediction_constant"])
    if not (isinstance(kw["p_ignore"], ast.Name) and kw["p_ignore"].id == pvar):
        raise U("EO: Bunch(p_ignore=p_ignore, ...) changed")

    # prediction_constant: an arithmetic expression in self._x_best / self._y_best (both pinned above to the grid value / the
    # minimal TPR at the best index) and numerals; emitted as `predictionConstant`
    def atom_pc(node):
        if isinstance(node, ast.Attribute):
            if _self(node, "_x_best"):
                return "xbest"
            if _self(node, "_y_best"):
                return "ybest"
            raise U(f"EO: unknown term {ast.unparse(node)} in prediction_constant")
        if isinstance(node, ast.Name) and node.id in la and node.id not in (rr, pvar):
            return _expr(la[node.id], atom_pc)          # a local of the rule loop, through its single assignment
        if isinstance(node, (ast.Name, ast.Call, ast.Subscript)):
            raise U(f"EO: unknown term {ast.unparse(node)} in prediction_constant")
        return None
    pc = _expr(kw["prediction_constant"], atom_pc)
    return {"grid": grid, "nneg": nneg, "decimals": decimals, "diag": diag, "pi": pi, "is_max": is_max,
            "reduce_is_min": reduce_is_min, "pc": pc}


def _reformat(tree):
    fn = _find_func(tree, "_reformat_and_group_data")
    calls = [n for n in ast.walk(fn) if isinstance(n, ast.Call) and isinstance(n.func, ast.Name)
             and n.func.id == "_reformat_data_into_dict"]
    pairs = sorted((ast.unparse(c.args[0]), ast.unparse(c.args[2])) for c in calls if len(c.args) == 3)
    if pairs != [("LABEL_KEY", "labels"), ("SCORE_KEY", "scores"), ("sensitive_feature_name", "sensitive_features")]:
        raise U(f"_reformat_and_group_data: key / data pairs {pairs}")
    ret = [s for s in _body(fn) if isinstance(s, ast.Return)]
    if len(ret) != 1 or ast.unparse(ret[0].value) != "pd.DataFrame(data_dict).groupby(sensitive_feature_name)":
        raise U("_reformat_and_group_data: does not return pd.DataFrame(data_dict).groupby(sensitive_feature_name)")
    fn2 = _find_func(tree, "_reformat_data_into_dict")
    if [a.arg for a in fn2.args.args] != ["key", "data_dict", "additional_data"]:
        raise U("_reformat_data_into_dict: signature changed")
    stores = {}
    cur = [s for s in _body(fn2) if isinstance(s, ast.If)]
    if len(cur) != 1:
        raise U("_reformat_data_into_dict: not a single if / elif chain")
    node = cur[0]
    while True:
        t = node.test
        if not (isinstance(t, ast.Call) and isinstance(t.func, ast.Name) and t.func.id == "isinstance" and len(t.args) == 2):
            raise U("_reformat_data_into_dict: branch test is not isinstance(additional_data, <type>)")
        ty = ast.unparse(t.args[1])
        vals = [ast.unparse(n.value) for n in ast.walk(node) if isinstance(n, ast.Assign)
                and ast.unparse(n.targets[0]) == "data_dict[key]" and n in _flat(node.body)]
        stores[ty] = vals
        if len(node.orelse) == 1 and isinstance(node.orelse[0], ast.If):
            node = node.orelse[0]
            continue
        break
    want = {"np.ndarray": ["additional_data.squeeze()"], "pd.DataFrame": ["additional_data[attribute_column].values"],
            "pd.Series": ["additional_data.values"], "list": ["map(lambda a: a[0], additional_data)", "additional_data"]}
    if stores != want:
        raise U(f"_reformat_data_into_dict: stored values {stores}")
    return True


def _flat(stmts):
    out = []
    for s in stmts:
        out.append(s)
        for f in ("body", "orelse"):
            if hasattr(s, f) and not isinstance(s, ast.If):
                out += _flat(getattr(s, f))
        if isinstance(s, ast.If):
            out += _flat(s.body) + _flat(s.orelse)
    return out


def _fit(tree):
    fit = _find_func(tree, "fit")
    found = {}
    for n in ast.walk(fit):
        if isinstance(n, ast.If) and ast.unparse(n.test) == "self.constraints == 'equalized_odds'" and n.orelse:
            for s in n.orelse:
                if isinstance(s, ast.Assign) and _self(s.targets[0]):
                    found[s.targets[0].attr] = ast.unparse(s.value)
                if isinstance(s, ast.Assign) and isinstance(s.targets[0], ast.Name):
                    found[s.targets[0].id] = ast.unparse(s.value)
    if found.get("x_metric_") != "SIMPLE_CONSTRAINTS[self.constraints]" or found.get("y_metric_") != "self.objective" \
            or found.get("threshold_optimization_method") != "self._threshold_optimization_for_simple_constraints":
        raise U(f"fit: simple-constraint branch {found}")
    calls = [n for n in ast.walk(fit) if isinstance(n, ast.Call) and isinstance(n.func, ast.Name)
             and n.func.id == "threshold_optimization_method"]
    if len(calls) != 1 or [ast.unparse(x) for x in calls[0].args] != ["sensitive_feature_vector", "y", "scores"]:
        raise U("fit: threshold_optimization_method(sensitive_feature_vector, y, scores) changed")
    return True


def _r(v):
    return f"({v} : Rat)"


def _b(v):
    return "true" if v else "false"


@translate.lifter
def lift_thresholdfit(repo):
    tree = parse_top(repo)
    sm = _simple(tree)
    eo = _eo(tree)
    if eo["grid"] != (sm["lo"], sm["hi"], sm["extra"]):
        raise U("the two optimisation methods use different grids")
    _reformat(tree)
    _fit(tree)
    L = ["/-\nGENERATED by harness/lifters/thresholdfit.py from\n  " + TOF +
         "\nDo not edit: rewritten on every run from the tree under check.\n-/\nset_option linter.unusedVariables false\n",
         "namespace ThresholdFitSrc\n"]
    L.append("/-- `np.linspace(gridLo, gridHi, grid_size + gridExtra)` -/")
    L.append(f"def gridLo : Rat := {_r(sm['lo'])}\ndef gridHi : Rat := {_r(sm['hi'])}\ndef gridExtra : Nat := {sm['extra']}")
    L.append(f"/-- `p_sensitive_feature_value` (glen = len(group), n = len(labels)) -/\ndef groupFreq (glen n : Rat) : Rat := {sm['freq']}")
    L.append(f"/-- start value of every entry of `overall_tradeoff_curve` (`c * x_grid`) -/\ndef objInit (x : Rat) : Rat := ({_r(sm['c0'])} * x)")
    L.append(f"/-- `overall_tradeoff_curve += ...` (p = the group's frequency, y = its interpolated objective) -/")
    L.append(f"def objAccum (acc p y : Rat) : Rat := (acc + {sm['acc']})")
    L.append("/-- the best grid index of the simple-constraint method: `Series.idxmax()` = the FIRST maximum (true) or `.idxmin()` = the "
             "FIRST minimum (false) -/\ndef bestIsIdxmax : Bool := " + _b(sm["is_max"]))
    L.append("/-- the same for `i_best_EO` -/\ndef eoBestIsIdxmax : Bool := " + _b(eo["is_max"]))
    L.append("/-- `self._y_min`: `np.amin(y_values, axis=1)` = the minimum over the groups at every grid point (true), `np.amax` (false) -/"
             "\ndef yMinIsAmin : Bool := " + _b(eo["reduce_is_min"]))
    L.append(f"/-- equalized odds: `n_negative` -/\ndef eoNNeg (n npos : Rat) : Rat := {eo['nneg']}")
    L.append(f"/-- `np.around(objective, {eo['decimals']})` before the arg-max (`Threshold.aroundModel`: the identity on the exact model) -/\ndef aroundDecimals : Nat := {eo['decimals']}")
    L.append(f"/-- `prediction_constant` of every rule (xbest = `self._x_best`, ybest = `self._y_best`) -/\ndef predictionConstant (xbest ybest : Rat) : Rat := {eo['pc']}")
    L.append("/-- `roc_result.y == roc_result.x`: the point is on the ROC diagonal, p_ignore is the constant below -/")
    L.append(f"def pIgnoreOnDiagonal (x y : Rat) : Bool := decide (y = x)\ndef pIgnoreDiagValue : Rat := {_r(eo['diag'])}")
    L.append(f"/-- otherwise (ybest = the pointwise minimum TPR at x_best) -/\ndef pIgnoreValue (x y ybest : Rat) : Rat := {eo['pi']}")
    L.append("\nend ThresholdFitSrc\n")
    return "ThresholdFitSrc.lean", "\n".join(L), {"freq": sm["freq"], "accum": sm["acc"], "p_ignore": eo["pi"]}
