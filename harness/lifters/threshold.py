"""Lifter for the ThresholdOptimizer tables and closed arithmetic expressions.

Reads (with `ast`, never by importing) from the tree under check:
  fairlearn/postprocessing/_tradeoff_curve_utilities.py
      METRIC_DICT                         -> `Metric` + `Metric.eval`
      _extend_confusion_matrix            -> derived fields of `CM`
      _calculate_tradeoff_points          -> `actualCounts`, `flippedCounts`, `operationsFlip`, `operationsNoFlip`
  fairlearn/postprocessing/_threshold_optimizer.py
      SIMPLE_CONSTRAINTS, OBJECTIVES_FOR_SIMPLE_CONSTRAINTS, OBJECTIVES_FOR_EQUALIZED_ODDS
      _threshold_optimization_for_equalized_odds: the `counts = _extend_confusion_matrix(...)` call -> `eoCounts`,
      the x/y metric names chosen in `fit` for equalized odds -> `eoXMetric`, `eoYMetric`
and writes lean/FairModel/Generated/ThresholdTables.lean.  Anything of an unexpected shape raises Untranslatable.
"""
import ast
import os
from fractions import Fraction

from .. import translate
from . import normalize
from ..translate import Untranslatable

TCU = "fairlearn/postprocessing/_tradeoff_curve_utilities.py"
TOP = "fairlearn/postprocessing/_threshold_optimizer.py"
BASE = ["true_positives", "false_positives", "true_negatives", "false_negatives"]
# the local variables, in order of first binding, of the functions of _tradeoff_curve_utilities.py as the lifters were
# written against them (normalize.canon_tree: new temporaries are inlined, renamed locals get these names back)
PINNED_TCU = {
    "_extend_confusion_matrix": [],
    "_tradeoff_curve": ["points_sorted", "points_selected"],
    "_filter_points_to_get_convex_hull": ["selected", "r2", "r1", "r0"],
    "_interpolate_curve": ["x_values", "y_values", "content_values", "content_col_0", "content_col_1",
                           "interpolation_indices", "x_distance_from_next_data_point", "x_distance_between_data_points",
                           "p0", "p1", "y"],
    "_get_interpolation_indices": ["indices"],
    "_calculate_tradeoff_points": ["scores", "labels", "n", "n_positive", "n_negative", "i", "count", "x_list", "y_list",
                                   "operation_list", "threshold", "actual_counts", "flipped_counts", "operations",
                                   "operation_string", "counts", "x", "y", "operation"],
    "_get_scores_labels_and_counts": ["data_sorted", "scores", "labels", "n", "n_positive", "n_negative"],
    "_get_counts": ["n", "n_positive", "n_negative"],
}
TCU_PURE_FUNCS = ("METRIC_DICT", "ThresholdOperation", "_extend_confusion_matrix")


PINNED_TOP = {
    "ThresholdOptimizer.fit": ["_", "sensitive_feature_vector", "y_val", "scores", "threshold_optimization_method"],
    "ThresholdOptimizer._threshold_optimization_for_simple_constraints": [
        "n", "overall_tradeoff_curve", "data_grouped_by_sensitive_feature", "sensitive_feature_value", "group",
        "p_sensitive_feature_value", "metrics_curve_convex_hull", "i_best", "interpolation_dict", "best_interpolation"],
    "ThresholdOptimizer._threshold_optimization_for_equalized_odds": [
        "data_grouped_by_sensitive_feature", "n", "n_positive", "n_negative", "y_values", "sensitive_feature_value", "group",
        "roc_convex_hull", "counts", "objective_values", "i_best_EO", "interpolation_dict", "roc_result", "p_ignore",
        "difference_from_best_predictor_for_sensitive_feature", "vertical_distance_from_diagonal"],
    "ThresholdOptimizer.predict": [],
    "ThresholdOptimizer._pmf_predict": [],
    "_reformat_and_group_data": ["data_dict", "sensitive_feature_name"],
    "_reformat_data_into_dict": ["attribute_column", "a"],
}
TOP_PURE_FUNCS = ("METRIC_DICT", "_extend_confusion_matrix", "_tradeoff_curve", "_interpolate_curve", "Bunch",
                  "_reformat_and_group_data", "InterpolatedThresholder")


# SIMPLE_CONSTRAINTS is only looked up by key (its keys reach the user through `sorted(...)`): the order of its entries
# is not observable, so the same mapping is emitted in the pinned order
PINNED_SIMPLE = ["selection_rate_parity", "demographic_parity", "false_positive_rate_parity", "false_negative_rate_parity",
                 "true_positive_rate_parity", "true_negative_rate_parity"]


def pinned_dict_order(pairs):
    keys = [k for k, _ in pairs]
    if sorted(keys) == sorted(PINNED_SIMPLE) and len(set(keys)) == len(keys):
        d = dict(pairs)
        return [(k, d[k]) for k in PINNED_SIMPLE]
    return pairs


def parse_top(repo):
    tree = normalize.inline_module_numbers(normalize.parse(translate._read(repo, TOP)), strings=True)
    return normalize.canon_tree(tree, PINNED_TOP, extra_funcs=TOP_PURE_FUNCS)


def parse_tcu(repo):
    tree = normalize.inline_module_numbers(normalize.parse(translate._read(repo, TCU)))
    return normalize.canon_tree(tree, PINNED_TCU, extra_funcs=TCU_PURE_FUNCS)


# the arithmetic terms this lifter emits for the pinned source (see tradeoff.PINNED_TERMS)
PINNED_TERMS = [
    "(x.true_positives + x.false_positives)", "(x.true_negatives + x.false_negatives)", "(x.true_positives + x.false_negatives)",
    "(x.true_negatives + x.false_positives)", "(((x.true_positives + x.true_negatives) + x.false_positives) + x.false_negatives)",
    "((x.true_positives + x.true_negatives) / x.n)",
    "(((((1 : Rat) / 2) * x.true_positives) / x.positives) + ((((1 : Rat) / 2) * x.true_negatives) / x.negatives))",
    "(npos * y)", "(nneg * x)", "(nneg * ((1 : Rat) - x))", "(npos * ((1 : Rat) - y))",
]


def _pin(term):
    return normalize.lean_prefer(term, PINNED_TERMS)
DERIVED = ["predicted_positives", "predicted_negatives", "positives", "negatives", "n"]


def _num(v):
    if isinstance(v, bool) or not isinstance(v, (int, float)):
        raise Untranslatable(f"threshold lifter: constant {v!r} is not a number")
    f = Fraction(v)
    if isinstance(v, float) and Fraction(str(v)) != f:
        raise Untranslatable(f"threshold lifter: float constant {v!r} is not exactly representable")
    if f.denominator == 1:
        return f"({f.numerator} : Rat)"
    return f"(({f.numerator} : Rat) / {f.denominator})"


def _expr(node, atom):
    """arithmetic over + - * / with atoms resolved by `atom(node) -> str | None`"""
    a = atom(node)
    if a is not None:
        return a
    if isinstance(node, ast.BinOp):
        ops = {ast.Add: "+", ast.Sub: "-", ast.Mult: "*", ast.Div: "/"}
        if type(node.op) not in ops:
            raise Untranslatable(f"threshold lifter: operator {ast.dump(node.op)}")
        return f"({_expr(node.left, atom)} {ops[type(node.op)]} {_expr(node.right, atom)})"
    if isinstance(node, ast.UnaryOp) and isinstance(node.op, ast.USub):
        return f"(-{_expr(node.operand, atom)})"
    if isinstance(node, ast.Constant):
        return _num(node.value)
    raise Untranslatable(f"threshold lifter: cannot translate {ast.dump(node)[:120]}")


def _find_assign(tree, name):
    for n in tree.body:
        if isinstance(n, ast.Assign) and len(n.targets) == 1 and isinstance(n.targets[0], ast.Name) \
                and n.targets[0].id == name:
            return n.value
    raise Untranslatable(f"threshold lifter: top-level assignment {name} not found")


def _find_func(tree, name):
    for n in ast.walk(tree):
        if isinstance(n, ast.FunctionDef) and n.name == name:
            return n
    raise Untranslatable(f"threshold lifter: function {name} not found")


def _ecm_call(node, what):
    if not (isinstance(node, ast.Call) and isinstance(node.func, ast.Name)
            and node.func.id == "_extend_confusion_matrix" and not node.args):
        raise Untranslatable(f"threshold lifter: {what} is not an _extend_confusion_matrix(...) keyword call")
    kw = {k.arg: k.value for k in node.keywords}
    if sorted(kw) != sorted(BASE):
        raise Untranslatable(f"threshold lifter: {what} keywords {sorted(kw)}")
    return kw


def _str_const(node, what):
    if isinstance(node, ast.Constant) and isinstance(node.value, str):
        return node.value
    raise Untranslatable(f"threshold lifter: {what} is not a string literal")


def _metric_dict(tree):
    d = _find_assign(tree, "METRIC_DICT")
    if not isinstance(d, ast.Dict):
        raise Untranslatable("threshold lifter: METRIC_DICT is not a dict literal")
    out = []
    for k, v in zip(d.keys, d.values):
        name = _str_const(k, "METRIC_DICT key")
        if not (isinstance(v, ast.Lambda) and len(v.args.args) == 1 and not v.args.kwonlyargs):
            raise Untranslatable(f"threshold lifter: METRIC_DICT[{name}] is not a one-argument lambda")
        arg = v.args.args[0].arg

        def atom(node, arg=arg):
            if isinstance(node, ast.Attribute) and isinstance(node.value, ast.Name) and node.value.id == arg:
                if node.attr not in BASE + DERIVED:
                    raise Untranslatable(f"threshold lifter: unknown confusion field {node.attr}")
                return f"x.{node.attr}"
            return None
        out.append((name, _pin(_expr(v.body, atom))))
    return out


def _extend(tree):
    fn = _find_func(tree, "_extend_confusion_matrix")
    if [a.arg for a in fn.args.kwonlyargs] != BASE or fn.args.args:
        raise Untranslatable("threshold lifter: _extend_confusion_matrix signature changed")
    ret = [n for n in fn.body if isinstance(n, ast.Return)]
    if len(ret) != 1 or not (isinstance(ret[0].value, ast.Call) and isinstance(ret[0].value.func, ast.Name)
                             and ret[0].value.func.id == "Bunch"):
        raise Untranslatable("threshold lifter: _extend_confusion_matrix does not return Bunch(...)")
    kw = {k.arg: k.value for k in ret[0].value.keywords}
    if sorted(kw) != sorted(BASE + DERIVED):
        raise Untranslatable(f"threshold lifter: Bunch fields {sorted(kw)}")
    for b in BASE:
        if not (isinstance(kw[b], ast.Name) and kw[b].id == b):
            raise Untranslatable(f"threshold lifter: Bunch field {b} is not passed through")

    def atom(node):
        if isinstance(node, ast.Name):
            if node.id not in BASE:
                raise Untranslatable(f"threshold lifter: unknown name {node.id} in _extend_confusion_matrix")
            return f"x.{node.id}"
        return None
    return [(d, _pin(_expr(kw[d], atom))) for d in DERIVED]


def _sweep(tree):
    fn = _find_func(tree, "_calculate_tradeoff_points")
    found = {}
    ops = {}
    for n in ast.walk(fn):
        if isinstance(n, ast.Assign) and len(n.targets) == 1 and isinstance(n.targets[0], ast.Name):
            t = n.targets[0].id
            if t in ("actual_counts", "flipped_counts"):
                if t in found:
                    raise Untranslatable(f"threshold lifter: {t} assigned twice")
                found[t] = _ecm_call(n.value, t)
        if isinstance(n, ast.If) and isinstance(n.test, ast.Name) and n.test.id == "flip":
            for key, body in (("flip", n.body), ("noflip", n.orelse)):
                if len(body) != 1 or not (isinstance(body[0], ast.Assign) and isinstance(body[0].value, ast.List)
                                          and body[0].targets[0].id == "operations"):
                    raise Untranslatable("threshold lifter: `operations = [...]` shape changed")
                lst = []
                for e in body[0].value.elts:
                    if not (isinstance(e, ast.Tuple) and len(e.elts) == 2 and isinstance(e.elts[1], ast.Name)):
                        raise Untranslatable("threshold lifter: operations entry shape changed")
                    op = _str_const(e.elts[0], "operation string")
                    if op not in (">", "<") or e.elts[1].id not in ("actual_counts", "flipped_counts"):
                        raise Untranslatable(f"threshold lifter: operations entry {op} {e.elts[1].id}")
                    lst.append((op, e.elts[1].id))
                ops[key] = lst
    if sorted(found) != ["actual_counts", "flipped_counts"] or sorted(ops) != ["flip", "noflip"]:
        raise Untranslatable("threshold lifter: sweep assignments not found")

    def atom(node):
        if isinstance(node, ast.Subscript) and isinstance(node.value, ast.Name) and node.value.id == "count" \
                and isinstance(node.slice, ast.Constant) and node.slice.value in (0, 1):
            return f"c{node.slice.value}"
        if isinstance(node, ast.Name):
            if node.id == "n_negative":
                return "nneg"
            if node.id == "n_positive":
                return "npos"
            raise Untranslatable(f"threshold lifter: unknown name {node.id} in sweep counts")
        return None
    res = {t: {b: _pin(_expr(found[t][b], atom)) for b in BASE} for t in found}
    return res, ops


def _eo(tree):
    fn = _find_func(tree, "_threshold_optimization_for_equalized_odds")
    call = None
    for n in ast.walk(fn):
        if isinstance(n, ast.Assign) and len(n.targets) == 1 and isinstance(n.targets[0], ast.Name) \
                and n.targets[0].id == "counts":
            if call is not None:
                raise Untranslatable("threshold lifter: counts assigned twice in equalized odds")
            call = _ecm_call(n.value, "equalized-odds counts")
    if call is None:
        raise Untranslatable("threshold lifter: equalized-odds counts not found")

    def atom(node):
        if isinstance(node, ast.Attribute) and isinstance(node.value, ast.Name) and node.value.id == "self":
            if node.attr == "_x_grid":
                return "x"
            if node.attr == "_y_min":
                return "y"
            raise Untranslatable(f"threshold lifter: self.{node.attr} in equalized-odds counts")
        if isinstance(node, ast.Name):
            if node.id == "n_negative":
                return "nneg"
            if node.id == "n_positive":
                return "npos"
            raise Untranslatable(f"threshold lifter: unknown name {node.id} in equalized-odds counts")
        return None
    counts = {b: _pin(_expr(call[b], atom)) for b in BASE}
    # x/y metric chosen in fit() for equalized odds
    fit = _find_func(tree, "fit")
    xy = {}
    for n in ast.walk(fit):
        if isinstance(n, ast.If) and isinstance(n.test, ast.Compare) and isinstance(n.test.comparators[0], ast.Constant) \
                and n.test.comparators[0].value == "equalized_odds" and isinstance(n.test.ops[0], ast.Eq):
            for s in n.body:
                if isinstance(s, ast.Assign) and isinstance(s.targets[0], ast.Attribute) \
                        and s.targets[0].attr in ("x_metric_", "y_metric_") and isinstance(s.value, ast.Constant):
                    xy[s.targets[0].attr] = s.value.value
    if sorted(xy) != ["x_metric_", "y_metric_"]:
        raise Untranslatable("threshold lifter: equalized-odds x/y metric assignment not found")
    # the tradeoff curve for equalized odds is built with the *defaults* of _tradeoff_curve; they must agree
    return counts, xy


def _defaults_of_tradeoff_curve(tree):
    fn = _find_func(tree, "_tradeoff_curve")
    names = [a.arg for a in fn.args.args]
    defs = fn.args.defaults
    m = dict(zip(names[len(names) - len(defs):], defs))
    return _str_const(m["x_metric"], "x_metric default"), _str_const(m["y_metric"], "y_metric default")


def _cm(fields, indent="  "):
    return "{ " + ", ".join(f"{b} := {fields[b]}" for b in BASE) + " }"


@translate.lifter
def lift_threshold(repo):
    t1 = parse_tcu(repo)
    t2 = parse_top(repo)
    metrics = _metric_dict(t1)
    derived = _extend(t1)
    sweep, ops = _sweep(t1)
    eo_counts, eo_xy = _eo(t2)
    dx, dy = _defaults_of_tradeoff_curve(t1)
    if (dx, dy) != (eo_xy["x_metric_"], eo_xy["y_metric_"]):
        raise Untranslatable("threshold lifter: equalized odds x/y metrics differ from _tradeoff_curve defaults")
    names = [m for m, _ in metrics]
    simple = _find_assign(t2, "SIMPLE_CONSTRAINTS")
    if not isinstance(simple, ast.Dict):
        raise Untranslatable("threshold lifter: SIMPLE_CONSTRAINTS is not a dict literal")
    simple = [(_str_const(k, "constraint"), _str_const(v, "metric")) for k, v in zip(simple.keys, simple.values)]
    simple = pinned_dict_order(simple)

    def strset(name):
        v = _find_assign(t2, name)
        if not isinstance(v, ast.Set):
            raise Untranslatable(f"threshold lifter: {name} is not a set literal")
        return sorted(_str_const(e, name) for e in v.elts)
    obj_simple = strset("OBJECTIVES_FOR_SIMPLE_CONSTRAINTS")
    obj_eo = strset("OBJECTIVES_FOR_EQUALIZED_ODDS")
    for m in [v for _, v in simple] + obj_simple + obj_eo + [dx, dy]:
        if m not in names:
            raise Untranslatable(f"threshold lifter: metric {m} not in METRIC_DICT")

    L = []
    L.append("/-\nGENERATED by harness/lifters/threshold.py from\n  " + TCU + "\n  " + TOP +
             "\nDo not edit: rewritten on every run from the tree under check.\n-/\n")
    L.append("namespace ThresholdGen\n")
    L.append("/-- the four confusion counts (the keyword arguments of `_extend_confusion_matrix`) -/")
    L.append("structure CM where")
    for b in BASE:
        L.append(f"  {b} : Rat")
    L.append("deriving Repr, DecidableEq\n")
    L.append("namespace CM")
    # only the derived fields some METRIC_DICT entry reads are emitted (a field nothing reads would be pinned by nothing);
    # an edit that makes a metric read another field of the Bunch makes that field appear here
    import re
    used = {d for d, _ in derived if any(re.search(rf"\bx\.{d}\b", e) for _, e in metrics)}
    for d, e in derived:
        if d in used:
            L.append(f"def {d} (x : CM) : Rat := {e}")
    L.append("end CM\n")
    L.append("/-- keys of METRIC_DICT -/")
    L.append("inductive Metric where")
    for m in names:
        L.append(f"  | {m}")
    L.append("deriving Repr, DecidableEq\n")
    L.append("def Metric.eval : Metric → CM → Rat")
    for m, e in metrics:
        L.append(f"  | .{m}, x => {e}")
    L.append("")
    L.append("def Metric.name : Metric → String")
    for m in names:
        L.append(f"  | .{m} => \"{m}\"")
    L.append("")
    L.append("def Metric.all : List Metric := [" + ", ".join("." + m for m in names) + "]\n")
    L.append("/-- SIMPLE_CONSTRAINTS -/")
    L.append("def simpleConstraints : List (String × Metric) :=\n  [" +
             ", ".join(f"(\"{k}\", .{v})" for k, v in simple) + "]\n")
    L.append("def objectivesSimple : List Metric := [" + ", ".join("." + m for m in obj_simple) + "]")
    L.append("def objectivesEO : List Metric := [" + ", ".join("." + m for m in obj_eo) + "]")
    L.append(f"def eoXMetric : Metric := .{dx}")
    L.append(f"def eoYMetric : Metric := .{dy}\n")
    L.append("/-- `actual_counts` / `flipped_counts` of `_calculate_tradeoff_points` (count[0] = c0, count[1] = c1) -/")
    L.append("def actualCounts (c0 c1 nneg npos : Rat) : CM :=\n  " + _cm(sweep["actual_counts"]))
    L.append("def flippedCounts (c0 c1 nneg npos : Rat) : CM :=\n  " + _cm(sweep["flipped_counts"]))
    L.append("")
    L.append("/-- the `operations` list: (operator is `>`, uses actual_counts) -/")
    for key, nm in (("flip", "operationsFlip"), ("noflip", "operationsNoFlip")):
        L.append(f"def {nm} : List (Bool × Bool) := [" +
                 ", ".join(f"({'true' if op == '>' else 'false'}, {'true' if c == 'actual_counts' else 'false'})"
                           for op, c in ops[key]) + "]")
    L.append("")
    L.append("/-- overall counts used for the equalized-odds objective (x = grid FPR, y = minimal TPR) -/")
    L.append("def eoCounts (nneg npos x y : Rat) : CM :=\n  " + _cm(eo_counts))
    L.append("\nend ThresholdGen\n")
    meta = {"metrics": names, "simple_constraints": len(simple), "objectives_simple": obj_simple,
            "objectives_eo": obj_eo}
    return "ThresholdTables.lean", "\n".join(L), meta
