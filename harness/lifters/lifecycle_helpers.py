"""C19, part of harness/lifters/lifecycle.py (no lifter is registered here): the closure of the PREDICTION entry points
followed ACROSS the two helper objects an estimator delegates its predictions to,

  ThresholdOptimizer.interpolated_thresholder_   -> InterpolatedThresholder   (postprocessing/_interpolated_thresholder.py)
  _AdversarialFairness.backendEngine_            -> BackendEngine and every engine subclass that overrides the called
                                                    method: PytorchEngine, TensorflowEngine (adversarial/_*_engine.py)

Estimator side (`helper_calls`): every use of `self.<helper attribute>` in the closure of the prediction entry points must
be `self.<helper>.<m>(..)` with `<m>` a method the helper class(es) define (or the same through a local that is bound once,
to `self.<helper>`, and used for such calls only), or `hasattr(self, "<helper>")`.  Anything else is refused: `getattr` on
the helper or `getattr(self, "<helper>")`, a call of something that is not a method of the helper class
(`self.<helper>.<attr>.<m>(..)`, `self.<helper>.<unknown>(..)`), passing the helper on, other aliasing.

Helper side (`HelperView.predict_facts`), for every method reachable from the called methods through `self.<m>` /
`super(..).<m>` inside the helper class and its bases:

  writes         `self.<a> = ..`, augmented assignment, `del`, for / with targets, `setattr(self, "<a>", ..)`; in-place stores
                 `self.<a>[..] = ..` / `self.<a>.<b> = ..` (reported as `<a>`; stores through the pointer to the estimator,
                 `self.base.<b> = ..`, as `base.<b>`); the same through LOCAL ALIASES (a local bound to `self.<a>`, to an element
                 of it (`for k, v in self.<a>.items()`, `for p in self.<a>.parameters()`), to a method result of it);
                 MUTATING METHOD CALLS on such an object, reported as `<a>.<m>()`: the container mutators (append, extend, insert,
                 pop, popitem, remove, clear, update, setdefault, sort, reverse, add, discard), every method whose name ends in
                 `_` (the torch in-place convention: `mul_`, `fill_`, `zero_`, `copy_`, `requires_grad_`, ..), the optimiser /
                 training calls (zero_grad, step, backward, apply_gradients, load_state_dict, assign, assign_add, assign_sub,
                 fit, partial_fit, set_params, load_data, compile, to, cuda, cpu, double, half, float on a module), and RNG draws
                 (random, rand, randn, randint, choice, shuffle, permutation, seed, manual_seed, uniform, normal)
  modeCalls      `<a>.eval()` / `<a>.train()` / `<a>.train(False|True)` and the keras spelling `<a>(x, training=False|True)`:
                 (attribute, "eval" | "train").  DECISION (documented in Model/LifecycleSrc.lean): the train/eval MODE FLAG of a
                 torch module is not part of what the property calls fitted state (the parameters, buffers and optimiser state
                 are) PROVIDED every forward pass is preceded by a mode call on that module in the same method — then the flag is
                 scratch state that never carries information from one public call to the next.  That proviso is lifted:
  forwardModes   for every call of a callable attribute `self.<a>(..)` (a forward pass): the mode most recently set on `<a>` by a
                 statement that is executed unconditionally before it in the same entry method ("eval" / "train" / "unset")
  selfEscapes    callees that receive the bare `self`
  attrArgs       `<callee>(<a>)` for every plain function that receives a helper attribute (or an alias) as an argument, except
                 the pure builtins / array constructors of PURE_FUNCS
and for `train_step` (the fit-side method that runs the networks) only `forwardModes`, leniently.

Refused (Untranslatable): a method call `<alias of self.a>.<m>(..)` whose name is neither in the pure nor in the mutating list
(the pure list names the calls that occur today: items, keys, values, get, copy, parameters, numpy, detach, ...; the
`ThresholdOperation` objects `operation0` / `operation1` of an interpolation entry are called, their `__call__` is checked to
contain no store), `getattr` / `setattr` / `delattr` with a computed name, `self.__dict__`, `vars(self)`, any bare use of `self`
other than as an argument of a call or in `return self`, a mode call with a non-literal argument, a `super()` call that does
not resolve, a called helper method that a helper class does not define."""
import ast
import os

from . import normalize
from ..translate import Untranslatable

IT_FILE = "fairlearn/postprocessing/_interpolated_thresholder.py"
BE_FILE = "fairlearn/adversarial/_backend_engine.py"
PT_FILE = "fairlearn/adversarial/_pytorch_engine.py"
TF_FILE = "fairlearn/adversarial/_tensorflow_engine.py"
OP_FILE = "fairlearn/postprocessing/_threshold_operation.py"

# estimator tag -> (attribute holding the helper object, [(Lean constructor, file, class name)])
HELPERS = {
    "TO": ("interpolated_thresholder_", [("IT", IT_FILE, "InterpolatedThresholder")]),
    "ADV": ("backendEngine_", [("BE", BE_FILE, "BackendEngine"), ("PT", PT_FILE, "PytorchEngine"),
                               ("TF", TF_FILE, "TensorflowEngine")]),
}
HELPERS["ADVC"] = HELPERS["ADVR"] = HELPERS["ADV"]
HELPER_TAGS = ["IT", "BE", "PT", "TF"]
BASE_ATTR = "base"          # BackendEngine.__init__: `self.base = base` — the pointer back to the estimator
TRAIN_ENTRY = "train_step"

MODE_METHODS = ("eval", "train")
MUTATING = {
    "append", "extend", "insert", "pop", "popitem", "remove", "clear", "update", "setdefault", "sort", "reverse", "add",
    "discard", "zero_grad", "step", "backward", "apply_gradients", "load_state_dict", "assign", "assign_add", "assign_sub",
    "fit", "partial_fit", "set_params", "load_data", "compile", "to", "cuda", "cpu", "double", "half", "float",
    "random", "rand", "randn", "randint", "choice", "shuffle", "permutation", "seed", "manual_seed", "uniform", "normal",
    "random_sample", "set_weights", "apply", "register_buffer", "register_parameter", "add_module", "share_memory",
}
PURE_METHODS = {
    "items", "keys", "values", "get", "copy", "parameters", "named_parameters", "state_dict", "numpy", "detach", "item",
    "lower", "upper", "format", "startswith", "endswith", "index", "count", "size", "view", "reshape", "clone", "tolist",
    "predict", "predict_proba", "decision_function", "transform", "inverse_transform", "get_params", "trainable_variables",
    "astype", "sum", "mean", "any", "all", "transpose", "ravel", "flatten", "is_available", "device", "numel", "dim",
    "get_weights", "children", "modules", "buffers", "named_buffers",
}
# attributes of an interpolation entry that hold `ThresholdOperation` objects: calling them is `ThresholdOperation.__call__`
PURE_CALLABLE_FIELDS = {"operation0", "operation1"}
# plain functions that may receive a helper attribute without being reported
PURE_FUNCS = {
    "len", "isinstance", "issubclass", "callable", "str", "repr", "int", "float", "bool", "type", "print", "sorted", "list",
    "tuple", "dict", "set", "enumerate", "zip", "range", "iter", "reversed", "min", "max", "sum", "abs", "id", "hash",
    "np.array", "np.asarray", "numpy.array", "numpy.asarray", "np.shape", "np.ndim", ".to", "torch.device",
    "ValueError", "TypeError", "NotImplementedError", "RuntimeError",
}
ALIAS_THROUGH = {"enumerate", "zip", "iter", "reversed", "list", "tuple", "sorted", "next", "getattr", "dict", "set"}


def _is_self(n):
    return isinstance(n, ast.Name) and n.id == "self"


def _parse(repo, rel):
    try:
        with open(os.path.join(repo, rel)) as f:
            return normalize.parse(f.read())
    except (OSError, SyntaxError) as e:
        raise Untranslatable(f"{rel}: {e}")


def _parents(fn):
    out = {}
    for p in ast.walk(fn):
        for c in ast.iter_child_nodes(p):
            out[c] = p
    return out


# ------------------------------------------------------------------------------------------------ estimator side
def helper_calls(cv, roots, attr, known_methods):
    """sorted names of the methods the closure of `roots` in the estimator class view `cv` calls on `self.<attr>`"""
    calls = set()
    for mn in cv.closure(roots):
        fn = cv.methods[mn]
        par = _parents(fn)
        # locals bound once, to `self.<attr>`
        aliases = {}
        for n in ast.walk(fn):
            if isinstance(n, ast.Assign) and len(n.targets) == 1 and isinstance(n.targets[0], ast.Name) \
                    and isinstance(n.value, ast.Attribute) and _is_self(n.value.value) and n.value.attr == attr:
                aliases[n.targets[0].id] = n
        for name in list(aliases):
            stores = [n for n in ast.walk(fn) if isinstance(n, ast.Name) and n.id == name and isinstance(n.ctx, (ast.Store, ast.Del))]
            if len(stores) != 1 or name in {a.arg for a in normalize._all_args(fn)}:
                cv.bad(aliases[name], f"the local `{name}` is bound to self.{attr} and to something else")

        def as_method_call(n):
            """n denotes the helper object; it must be the receiver of a method call"""
            p = par.get(n)
            if isinstance(p, ast.Attribute) and p.value is n and isinstance(p.ctx, ast.Load):
                pp = par.get(p)
                if isinstance(pp, ast.Call) and pp.func is p:
                    if p.attr not in known_methods:
                        cv.bad(pp, f"call of `{p.attr}` on self.{attr}, which is not a method of the helper class(es)")
                    calls.add(p.attr)
                    return
                cv.bad(pp if pp is not None else p, f"self.{attr}.{p.attr} is used other than as the callee of a method call "
                                                    "(calls on attributes of the helper object are not followed)")
            cv.bad(p if p is not None else n, f"use of the helper object self.{attr} that is not a method call on it")
        for n in ast.walk(fn):
            if isinstance(n, ast.Attribute) and _is_self(n.value) and n.attr == attr:
                if isinstance(n.ctx, (ast.Store, ast.Del)):
                    continue                      # rebinding in a prediction method: already in predictAssigned
                p = par.get(n)
                if isinstance(p, ast.Assign) and p.value is n and len(p.targets) == 1 and isinstance(p.targets[0], ast.Name) \
                        and p.targets[0].id in aliases:
                    continue
                as_method_call(n)
            elif isinstance(n, ast.Name) and n.id in aliases and isinstance(n.ctx, ast.Load):
                as_method_call(n)
            elif isinstance(n, ast.Call) and isinstance(n.func, ast.Name) and n.func.id in ("getattr", "setattr", "delattr") \
                    and len(n.args) >= 2 and _is_self(n.args[0]) and isinstance(n.args[1], ast.Constant) and n.args[1].value == attr:
                cv.bad(n, f"{n.func.id}(self, \"{attr}\") in a prediction method")
    return sorted(calls)


# ------------------------------------------------------------------------------------------------ helper side
class HelperView:
    """a helper class with its method resolution order over the helper classes of the package (bases that are not among
    them — sklearn's BaseEstimator / MetaEstimatorMixin, object — contribute no methods that are followed)"""

    def __init__(self, name, registry):
        self.name = name
        self.registry = registry        # class name -> (rel, ClassDef)
        if name not in registry:
            raise Untranslatable(f"helper class {name} not found")
        self.rel = registry[name][0]
        self.mro = []
        todo = [name]
        while todo:
            c = todo.pop(0)
            if c in self.mro or c not in registry:
                continue
            self.mro.append(c)
            todo.extend(b.id for b in registry[c][1].bases if isinstance(b, ast.Name))
        self.defs = {}                  # class -> {method: FunctionDef}
        for c in self.mro:
            self.defs[c] = {m.name: m for m in registry[c][1].body if isinstance(m, ast.FunctionDef)}

    def bad(self, node, why):
        raise Untranslatable(f"{self.rel}: {self.name}: {why}: `{ast.unparse(node)[:120]}`")

    def resolve(self, m, after=None):
        """(class, FunctionDef) of method m, looked up from the start of the MRO or after class `after`"""
        order = self.mro if after is None else self.mro[self.mro.index(after) + 1:]
        for c in order:
            if m in self.defs[c]:
                return c, self.defs[c][m]
        return None

    def all_methods(self):
        return {m for c in self.mro for m in self.defs[c]}

    # -------------------------------------------------------------- aliases of helper attributes inside one function
    def _alias_map(self, fn):
        alias = {}

        def roots(e):
            return self._roots(e, alias)

        def bind(t, r):
            if not r:
                return
            if isinstance(t, ast.Name):
                alias.setdefault(t.id, set()).update(r)
            elif isinstance(t, (ast.Tuple, ast.List)):
                for x in t.elts:
                    bind(x, r)
            elif isinstance(t, ast.Starred):
                bind(t.value, r)
        for _ in range(3):
            for n in ast.walk(fn):
                if isinstance(n, ast.Assign):
                    for t in n.targets:
                        bind(t, roots(n.value))
                elif isinstance(n, ast.AnnAssign) and n.value is not None:
                    bind(n.target, roots(n.value))
                elif isinstance(n, (ast.For, ast.comprehension)):
                    bind(n.target, roots(n.iter))
                elif isinstance(n, ast.With):
                    for it in n.items:
                        if it.optional_vars is not None:
                            bind(it.optional_vars, roots(it.context_expr))
                elif isinstance(n, ast.NamedExpr):
                    bind(n.target, roots(n.value))
        return alias

    def _roots(self, e, alias):
        """the helper attributes the value of `e` may be (part of)"""
        if isinstance(e, ast.Name):
            return set(alias.get(e.id, ()))
        if isinstance(e, ast.Attribute):
            if _is_self(e.value):
                return {e.attr}
            if isinstance(e.value, ast.Attribute) and _is_self(e.value.value) and e.value.attr == BASE_ATTR:
                return {BASE_ATTR + "." + e.attr}
            return self._roots(e.value, alias)
        if isinstance(e, ast.Subscript):
            return self._roots(e.value, alias)
        if isinstance(e, ast.Call):
            if isinstance(e.func, ast.Attribute):
                if _is_self(e.func.value):
                    return set()          # result of an own method / of a forward pass: a new value
                return self._roots(e.func.value, alias)
            if isinstance(e.func, ast.Name) and e.func.id in ALIAS_THROUGH:
                out = set()
                for a in e.args:
                    out |= self._roots(a, alias)
                return out
            return set()
        if isinstance(e, (ast.Tuple, ast.List, ast.Set)):
            out = set()
            for x in e.elts:
                out |= self._roots(x, alias)
            return out
        if isinstance(e, ast.IfExp):
            return self._roots(e.body, alias) | self._roots(e.orelse, alias)
        if isinstance(e, ast.BoolOp):
            out = set()
            for x in e.values:
                out |= self._roots(x, alias)
            return out
        if isinstance(e, (ast.Starred, ast.NamedExpr)):
            return self._roots(e.value, alias)
        return set()

    # -------------------------------------------------------------- one function: flow-insensitive facts
    def _mode_of_call(self, call, name):
        """`.eval()` / `.train()` / `.train(False)` -> "eval" | "train" """
        if name == "eval":
            if call.args or call.keywords:
                self.bad(call, "eval(..) with arguments")
            return "eval"
        vals = list(call.args) + [k.value for k in call.keywords if k.arg == "mode"]
        if len(vals) != len(call.args) + len(call.keywords) or len(vals) > 1:
            self.bad(call, "train(..) with arguments I do not understand")
        if not vals:
            return "train"
        if isinstance(vals[0], ast.Constant) and isinstance(vals[0].value, bool):
            return "train" if vals[0].value else "eval"
        self.bad(call, "train(<non-literal>)")

    def _training_kw(self, call):
        for k in call.keywords:
            if k.arg == "training":
                if isinstance(k.value, ast.Constant) and isinstance(k.value.value, bool):
                    return "train" if k.value.value else "eval"
                self.bad(call, "forward pass with a non-literal `training=`")
        return None

    def _callee_label(self, fn, func):
        if isinstance(func, ast.Attribute):
            b = func
            while isinstance(b, (ast.Attribute, ast.Subscript, ast.Call)):
                b = b.func if isinstance(b, ast.Call) else b.value
            local = {n.id for n in ast.walk(fn) if isinstance(n, ast.Name) and isinstance(n.ctx, ast.Store)} | \
                {a.arg for a in normalize._all_args(fn)}
            if not isinstance(b, ast.Name) or b.id in local:
                return "." + func.attr
        return ast.unparse(func)

    def facts_of(self, cls, fn, strict=True):
        """(writes, modeCalls, selfEscapes, attrArgs, followed) of one method body; followed = [(class, method)]"""
        alias = self._alias_map(fn)
        par = _parents(fn)
        writes, modes, escapes, attr_args, followed = set(), set(), set(), set(), []
        methods = self.all_methods()

        def roots(e):
            return self._roots(e, alias)

        def note_args(call, label):
            for a in list(call.args) + [k.value for k in call.keywords]:
                a = a.value if isinstance(a, ast.Starred) else a
                if _is_self(a):
                    continue
                if label in PURE_FUNCS:
                    continue
                for r in sorted(roots(a)):
                    attr_args.add(f"{label}({r})")
        for n in ast.walk(fn):
            if isinstance(n, ast.Attribute) and _is_self(n.value):
                if n.attr == "__dict__":
                    self.bad(par.get(n, n), "use of self.__dict__")
                if isinstance(n.ctx, (ast.Store, ast.Del)):
                    writes.add(n.attr)
                elif n.attr in methods:
                    followed.append(self.resolve(n.attr))      # also a bound method that is passed on
            elif isinstance(n, (ast.Attribute, ast.Subscript)) and isinstance(n.ctx, (ast.Store, ast.Del)):
                if isinstance(n, ast.Attribute) and isinstance(n.value, ast.Attribute) and _is_self(n.value.value) \
                        and n.value.attr == BASE_ATTR:
                    writes.add(BASE_ATTR + "." + n.attr)
                else:
                    writes.update(roots(n.value))
            elif isinstance(n, ast.AugAssign) and isinstance(n.target, ast.Name):
                writes.update(roots(n.target))
            elif isinstance(n, ast.Call):
                f = n.func
                if isinstance(f, ast.Name) and f.id in ("setattr", "delattr", "getattr", "hasattr") and n.args:
                    tgt = n.args[0]
                    lit = len(n.args) >= 2 and isinstance(n.args[1], ast.Constant) and isinstance(n.args[1].value, str)
                    if _is_self(tgt) or roots(tgt):
                        if not lit:
                            self.bad(n, f"{f.id} with a computed attribute name")
                        if f.id in ("setattr", "delattr"):
                            if _is_self(tgt):
                                writes.add(n.args[1].value)
                            else:
                                writes.update(roots(tgt))
                    continue
                if isinstance(f, ast.Name) and f.id in ("vars",) and any(_is_self(a) for a in n.args):
                    self.bad(n, "reflective access to the attributes of self")
                if isinstance(f, ast.Attribute) and isinstance(f.value, ast.Call) and ast.unparse(f.value.func) == "super":
                    sargs = f.value.args
                    if sargs and not (len(sargs) == 2 and isinstance(sargs[0], ast.Name) and sargs[0].id == cls and _is_self(sargs[1])):
                        self.bad(n, "super(..) call that I cannot resolve")
                    r = self.resolve(f.attr, after=cls)
                    if r is not None:
                        followed.append(r)
                    elif strict:
                        self.bad(n, "super(..) method that is not defined in a helper base class")
                    note_args(n, "super()." + f.attr)
                    continue
                if isinstance(f, ast.Attribute) and _is_self(f.value):
                    if f.attr in methods:
                        followed.append(self.resolve(f.attr))
                    else:
                        kw = self._training_kw(n)
                        if kw is not None:
                            modes.add((f.attr, kw))
                    note_args(n, "self." + f.attr)
                    continue
                if isinstance(f, ast.Attribute) and roots(f.value):
                    rs = sorted(roots(f.value))
                    m = f.attr
                    if m in MODE_METHODS:
                        md = self._mode_of_call(n, m)
                        modes.update((r, md) for r in rs)
                    elif m in PURE_CALLABLE_FIELDS:
                        pass
                    elif (m in MUTATING or (m.endswith("_") and not m.startswith("__"))) and m not in PURE_METHODS:
                        writes.update(f"{r}.{m}()" for r in rs)
                    elif m in PURE_METHODS:
                        pass
                    elif strict:
                        self.bad(n, f"call of the method `{m}` on (an alias of) self.{'/'.join(rs)}: I do not know whether it mutates")
                    continue
                if isinstance(f, ast.Name) and roots(f):
                    # `model = self.predictor_model; model(X)`: a forward pass through a local alias
                    kw = self._training_kw(n)
                    if kw is not None:
                        modes.update((r, kw) for r in roots(f))
                    note_args(n, "<alias>")
                    continue
                if not isinstance(f, (ast.Name, ast.Attribute)) and roots(f):
                    # `self.ops[k](x)`: a callable stored in a helper attribute
                    if strict:
                        self.bad(n, "call of a callable taken out of a helper attribute")
                    continue
                note_args(n, self._callee_label(fn, f))
            elif _is_self(n):
                p = par.get(n)
                if isinstance(p, ast.Attribute) and p.value is n:
                    continue
                if isinstance(p, ast.Return) and p.value is n:
                    continue
                if isinstance(p, (ast.arg, ast.arguments)):
                    continue
                if isinstance(p, ast.Call) and n in p.args:
                    fl = ast.unparse(p.func)
                    if fl in ("setattr", "delattr", "getattr", "hasattr", "vars") or fl.startswith("super"):
                        continue
                    escapes.add(fl)
                    continue
                if isinstance(p, ast.keyword) and isinstance(par.get(p), ast.Call):
                    escapes.add(ast.unparse(par[p].func))
                    continue
                self.bad(p if p is not None else n, "bare use of self that I do not understand (aliasing?)")
        return writes, modes, escapes, attr_args, followed

    # -------------------------------------------------------------- closure facts
    def closure_facts(self, entries, strict=True):
        seen, todo = [], []
        for m in entries:
            r = self.resolve(m)
            if r is None:
                raise Untranslatable(f"{self.rel}: {self.name} does not define `{m}` (called on the helper object)")
            todo.append(r)
        writes, modes, escapes, attr_args = set(), set(), set(), set()
        while todo:
            c, fn = todo.pop(0)
            if (c, fn.name) in seen:
                continue
            seen.append((c, fn.name))
            w, md, es, aa, fol = self.facts_of(c, fn, strict)
            writes |= w
            modes |= md
            escapes |= es
            attr_args |= aa
            todo.extend(x for x in fol if x is not None)
        return dict(closure=sorted(f"{c}.{m}" for c, m in seen), writes=sorted(writes), modes=sorted(modes),
                    escapes=sorted(escapes), attrArgs=sorted(attr_args))

    # -------------------------------------------------------------- mode in force at every forward pass (ordered scan)
    def forward_modes(self, entries):
        out = set()
        for m in entries:
            r = self.resolve(m)
            if r is None:
                continue
            self._scan_fn(r[0], r[1], {}, out, [])
        return sorted(out)

    def _scan_fn(self, cls, fn, mode, out, stack):
        if (cls, fn.name) in stack or len(stack) > 6:
            return
        alias = self._alias_map(fn)
        self._scan_block(cls, fn, fn.body, mode, out, stack + [(cls, fn.name)], alias, definite=True)

    def _events(self, cls, fn, node, alias):
        """mode calls / forward passes / own-method calls inside one expression or simple statement, in evaluation order
        (arguments before the call itself)"""
        ev = []

        def visit(n):
            for c in ast.iter_child_nodes(n):
                visit(c)
            if isinstance(n, ast.Call) and isinstance(n.func, ast.Attribute):
                f = n.func
                if _is_self(f.value):
                    if f.attr in self.all_methods():
                        ev.append(("call", f.attr, None))
                    else:
                        ev.append(("forward", f.attr, self._training_kw(n)))
                elif isinstance(f.value, ast.Call) and ast.unparse(f.value.func) == "super":
                    ev.append(("super", f.attr, None))
                elif f.attr in MODE_METHODS and self._roots(f.value, alias):
                    md = self._mode_of_call(n, f.attr)
                    for r in sorted(self._roots(f.value, alias)):
                        ev.append(("mode", r, md))
            elif isinstance(n, ast.Call) and isinstance(n.func, ast.Name) and self._roots(n.func, alias):
                for r in sorted(self._roots(n.func, alias)):
                    ev.append(("forward", r, self._training_kw(n)))
        visit(node)
        return ev

    def _scan_block(self, cls, fn, stmts, mode, out, stack, alias, definite):
        for s in stmts:
            if isinstance(s, (ast.FunctionDef, ast.ClassDef, ast.AsyncFunctionDef)):
                continue
            heads, blocks = [], []
            if isinstance(s, (ast.If, ast.While)):
                heads, blocks = [s.test], [(s.body, False), (s.orelse, False)]
            elif isinstance(s, ast.For):
                heads, blocks = [s.iter], [(s.body, False), (s.orelse, False)]
            elif isinstance(s, ast.With):
                heads, blocks = [it.context_expr for it in s.items], [(s.body, True)]
            elif isinstance(s, ast.Try):
                blocks = [(s.body, False)] + [(h.body, False) for h in s.handlers] + [(s.orelse, False), (s.finalbody, False)]
            else:
                heads = [s]
            for h in heads:
                for kind, a, md in self._events(cls, fn, h, alias):
                    if kind == "mode":
                        if definite:
                            mode[a] = md
                        else:
                            mode[a] = md if mode.get(a) == md else "unset"     # set on some paths only
                    elif kind == "forward":
                        out.add((a, md or mode.get(a, "unset")))
                    elif kind == "call":
                        r = self.resolve(a)
                        if r is not None:
                            self._scan_fn(r[0], r[1], mode, out, stack)
                    elif kind == "super":
                        r = self.resolve(a, after=cls)
                        if r is not None:
                            self._scan_fn(r[0], r[1], mode, out, stack)
            for blk, keeps in blocks:
                if blk:
                    if keeps and definite:
                        self._scan_block(cls, fn, blk, mode, out, stack, alias, True)
                    else:
                        inner = dict(mode)
                        self._scan_block(cls, fn, blk, inner, out, stack, alias, False)
                        for k in set(inner) | set(mode):
                            if inner.get(k) != mode.get(k):
                                mode[k] = "unset"


def _threshold_operation_pure(repo):
    """`ThresholdOperation.__call__` (the callable behind `operation0` / `operation1`) stores into nothing"""
    tree = _parse(repo, OP_FILE)
    for n in tree.body:
        if isinstance(n, ast.ClassDef) and n.name == "ThresholdOperation":
            for m in n.body:
                if isinstance(m, ast.FunctionDef) and m.name == "__call__":
                    for x in ast.walk(m):
                        if isinstance(x, (ast.Attribute, ast.Subscript)) and isinstance(x.ctx, (ast.Store, ast.Del)):
                            raise Untranslatable(f"{OP_FILE}: ThresholdOperation.__call__ stores into `{ast.unparse(x)}`")
                        if isinstance(x, ast.Call) and ast.unparse(x.func) in ("setattr", "delattr", "vars"):
                            raise Untranslatable(f"{OP_FILE}: ThresholdOperation.__call__ uses {ast.unparse(x.func)}")
                        if isinstance(x, ast.Call) and isinstance(x.func, ast.Attribute) and \
                                (x.func.attr in MUTATING or x.func.attr.endswith("_")) and x.func.attr not in PURE_METHODS:
                            raise Untranslatable(f"{OP_FILE}: ThresholdOperation.__call__ calls `{ast.unparse(x.func)}`")
                    return True
    raise Untranslatable(f"{OP_FILE}: ThresholdOperation.__call__ not found")


def analyse_helpers(repo, views, predict_roots):
    """views: estimator tag -> ClassView (lifecycle.py).  Returns (per estimator tag: helper attribute, helper tags, called
    methods; per helper tag: the facts of the prediction closure + the forward modes of train_step)"""
    registry = {}
    for rel in (IT_FILE, BE_FILE, PT_FILE, TF_FILE):
        tree = _parse(repo, rel)
        for n in tree.body:
            if isinstance(n, ast.ClassDef):
                registry[n.name] = (rel, n)
    hviews = {}
    for attr, classes in (HELPERS["TO"], HELPERS["ADV"]):
        for tag, rel, name in classes:
            if name not in registry or registry[name][0] != rel:
                raise Untranslatable(f"{rel}: class {name} not found")
            hviews[tag] = HelperView(name, registry)
    # BackendEngine.__init__ still keeps the estimator under `self.base`
    be_init = hviews["BE"].resolve("__init__")
    if be_init is None or not any(isinstance(s, ast.Assign) and ast.unparse(s) == f"self.{BASE_ATTR} = {BASE_ATTR}"
                                  for s in be_init[1].body) or [a.arg for a in be_init[1].args.args][:2] != ["self", BASE_ATTR]:
        raise Untranslatable(f"{BE_FILE}: BackendEngine.__init__ no longer starts from `self.{BASE_ATTR} = {BASE_ATTR}`")
    _threshold_operation_pure(repo)
    est = {}
    for tag, cv in views.items():
        if tag not in HELPERS:
            est[tag] = dict(attr="", helpers=[], calls=[])
            continue
        attr, classes = HELPERS[tag]
        known = set()
        for htag, _, _ in classes:
            known |= hviews[htag].all_methods()
        pm = [m for m in predict_roots if m in cv.methods]
        est[tag] = dict(attr=attr, helpers=[h for h, _, _ in classes], calls=helper_calls(cv, pm, attr, known))
    hfacts = {}
    for htag in HELPER_TAGS:
        owner = "TO" if htag == "IT" else "ADV"
        entries = est[owner]["calls"]
        hv = hviews[htag]
        f = hv.closure_facts(entries, strict=True)
        f["forwardModes"] = hv.forward_modes(entries)
        f["trainForwardModes"] = hv.forward_modes([TRAIN_ENTRY]) if hv.resolve(TRAIN_ENTRY) is not None else []
        f["cls"] = hv.name
        hfacts[htag] = f
    return est, hfacts
