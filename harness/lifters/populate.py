"""Lifter for the RESULT CACHE of MetricFrame (fairlearn/metrics/_metric_frame.py) -> Generated/PopulateSrc.lean

What is lifted (from the Python ast, refusing every shape it does not know):
  * `_populate_results` after the `overall` / `by_group` entries (those two are lifted by lifters/frame.py): the body is
    EXECUTED symbolically -- literal dicts / lists, the module constants `_VALID_ERROR_STRING` (imported from
    `_disaggregated_result.py`) and `_COMPARE_METHODS`, `for` loops over them (unrolled), `if c_t == "difference"`
    on concrete strings, `dict()` initialisations (they clear the sub-tree, as in Python), and the `try` blocks -- into the
    final content of `self._result_cache`:  cache path  ->  (WHICH DisaggregatedResult call, with WHICH method / errors
    value, and which `no_control_levels=` flag `_extract_result` gets).  `self._group(raw_result, v, err_string)` is
    inlined through the body of `_group` (argument binding incl. its default `errors=`).
  * the public accessors `group_min / group_max / difference / ratio`: the DEFAULT of `errors=` / `method=`, which
    parameter is validated against which list, and the cache path they read (`self._result_cache["ratio"][method][errors]`).
Pinned (refused when different, because the Lean model has no counterpart): every cache store sits in a `try` whose only
handler stores the exception under the SAME path; difference / ratio results go through `self._none_to_nan` (whose body is
`target.where(target.notna(), np.nan)`), `_group` results do not; the first argument of every DisaggregatedResult call is
`self.control_levels`; the accessors end in `if isinstance(value, Exception): raise value else: return value`.
`_extract_result` itself is the generated `FrameSrc.extract_result` (lifters/frame.py) -- not duplicated here.

The emitted entries are sorted by cache slot and loops are unrolled, so renaming loop variables, reordering the loops
or the independent blocks, replacing a loop by its unrolled statements ... leave the generated text unchanged."""
import ast
import os

from .. import translate
from . import normalize

MF = "fairlearn/metrics/_metric_frame.py"
DR = "fairlearn/metrics/_disaggregated_result.py"

METHODS = {"between_groups": ".between", "to_overall": ".toOverall"}
ERRORS = {"raise": ".raise", "coerce": ".coerce"}
GROUPINGS = {"min": ".min", "max": ".max"}
SLOTS = {"group_min": ("groupMin", ["errors"]), "group_max": ("groupMax", ["errors"]),
         "difference": ("difference", ["method", "errors"]), "ratio": ("ratio", ["method", "errors"])}
KIND_TABLE = {"method": METHODS, "errors": ERRORS}
DR_SIGS = {"apply_grouping": ["grouping_function", "control_feature_names", "errors"],
           "difference": ["control_feature_names", "method", "errors"],
           "ratio": ["control_feature_names", "method", "errors"]}
NONE_TO_NAN_BODY = "return target.where(target.notna(), np.nan)"


def U(msg):
    return translate.Untranslatable(f"{MF}: {msg}")


class Raw:
    """the DisaggregatedResult handed to `_populate_results` / `_group`"""


class CallV:
    """result of `raw.apply_grouping / difference / ratio(self.control_levels, ...)`"""

    def __init__(self, kind, a, errors, none_to_nan=False):
        self.kind, self.a, self.errors, self.none_to_nan = kind, a, errors, none_to_nan


class Extracted:
    """`self._extract_result(<CallV>, no_control_levels=<flag>)`"""

    def __init__(self, call, flag):
        self.call, self.flag = call, flag


class ExcV:
    """the exception bound by `except Exception as e`"""


class Cache:
    """`self._result_cache` as a nested dict: path tuple -> "dict" | Extracted | ExcV | "other" """

    def __init__(self):
        self.d = {}

    def store(self, path, v):
        for i in range(1, len(path)):
            if self.d.get(path[:i]) != "dict":
                raise U(f"_populate_results: self._result_cache{list(path)} is written before {list(path[:i])} is a dict")
        for k in [k for k in self.d if k[:len(path)] == path]:
            del self.d[k]
        self.d[path] = v


def bind(call, names, what, defaults=None):
    if len(call.args) > len(names) or any(isinstance(a, ast.Starred) for a in call.args):
        raise U(f"{what}: cannot bind the arguments of `{ast.unparse(call)[:70]}`")
    out = dict(zip(names, call.args))
    for k in call.keywords:
        if k.arg is None or k.arg not in names or k.arg in out:
            raise U(f"{what}: cannot bind the arguments of `{ast.unparse(call)[:70]}`")
        out[k.arg] = k.value
    for n in names:
        if n not in out:
            if defaults is None or n not in defaults:
                raise U(f"{what}: argument `{n}` of `{ast.unparse(call)[:70]}` is not given")
            out[n] = defaults[n]
    return out


def is_self_attr(e, attr):
    return isinstance(e, ast.Attribute) and e.attr == attr and isinstance(e.value, ast.Name) and e.value.id == "self"


class Interp:
    def __init__(self, consts, group_fn, cache, what):
        self.consts, self.group_fn, self.cache, self.what = consts, group_fn, cache, what
        self.env = {}
        self.in_try = None      # list of paths stored inside the running try body

    # ------------------------------------------------------------------ expressions
    def cache_path(self, e):
        """`self._result_cache[a][b]...` -> tuple of concrete keys, or None"""
        keys = []
        while isinstance(e, ast.Subscript):
            keys.append(e.slice)
            e = e.value
        if not is_self_attr(e, "_result_cache") or not keys:
            return None
        out = []
        for k in reversed(keys):
            v = self.expr(k)
            if not isinstance(v, str):
                raise U(f"{self.what}: cache key `{ast.unparse(k)}` is not a concrete string")
            out.append(v)
        return tuple(out)

    def expr(self, e):
        what = self.what
        if isinstance(e, ast.Constant) and (isinstance(e.value, (str, bool)) or e.value is None):
            return e.value
        if isinstance(e, ast.Name):
            if e.id in self.env:
                return self.env[e.id]
            if e.id in self.consts:
                return list(self.consts[e.id])
            raise U(f"{what}: unknown name `{e.id}`")
        if isinstance(e, (ast.List, ast.Tuple)):
            return [self.expr(x) for x in e.elts]
        if isinstance(e, ast.Dict):
            if any(k is None for k in e.keys):
                raise U(f"{what}: dict unpacking")
            return {self.expr(k): self.expr(v) for k, v in zip(e.keys, e.values)}
        if isinstance(e, ast.Call) and isinstance(e.func, ast.Name) and e.func.id == "dict" and not e.args and not e.keywords:
            return {}
        if is_self_attr(e, "control_levels"):
            return "self.control_levels"
        if isinstance(e, ast.Call) and isinstance(e.func, ast.Attribute):
            recv, attr = e.func.value, e.func.attr
            if attr == "items" and not e.args and not e.keywords:
                d = self.expr(recv)
                if not isinstance(d, dict):
                    raise U(f"{what}: .items() of a non-dict")
                return [[k, v] for k, v in d.items()]
            if attr in ("keys", "values") and not e.args and not e.keywords:
                d = self.expr(recv)
                if not isinstance(d, dict):
                    raise U(f"{what}: .{attr}() of a non-dict")
                return list(d.keys() if attr == "keys" else d.values())
            if isinstance(recv, ast.Name) and recv.id == "self":
                if attr == "_extract_result":
                    b = bind(e, ["underlying_result", "no_control_levels"], what)
                    v, flag = self.expr(b["underlying_result"]), self.expr(b["no_control_levels"])
                    if not isinstance(v, CallV) or not isinstance(flag, bool):
                        raise U(f"{what}: `{ast.unparse(e)[:70]}` is not _extract_result(<aggregate>, no_control_levels=<bool>)")
                    return Extracted(v, flag)
                if attr == "_none_to_nan":
                    b = bind(e, ["target"], what)
                    v = self.expr(b["target"])
                    if not isinstance(v, CallV) or v.none_to_nan:
                        raise U(f"{what}: _none_to_nan of something else than one aggregate")
                    return CallV(v.kind, v.a, v.errors, True)
                if attr == "_group":
                    return self.inline_group(e)
            if isinstance(self.expr_or_none(recv), Raw) and attr in DR_SIGS:
                b = bind(e, DR_SIGS[attr], what)
                if self.expr(b["control_feature_names"]) != "self.control_levels":
                    raise U(f"{what}: `{ast.unparse(e)[:70]}`: control features are not self.control_levels")
                err = self.expr(b["errors"])
                a = self.expr(b["grouping_function" if attr == "apply_grouping" else "method"])
                table = GROUPINGS if attr == "apply_grouping" else METHODS
                if err not in ERRORS or a not in table:
                    raise U(f"{what}: `{ast.unparse(e)[:70]}` called with ({a!r}, errors={err!r})")
                return CallV({"apply_grouping": "grouping"}.get(attr, attr), a, err)
        raise U(f"{what}: unsupported expression `{ast.unparse(e)[:80]}`")

    def expr_or_none(self, e):
        if isinstance(e, ast.Name) and isinstance(self.env.get(e.id), Raw):
            return self.env[e.id]
        return None

    def inline_group(self, call):
        fn = self.group_fn
        names = [a.arg for a in fn.args.args if a.arg != "self"]
        if names != ["disagg_result", "grouping_function", "errors"] or fn.args.vararg or fn.args.kwarg or fn.args.kwonlyargs:
            raise U(f"_group: parameters {names}")
        defaults = dict(zip(names[len(names) - len(fn.args.defaults):], fn.args.defaults))
        b = bind(call, names, self.what, defaults)
        sub = Interp(self.consts, None, self.cache, "_group")
        for n in names:
            sub.env[n] = self.expr(b[n])
        r = sub.block(fn.body)
        if not isinstance(r, Extracted):
            raise U("_group does not return self._extract_result(<apply_grouping result>, ...)")
        return r

    # ------------------------------------------------------------------ statements
    def block(self, stmts):
        for s in stmts:
            r = self.stmt(s)
            if r is not None:
                return r
        return None

    def cond(self, t):
        if isinstance(t, ast.UnaryOp) and isinstance(t.op, ast.Not):
            return not self.cond(t.operand)
        if isinstance(t, ast.Compare) and len(t.ops) == 1 and isinstance(t.ops[0], (ast.Eq, ast.NotEq, ast.In, ast.NotIn)):
            a, b = self.expr(t.left), self.expr(t.comparators[0])
            op = t.ops[0]
            if isinstance(op, (ast.Eq, ast.NotEq)) and isinstance(a, str) and isinstance(b, str):
                return (a == b) == isinstance(op, ast.Eq)
            if isinstance(op, (ast.In, ast.NotIn)) and isinstance(a, str) and isinstance(b, list) and all(isinstance(x, str) for x in b):
                return (a in b) == isinstance(op, ast.In)
        raise U(f"{self.what}: unsupported condition `{ast.unparse(t)[:70]}`")

    def stmt(self, s):
        what = self.what
        if isinstance(s, ast.Expr) and isinstance(s.value, ast.Constant):
            return None
        if isinstance(s, ast.Return):
            if s.value is None:
                raise U(f"{what}: bare return")
            return self.expr(s.value)
        if isinstance(s, ast.If):
            return self.block(s.body if self.cond(s.test) else s.orelse)
        if isinstance(s, ast.For):
            if s.orelse:
                raise U(f"{what}: for/else")
            it = self.expr(s.iter)
            if not isinstance(it, list):
                raise U(f"{what}: loop over `{ast.unparse(s.iter)[:60]}` which is not a literal collection")
            for item in it:
                self.assign_target(s.target, item)
                r = self.block(s.body)
                if r is not None:
                    raise U(f"{what}: return inside a loop")
            return None
        if isinstance(s, ast.Try):
            if self.in_try is not None or s.orelse or s.finalbody or len(s.handlers) != 1:
                raise U(f"{what}: unsupported try shape")
            h = s.handlers[0]
            if not (isinstance(h.type, ast.Name) and h.type.id == "Exception" and h.name):
                raise U(f"{what}: the handler is not `except Exception as <name>`")
            self.in_try = []
            r = self.block(s.body)
            stored, self.in_try = self.in_try, None
            if r is not None:
                raise U(f"{what}: return inside try")
            if len(stored) != 1:
                raise U(f"{what}: a try block must store exactly one cache entry (found {len(stored)})")
            # the handler: self._result_cache[<same path>] = <exception name>
            hb = [x for x in h.body if not (isinstance(x, ast.Expr) and isinstance(x.value, ast.Constant))]
            ok = (len(hb) == 1 and isinstance(hb[0], ast.Assign) and len(hb[0].targets) == 1
                  and isinstance(hb[0].value, ast.Name) and hb[0].value.id == h.name)
            if not ok or self.cache_path(hb[0].targets[0]) != stored[0]:
                raise U(f"{what}: the exception handler does not store the exception under the path of the try body {list(stored[0])}")
            return None
        if isinstance(s, ast.Assign) and len(s.targets) == 1:
            t = s.targets[0]
            path = self.cache_path(t) if isinstance(t, ast.Subscript) else None
            if path is not None:
                if path in (("overall",), ("by_group",)):
                    if self.in_try is not None:
                        raise U(f"{what}: the {path[0]} entry is stored inside a try")
                    self.cache.store(path, "other")        # lifted by lifters/frame.py
                    return None
                v = self.expr(s.value)
                if v == {}:
                    self.cache.store(path, "dict")
                    return None
                if not isinstance(v, Extracted):
                    raise U(f"{what}: `{ast.unparse(s)[:80]}` does not store an extracted aggregate")
                if self.in_try is None:
                    raise U(f"{what}: the cache entry {list(path)} is computed outside try/except (an exception would leave the constructor)")
                self.in_try.append(path)
                self.cache.store(path, v)
                return None
            if isinstance(t, (ast.Name, ast.Tuple)):
                self.assign_target(t, self.expr(s.value))
                return None
        raise U(f"{what}: unsupported statement `{ast.unparse(s)[:80]}`")

    def assign_target(self, t, v):
        if isinstance(t, ast.Name):
            if t.id == "self":
                raise U(f"{self.what}: self is rebound")
            self.env[t.id] = v
            return
        if isinstance(t, ast.Tuple) and isinstance(v, list) and len(v) == len(t.elts):
            for a, b in zip(t.elts, v):
                self.assign_target(a, b)
            return
        raise U(f"{self.what}: unsupported assignment target `{ast.unparse(t)}`")


# -------------------------------------------------------------------------------------------- constants
def str_list_consts(tree):
    """module-level `NAME = ["a", "b"]` (bound exactly once)"""
    out, count = {}, {}
    for n in tree.body:
        if isinstance(n, ast.Assign) and len(n.targets) == 1 and isinstance(n.targets[0], ast.Name):
            nm = n.targets[0].id
            count[nm] = count.get(nm, 0) + 1
            if isinstance(n.value, (ast.List, ast.Tuple)) and all(isinstance(x, ast.Constant) and isinstance(x.value, str) for x in n.value.elts):
                out[nm] = [x.value for x in n.value.elts]
    return {k: v for k, v in out.items() if count[k] == 1}


def module_consts(repo, mf_tree):
    consts = str_list_consts(mf_tree)
    dr_consts = str_list_consts(normalize.parse(open(os.path.join(repo, DR)).read()))
    for n in mf_tree.body:
        if isinstance(n, ast.ImportFrom) and n.module == "_disaggregated_result" and n.level == 1:
            for a in n.names:
                if a.name in dr_consts and (a.asname or a.name) not in consts:
                    consts[a.asname or a.name] = dr_consts[a.name]
    return consts


# -------------------------------------------------------------------------------------------- accessors
def lift_accessor(fn, consts):
    """-> (defaults {param: str}, guards {param: list name}, path [("lit", str) | ("param", name)])"""
    name = fn.name
    what = f"MetricFrame.{name}"
    params = [a.arg for a in fn.args.args if a.arg != "self"]
    want = SLOTS[name][1]
    if sorted(params) != sorted(want) or fn.args.vararg or fn.args.kwarg or fn.args.kwonlyargs \
            or len(fn.args.defaults) != len(params):
        raise U(f"{what}: parameters {params} (every one of {want} with a default is expected)")
    defaults = {}
    for p, d in zip(params, fn.args.defaults):
        if not (isinstance(d, ast.Constant) and isinstance(d.value, str) and d.value in KIND_TABLE[p]):
            raise U(f"{what}: default of `{p}` is `{ast.unparse(d)}`")
        defaults[p] = d.value
    body = [s for s in fn.body if not (isinstance(s, ast.Expr) and isinstance(s.value, ast.Constant))]
    guards = {}
    i = 0
    while i < len(body) and isinstance(body[i], ast.If):
        s = body[i]
        t = s.test
        if not (isinstance(t, ast.Compare) and len(t.ops) == 1 and isinstance(t.ops[0], ast.NotIn) and isinstance(t.left, ast.Name)
                and t.left.id in params and isinstance(t.comparators[0], ast.Name) and not s.orelse
                and len(s.body) == 1 and isinstance(s.body[0], ast.Raise)):
            break
        exc = s.body[0].exc
        if not (isinstance(exc, ast.Call) and isinstance(exc.func, ast.Name) and exc.func.id == "ValueError"):
            raise U(f"{what}: the argument check of `{t.left.id}` does not raise ValueError")
        if t.left.id in guards or t.comparators[0].id not in consts:
            raise U(f"{what}: unexpected argument check `{ast.unparse(t)}`")
        guards[t.left.id] = t.comparators[0].id
        i += 1
    rest = body[i:]
    if set(guards) != set(params):
        raise U(f"{what}: not every one of {params} is validated before the cache is read (found {sorted(guards)})")
    # value = self._result_cache[...]...; if isinstance(value, Exception): raise value else: return value
    if len(rest) == 3 and isinstance(rest[1], ast.If) and not rest[1].orelse and isinstance(rest[2], ast.Return):
        rest = [rest[0], ast.If(test=rest[1].test, body=rest[1].body, orelse=[rest[2]])]
    ok = (len(rest) == 2 and isinstance(rest[0], ast.Assign) and len(rest[0].targets) == 1 and isinstance(rest[0].targets[0], ast.Name)
          and isinstance(rest[1], ast.If))
    if not ok:
        raise U(f"{what}: body is not `value = self._result_cache[...]; if isinstance(value, Exception): raise value else: return value`")
    v = rest[0].targets[0].id
    iff = rest[1]
    if not (ast.unparse(iff.test) == f"isinstance({v}, Exception)" and len(iff.body) == 1 and isinstance(iff.body[0], ast.Raise)
            and isinstance(iff.body[0].exc, ast.Name) and iff.body[0].exc.id == v and iff.body[0].cause is None
            and len(iff.orelse) == 1 and isinstance(iff.orelse[0], ast.Return) and isinstance(iff.orelse[0].value, ast.Name)
            and iff.orelse[0].value.id == v):
        raise U(f"{what}: the cached value is not re-raised / returned unchanged")
    e = rest[0].value
    keys = []
    while isinstance(e, ast.Subscript):
        keys.append(e.slice)
        e = e.value
    if not is_self_attr(e, "_result_cache") or not keys:
        raise U(f"{what}: the value is not read from self._result_cache[...]")
    path = []
    for k in reversed(keys):
        if isinstance(k, ast.Constant) and isinstance(k.value, str):
            path.append(("lit", k.value))
        elif isinstance(k, ast.Name) and k.id in params:
            path.append(("param", k.id))
        else:
            raise U(f"{what}: cache key `{ast.unparse(k)}`")
    return params, defaults, guards, path


def slot_term(path, what):
    """cache path (literals / parameters) -> Lean term of type Slot"""
    if not path or path[0][0] != "lit" or path[0][1] not in SLOTS:
        raise U(f"{what}: top-level cache key {path[:1]} is not one of {sorted(SLOTS)}")
    ctor, kinds = SLOTS[path[0][1]]
    if len(path) != 1 + len(kinds):
        raise U(f"{what}: cache path {[p[1] for p in path]} has the wrong depth for `{path[0][1]}`")
    args = []
    for (tag, v), kind in zip(path[1:], kinds):
        if tag == "param":
            if v != kind:
                raise U(f"{what}: the `{kind}` level of the `{path[0][1]}` cache is indexed by the parameter `{v}`")
            args.append(v)
        else:
            if v not in KIND_TABLE[kind]:
                raise U(f"{what}: {v!r} is not a valid `{kind}` key")
            args.append(KIND_TABLE[kind][v])
    return f".{ctor} " + " ".join(args)


def lean_list(xs):
    return "[" + ", ".join(xs) + "]"


@translate.lifter
def lift(repo):
    tree = normalize.parse(open(os.path.join(repo, MF)).read())
    cls = next((n for n in tree.body if isinstance(n, ast.ClassDef) and n.name == "MetricFrame"), None)
    if cls is None:
        raise U("class MetricFrame not found")
    fns = [n for n in cls.body if isinstance(n, ast.FunctionDef)]
    meth = {n.name: n for n in fns}
    for nm in ["_populate_results", "_group", "_none_to_nan"] + sorted(SLOTS):
        if [n.name for n in fns].count(nm) != 1:
            raise U(f"expected exactly one method {nm}")
    consts = module_consts(repo, tree)
    for c, table in (("_VALID_ERROR_STRING", ERRORS), ("_COMPARE_METHODS", METHODS)):
        if c not in consts or any(v not in table for v in consts[c]) or len(set(consts[c])) != len(consts[c]):
            raise U(f"{c} = {consts.get(c)} is not a list of distinct values out of {sorted(table)}")
    # _none_to_nan: identity on the modelled values (None never occurs there); pinned text
    ntn = [s for s in meth["_none_to_nan"].body if not (isinstance(s, ast.Expr) and isinstance(s.value, ast.Constant))]
    if [a.arg for a in meth["_none_to_nan"].args.args] != ["self", "target"] or len(ntn) != 1 or ast.unparse(ntn[0]) != NONE_TO_NAN_BODY:
        raise U("_none_to_nan is not `return target.where(target.notna(), np.nan)`")
    # ---- _populate_results
    pop = meth["_populate_results"]
    pparams = [a.arg for a in pop.args.args]
    if len(pparams) != 2 or pparams[0] != "self" or pop.args.vararg or pop.args.kwarg or pop.args.kwonlyargs:
        raise U(f"_populate_results: parameters {pparams}")
    cache = Cache()
    it = Interp(consts, meth["_group"], cache, "_populate_results")
    it.env[pparams[1]] = Raw()
    if it.block(pop.body) is not None:
        raise U("_populate_results returns a value")
    entries = {}
    for path, v in cache.d.items():
        if v in ("dict", "other"):
            continue
        term = slot_term([("lit", k) for k in path], "_populate_results")
        c = v.call
        if c.kind == "grouping":
            if c.none_to_nan:
                raise U(f"_populate_results: the {list(path)} entry goes through _none_to_nan")
            call = f".grouping {GROUPINGS[c.a]} {ERRORS[c.errors]}"
        else:
            if not c.none_to_nan:
                raise U(f"_populate_results: the {list(path)} entry does not go through _none_to_nan")
            call = f".{c.kind} {METHODS[c.a]} {ERRORS[c.errors]}"
        entries[term] = (path, f"⟨{term}, {call}, {'true' if v.flag else 'false'}⟩")
    order = []
    for top in ("group_min", "group_max", "difference", "ratio"):
        ctor, kinds = SLOTS[top]
        ms = list(METHODS.values()) if "method" in kinds else [None]
        for m in ms:
            for e in ERRORS.values():
                order.append(f".{ctor} " + (f"{m} " if m else "") + e)
    lines = [entries[t][1] for t in order if t in entries]
    if set(cache.d) - {p for p, _ in entries.values()} - {k for k, v in cache.d.items() if v in ("dict", "other")}:
        raise U("_populate_results: unexpected cache entries")
    if {p for p, v in cache.d.items() if v == "other"} != {("overall",), ("by_group",)}:
        raise U("_populate_results: the overall / by_group entries are not both stored")
    # ---- accessors
    acc_lean, acc_meta = [], {}
    for nm in ("group_min", "group_max", "difference", "ratio"):
        params, defaults, guards, path = lift_accessor(meth[nm], consts)
        ctor = SLOTS[nm][0]
        for p in SLOTS[nm][1]:
            want = "_VALID_ERROR_STRING" if p == "errors" else "_COMPARE_METHODS"
            if guards[p] != want:
                raise U(f"MetricFrame.{nm}: `{p}` is validated against {guards[p]}")
        kinds = SLOTS[nm][1]
        binders = " ".join(f"({p} : {'Method' if p == 'method' else 'Errors'})" for p in kinds)
        acc_lean.append(f"/-- `MetricFrame.{nm}`: defaults and the cache entry it returns -/")
        for p in kinds:
            acc_lean.append(f"def {ctor}Default{p.capitalize()} : {'Method' if p == 'method' else 'Errors'} := "
                            f"{KIND_TABLE[p][defaults[p]]}")
        acc_lean.append(f"def {ctor}Slot {binders} : Slot := {slot_term(path, 'MetricFrame.' + nm)}")
        acc_meta[nm] = {"defaults": defaults, "path": [v for _, v in path]}
    entries_lean = ",\n   ".join(lines)
    errs_lean = lean_list([ERRORS[v] for v in consts["_VALID_ERROR_STRING"]])
    meths_lean = lean_list([METHODS[v] for v in consts["_COMPARE_METHODS"]])
    accessors_lean = "\n".join(acc_lean)
    lean = f"""-- GENERATED by harness/lifters/populate.py from {MF}, {DR}; do not edit.
import FairModel.Model.Aggregate

namespace PopulateSrc
open Aggregate

/-- the `DisaggregatedResult` call (first argument `self.control_levels`) a cache entry is computed with -/
inductive Call where
  | grouping (g : Grouping) (e : Errors)
  | difference (m : Method) (e : Errors)
  | ratio (m : Method) (e : Errors)
deriving Repr, DecidableEq

/-- a leaf of `self._result_cache`: `["group_min"][errors]`, `["difference"][method][errors]`, ... -/
inductive Slot where
  | groupMin (e : Errors)
  | groupMax (e : Errors)
  | difference (m : Method) (e : Errors)
  | ratio (m : Method) (e : Errors)
deriving Repr, DecidableEq

/-- one cache entry: where it is stored, the call that computes it (inside `try`; an exception is stored instead),
    and the `no_control_levels=` flag given to `_extract_result` -/
structure Entry where
  slot : Slot
  call : Call
  noControlLevels : Bool
deriving Repr, DecidableEq

/-- `_VALID_ERROR_STRING`, `_COMPARE_METHODS` -/
def validErrors : List Errors := {errs_lean}
def compareMethods : List Method := {meths_lean}

/-- `_populate_results` (+ `_group`), loops unrolled: the final content of the cache -/
def populate : List Entry :=
  [{entries_lean}]

{accessors_lean}

end PopulateSrc
"""
    meta = {"sources": [MF, DR], "entries": len(lines), "accessors": acc_meta,
            "valid_errors": consts["_VALID_ERROR_STRING"], "compare_methods": consts["_COMPARE_METHODS"]}
    return "PopulateSrc.lean", lean, meta
