"""Lifter for the feature naming of MetricFrame -> Generated/FeatureNamesSrc.lean

Lifts (refusing unknown shapes):
  * fairlearn/metrics/_metric_frame.py, `MetricFrame.__init__`: the base-name strings passed to `_process_features` for the
    sensitive and the control features, and the order in which the names are checked for duplicates
    (`namelist = self._sf_names; if self._cf_names: namelist = namelist + self._cf_names`);
  * the reserved-name check that precedes the insertion of the feature columns into all_data
    (`for name in self._sf_names + (self._cf_names or []): if name in all_data.columns: raise ValueError(_RESERVED_FEATURE_NAME...)`);
  * fairlearn/metrics/_group_feature.py, `GroupFeature.__init__`: the default-name format `"{0}{1}".format(base_name, index)`
    and the rule "explicit name, else a string Series.name, else the default; a non-string Series.name is rejected"."""
import ast
import hashlib
import os
import re

from .. import translate

MF = "fairlearn/metrics/_metric_frame.py"
GF = "fairlearn/metrics/_group_feature.py"


def U(rel, msg):
    return translate.Untranslatable(f"{rel}: {msg}")


def lean_str(s):
    return '"' + s.replace("\\", "\\\\").replace('"', '\\"') + '"'


@translate.lifter
def lift(repo):
    mf = ast.parse(open(os.path.join(repo, MF)).read())
    cls = next((n for n in mf.body if isinstance(n, ast.ClassDef) and n.name == "MetricFrame"), None)
    init = next((n for n in (cls.body if cls else []) if isinstance(n, ast.FunctionDef) and n.name == "__init__"), None)
    if init is None:
        raise U(MF, "MetricFrame.__init__ not found")
    bases = {}
    for n in ast.walk(init):
        if isinstance(n, ast.Assign) and isinstance(n.value, ast.Call) and isinstance(n.value.func, ast.Attribute) \
                and n.value.func.attr == "_process_features" and len(n.value.args) == 3 and not n.value.keywords:
            b, feats = n.value.args[0], n.value.args[1]
            if not (isinstance(b, ast.Constant) and isinstance(b.value, str) and isinstance(feats, ast.Name)):
                raise U(MF, f"unexpected _process_features call {ast.unparse(n.value)}")
            if feats.id in bases:
                raise U(MF, f"{feats.id} processed twice")
            bases[feats.id] = b.value
    if set(bases) != {"sensitive_features", "control_features"}:
        raise U(MF, f"_process_features calls found for {sorted(bases)}")
    # duplicate check: namelist = self._sf_names ; if self._cf_names: namelist = namelist + self._cf_names ; for name in namelist: ...
    order = None
    body = init.body
    for i, st in enumerate(body):
        if isinstance(st, ast.Assign) and len(st.targets) == 1 and isinstance(st.targets[0], ast.Name) \
                and ast.unparse(st.value) in ("self._sf_names", "self._cf_names") and i + 1 < len(body):
            first = ast.unparse(st.value)
            nxt = body[i + 1]
            nm = st.targets[0].id
            if isinstance(nxt, ast.If) and len(nxt.body) == 1 and not nxt.orelse and isinstance(nxt.body[0], ast.Assign) \
                    and ast.unparse(nxt.body[0].targets[0]) == nm and isinstance(nxt.body[0].value, ast.BinOp) \
                    and isinstance(nxt.body[0].value.op, ast.Add):
                l, r = ast.unparse(nxt.body[0].value.left), ast.unparse(nxt.body[0].value.right)
                other = "self._cf_names" if first == "self._sf_names" else "self._sf_names"
                if ast.unparse(nxt.test) != other or {l, r} != {nm, other}:
                    raise U(MF, f"unexpected name list construction {ast.unparse(nxt)}")
                seq = [first, other] if l == nm else [other, first]
                order = ["sensitive" if x == "self._sf_names" else "control" for x in seq]
                loop = body[i + 2] if i + 2 < len(body) else None
                if not (isinstance(loop, ast.For) and ast.unparse(loop.iter) == nm):
                    raise U(MF, "duplicate check loop not found after the name list")
                src = ast.unparse(loop)
                if not re.search(r"if \w+ in \w+:\s*\n\s*raise ValueError\(_DUPLICATE_FEATURE_NAME", src):
                    raise U(MF, f"duplicate check has an unexpected shape: {src[:120]}")
    if order is None:
        raise U(MF, "name list for the duplicate check not found")
    # reserved-name check: must come before the first `all_data[<feature>.name_] = ...` assignment
    reserved = None
    first_feature_assignment = None
    for i, st in enumerate(body):
        if isinstance(st, ast.For) and first_feature_assignment is None and any(
                isinstance(n, ast.Assign) and isinstance(n.targets[0], ast.Subscript) and ast.unparse(n.targets[0].value) == "all_data"
                and ast.unparse(n.targets[0].slice).endswith(".name_") for n in ast.walk(st)):
            first_feature_assignment = i
        if isinstance(st, ast.For) and isinstance(st.target, ast.Name) and isinstance(st.iter, ast.BinOp) \
                and isinstance(st.iter.op, ast.Add):
            l, r = ast.unparse(st.iter.left), ast.unparse(st.iter.right)
            pair = {"self._sf_names": "sensitive", "(self._cf_names or [])": "control", "self._cf_names or []": "control"}
            if l not in pair or r not in pair or pair[l] == pair[r]:
                raise U(MF, f"unexpected name list of the reserved-name check: {ast.unparse(st.iter)}")
            v = st.target.id
            if not (len(st.body) == 1 and isinstance(st.body[0], ast.If) and not st.body[0].orelse
                    and ast.unparse(st.body[0].test) == f"{v} in all_data.columns" and len(st.body[0].body) == 1
                    and isinstance(st.body[0].body[0], ast.Raise)
                    and ast.unparse(st.body[0].body[0].exc) == f"ValueError(_RESERVED_FEATURE_NAME.format({v}))"):
                raise U(MF, f"unexpected reserved-name check: {ast.unparse(st)[:160]}")
            if first_feature_assignment is not None:
                raise U(MF, "the reserved-name check comes after the feature columns were written")
            reserved = [pair[l], pair[r]]
    if reserved is None:
        raise U(MF, "reserved-name check (feature name in all_data.columns -> ValueError) not found: a feature could "
                "overwrite y_true / y_pred / a sample-parameter column")
    if first_feature_assignment is None:
        raise U(MF, "the insertion of the feature columns into all_data was not found")
    gf = ast.parse(open(os.path.join(repo, GF)).read())
    gcls = next((n for n in gf.body if isinstance(n, ast.ClassDef) and n.name == "GroupFeature"), None)
    ginit = next((n for n in (gcls.body if gcls else []) if isinstance(n, ast.FunctionDef) and n.name == "__init__"), None)
    if ginit is None:
        raise U(GF, "GroupFeature.__init__ not found")
    params = [a.arg for a in ginit.args.args]
    if params != ["self", "base_name", "feature_vector", "index", "name"]:
        raise U(GF, f"GroupFeature.__init__ parameters {params}")
    fmt = None
    rest = []
    for st in ginit.body:
        if isinstance(st, ast.Assign) and ast.unparse(st.targets[0]) == "self.name_" and isinstance(st.value, ast.Call) \
                and isinstance(st.value.func, ast.Attribute) and st.value.func.attr == "format" \
                and isinstance(st.value.func.value, ast.Constant) and isinstance(st.value.func.value.value, str):
            args = [ast.unparse(a) for a in st.value.args]
            if args != ["base_name", "index"] or st.value.keywords:
                raise U(GF, f"default name arguments {args}")
            fmt = st.value.func.value.value
        elif isinstance(st, ast.If) and fmt is not None:
            rest.append(ast.unparse(st))
    if fmt is None:
        raise U(GF, "default name format not found")
    pieces = re.split(r"(\{[01]\})", fmt)
    if "{" in "".join(p for p in pieces if p not in ("{0}", "{1}")) or pieces.count("{0}") != 1 or pieces.count("{1}") != 1:
        raise U(GF, f"unsupported format string {fmt!r}")
    terms = [("base_name" if p == "{0}" else "Nat.repr index" if p == "{1}" else lean_str(p)) for p in pieces if p != ""]
    want_rule = ("if name is not None:\n    self.name_ = name\nelif isinstance(feature_vector, pd.Series):\n"
                 "    if feature_vector.name is not None:\n        if isinstance(feature_vector.name, str):\n"
                 "            self.name_ = feature_vector.name\n        else:\n"
                 "            msg = _SERIES_NAME_NOT_STRING.format(feature_vector.name, type(feature_vector.name))\n"
                 "            raise ValueError(msg)")
    if rest != [want_rule]:
        raise U(GF, "the name rule (explicit name / string Series.name / default / non-string rejected) has an unexpected shape")
    lean = f"""-- GENERATED by harness/lifters/feature_names.py from {MF}, {GF}; do not edit.
namespace FeatureNamesSrc

/-- base name passed to `_process_features` for `sensitive_features` -/
def sensitiveBase : String := {lean_str(bases['sensitive_features'])}
/-- base name passed to `_process_features` for `control_features` -/
def controlBase : String := {lean_str(bases['control_features'])}

/-- `{fmt!r}.format(base_name, index)` (GroupFeature default name) -/
def defaultName (base_name : String) (index : Nat) : String := {' ++ '.join(terms)}

/-- the duplicate check walks the sensitive names first: `namelist = {' + '.join(order)}` -/
def sensitiveNamesFirst : Bool := {'true' if order == ['sensitive', 'control'] else 'false'}

/-- before the feature columns are written into `all_data`: `for name in {' + '.join(reserved)}: if name in all_data.columns: raise ValueError` -/
def reservedCheck : Bool := true
def reservedSensitiveFirst : Bool := {'true' if reserved == ['sensitive', 'control'] else 'false'}

end FeatureNamesSrc
"""
    meta = {"sources": [MF, GF], "bases": bases, "format": fmt, "order": order, "reserved": reserved,
            "sha256": hashlib.sha256(lean.encode()).hexdigest()}
    return "FeatureNamesSrc.lean", lean, meta
