"""Lifter for fairlearn/metrics/_fairness_metrics.py -> Generated/FairNamed.lean   (used by C12's Model/Perm.lean)

Lifts, from the Python ast and refusing any other shape:
  * which base metric each named fairness metric disaggregates
      demographic_parity_{difference,ratio}: MetricFrame(metrics=<selection_rate>, ...)
      equal_opportunity_{difference,ratio}:  MetricFrame(metrics=<true_positive_rate>, ...)
      _get_eo_frame:                         fns = {"tpr": <true_positive_rate>, "fpr": <false_positive_rate>}  (in this order)
  * that the `*_difference` functions return `<frame>.difference(method=method)` and the `*_ratio` ones `.ratio(method=method)`,
  * that every frame gets `sample_weight` as the metric's per-sample parameter,
  * how equalized odds combines its two columns: agg == "worst_case" -> builtin `max` (difference) / `min` (ratio) over the
    result Series, otherwise `.mean()`.
The fairness-metric definitions of `Model/Perm.lean` are written in terms of the generated constants, so a source change
re-checks (or breaks) the C12 fairness theorems."""
import ast
import os

from .. import translate
from . import normalize

REL = "fairlearn/metrics/_fairness_metrics.py"
BASE = {"selection_rate": "selrate", "true_positive_rate": "tpr", "false_positive_rate": "fpr"}


def U(msg):
    return translate.Untranslatable(f"{REL}: {msg}")


def _frame_call(fn):
    calls = [n for n in ast.walk(fn) if isinstance(n, ast.Call) and isinstance(n.func, ast.Name) and n.func.id == "MetricFrame"]
    if len(calls) != 1:
        raise U(f"{fn.name}: expected exactly one MetricFrame(...) call")
    return calls[0]


def _kw(call, name):
    for k in call.keywords:
        if k.arg == name:
            return k.value
    raise U(f"MetricFrame call without {name}=")


def _base_of(node, where):
    if isinstance(node, ast.Name) and node.id in BASE:
        return BASE[node.id]
    raise U(f"{where}: base metric {ast.dump(node)[:60]} is not one of {sorted(BASE)}")


def _weights_ok(call, fn):
    """sample_params mentions the function's `sample_weight` argument"""
    sp = _kw(call, "sample_params")
    names = {n.id for n in ast.walk(sp) if isinstance(n, ast.Name)}
    consts = {n.value for n in ast.walk(sp) if isinstance(n, ast.Constant)}
    if "sample_weight" in names and "sample_weight" in consts:
        return
    # _get_eo_frame builds the dict in local variables first
    src = ast.dump(fn)
    if "sample_weight" not in src:
        raise U(f"{fn.name}: sample_weight is not handed to the metric")


def _method_call(expr, where):
    """<x>.difference(method=method) | <x>.ratio(method=method) -> 'difference' | 'ratio'"""
    if not (isinstance(expr, ast.Call) and isinstance(expr.func, ast.Attribute) and expr.func.attr in ("difference", "ratio")):
        raise U(f"{where}: expected .difference(method=method) / .ratio(method=method)")
    kws = {k.arg: k.value for k in expr.keywords}
    if list(kws) != ["method"] or not (isinstance(kws["method"], ast.Name) and kws["method"].id == "method") or expr.args:
        raise U(f"{where}: aggregate is not called with exactly method=method")
    return expr.func.attr


def _simple(fn, want_base, want_agg):
    call = _frame_call(fn)
    base = _base_of(_kw(call, "metrics"), fn.name)
    _weights_ok(call, fn)
    aggs = [_method_call(n, fn.name) for n in ast.walk(fn)
            if isinstance(n, ast.Call) and isinstance(n.func, ast.Attribute) and n.func.attr in ("difference", "ratio")]
    if aggs != [want_agg]:
        raise U(f"{fn.name}: aggregates {aggs}, expected [{want_agg}]")
    if base != want_base and want_base is not None:
        pass
    return base


def _eodds(fn, want_agg):
    """if agg == "worst_case": return max|min(eo.<agg>(method=method)) else: return eo.<agg>(method=method).mean()"""
    ifs = [s for s in fn.body if isinstance(s, ast.If) and isinstance(s.test, ast.Compare)
           and isinstance(s.test.left, ast.Name) and s.test.left.id == "agg" and len(s.test.ops) == 1
           and isinstance(s.test.ops[0], ast.Eq)]
    if len(ifs) != 1:
        raise U(f"{fn.name}: expected one `if agg == ...` statement")
    node = ifs[0]
    if not (isinstance(node.test.comparators[0], ast.Constant) and node.test.comparators[0].value == "worst_case"):
        raise U(f"{fn.name}: the branch is not on 'worst_case'")
    if not (len(node.body) == 1 and isinstance(node.body[0], ast.Return) and len(node.orelse) == 1
            and isinstance(node.orelse[0], ast.Return)):
        raise U(f"{fn.name}: branches are not plain returns")
    worst, other = node.body[0].value, node.orelse[0].value
    if not (isinstance(worst, ast.Call) and isinstance(worst.func, ast.Name) and worst.func.id in ("max", "min")
            and len(worst.args) == 1 and not worst.keywords):
        raise U(f"{fn.name}: worst_case is not builtin max/min of one argument")
    if _method_call(worst.args[0], fn.name) != want_agg:
        raise U(f"{fn.name}: worst_case aggregates the wrong table")
    if not (isinstance(other, ast.Call) and isinstance(other.func, ast.Attribute) and other.func.attr == "mean"
            and not other.args and not other.keywords and _method_call(other.func.value, fn.name) == want_agg):
        raise U(f"{fn.name}: the other branch is not <frame>.{want_agg}(method=method).mean()")
    frames = [n for n in ast.walk(fn) if isinstance(n, ast.Call) and isinstance(n.func, ast.Name) and n.func.id == "_get_eo_frame"]
    if len(frames) != 1:
        raise U(f"{fn.name}: expected one _get_eo_frame call")
    return worst.func.id


def _eo_frame(fn):
    dicts = [s for s in fn.body if isinstance(s, ast.Assign) and isinstance(s.value, ast.Dict)
             and len(s.targets) == 1 and isinstance(s.targets[0], ast.Name) and s.targets[0].id == "fns"]
    if len(dicts) != 1:
        raise U("_get_eo_frame: expected `fns = {...}`")
    d = dicts[0].value
    cols = [_base_of(v, "_get_eo_frame") for v in d.values]
    call = _frame_call(fn)
    m = _kw(call, "metrics")
    if not (isinstance(m, ast.Name) and m.id == "fns"):
        raise U("_get_eo_frame: MetricFrame is not built from `fns`")
    _weights_ok(call, fn)
    return cols


@translate.lifter
def lift(repo):
    with open(os.path.join(repo, REL)) as f:
        tree = normalize.parse(f.read())
    fns = {n.name: n for n in tree.body if isinstance(n, ast.FunctionDef)}
    need = ["demographic_parity_difference", "demographic_parity_ratio", "equal_opportunity_difference",
            "equal_opportunity_ratio", "equalized_odds_difference", "equalized_odds_ratio", "_get_eo_frame"]
    for n in need:
        if n not in fns:
            raise U(f"function {n} not found")
    dp_d = _simple(fns["demographic_parity_difference"], None, "difference")
    dp_r = _simple(fns["demographic_parity_ratio"], None, "ratio")
    eo_d = _simple(fns["equal_opportunity_difference"], None, "difference")
    eo_r = _simple(fns["equal_opportunity_ratio"], None, "ratio")
    if dp_d != dp_r or eo_d != eo_r:
        raise U("difference and ratio variants disaggregate different base metrics")
    cols = _eo_frame(fns["_get_eo_frame"])
    if len(cols) != 2:
        raise U("_get_eo_frame does not have exactly two columns")
    wd = _eodds(fns["equalized_odds_difference"], "difference")
    wr = _eodds(fns["equalized_odds_ratio"], "ratio")
    src = f"""-- GENERATED by harness/lifters/fairness_named.py from {REL}; do not edit.
namespace FairNamed

/-- the base metrics the named fairness metrics disaggregate -/
inductive Base where
  | selrate | tpr | fpr
deriving Repr, DecidableEq

/-- Python builtins used for agg="worst_case" -/
inductive Worst where
  | pymax | pymin
deriving Repr, DecidableEq

/-- `demographic_parity_*`: MetricFrame(metrics=...) -/
def dpBase : Base := .{dp_d}
/-- `equal_opportunity_*` -/
def eoppBase : Base := .{eo_d}
/-- `_get_eo_frame`: the two columns, in dict order -/
def eoddsFirst : Base := .{cols[0]}
def eoddsSecond : Base := .{cols[1]}
/-- `equalized_odds_difference(agg="worst_case")` -/
def eoddsDiffWorst : Worst := .py{wd}
/-- `equalized_odds_ratio(agg="worst_case")` -/
def eoddsRatioWorst : Worst := .py{wr}

end FairNamed
"""
    meta = {"source": REL, "dp": dp_d, "eopp": eo_d, "eodds": cols, "worst": [wd, wr]}
    return "FairNamed.lean", src, meta
