"""Lifter for fairlearn/metrics/_fairness_metrics.py -> Generated/FairNamed.lean   (used by C12's Model/Perm.lean)

Lifts, from the Python ast and refusing any other shape:
  * which base metric each named fairness metric disaggregates
      demographic_parity_{difference,ratio}: MetricFrame(metrics=<selection_rate>, ...)
      equal_opportunity_{difference,ratio}:  MetricFrame(metrics=<true_positive_rate>, ...)
      _get_eo_frame:                         fns = {"tpr": <true_positive_rate>, "fpr": <false_positive_rate>}  (in this order)
  * that the `*_difference` functions return `<frame>.difference(method=method)` and the `*_ratio` ones `.ratio(method=method)`,
  * that every frame gets `sample_weight` as the metric's per-sample parameter,
  * how equalized odds combines its two columns: agg == "worst_case" -> builtin `max` (difference) / `min` (ratio) over the
    result Series, otherwise `.mean()`.
The fairness-metric definitions of `Model/Perm.lean` are written in terms of the generated constants, so a source change
re-checks (or breaks) the C12 fairness theorems."""
import ast
import copy
import os

from .. import translate
from . import normalize

REL = "fairlearn/metrics/_fairness_metrics.py"
BASE = {"selection_rate": "selrate", "true_positive_rate": "tpr", "false_positive_rate": "fpr"}


def U(msg):
    return translate.Untranslatable(f"{REL}: {msg}")


class _Subst(ast.NodeTransformer):
    def __init__(self, env):
        self.env = env

    def visit_Name(self, node):
        if isinstance(node.ctx, ast.Load) and node.id in self.env:
            return copy.deepcopy(self.env[node.id])
        return node


def inline_locals(fn, rel=REL):
    """The named fairness metrics are straight-line pipelines: `x = <expr>` statements (each local bound exactly once, at
    top level), at most `if` statements whose branches return / raise, and a return.  Substituting every local into its
    uses gives ONE expression per return, independent of the names of the locals, of temporaries being introduced or
    inlined, and of the order of independent definitions.  (The substituted expressions only construct dicts and
    MetricFrames from the arguments, so evaluating them at the use instead of at the definition computes the same
    value.)  Returns a copy of `fn` whose body is the remaining `if` / `return` statements; anything else is refused."""
    def bad(msg):
        return translate.Untranslatable(f"{rel}: {fn.name}: {msg}")
    args = {a.arg for a in fn.args.posonlyargs + fn.args.args + fn.args.kwonlyargs}
    stores = {}
    for n in ast.walk(fn):
        if isinstance(n, ast.Name) and not isinstance(n.ctx, ast.Load):
            stores[n.id] = stores.get(n.id, 0) + 1
        elif isinstance(n, (ast.Lambda, ast.FunctionDef, ast.ListComp, ast.DictComp, ast.SetComp, ast.GeneratorExp, ast.NamedExpr)) \
                and n is not fn:
            raise bad("nested scope / walrus")
    env, rest = {}, []
    for st in fn.body:
        if isinstance(st, ast.Expr) and isinstance(st.value, ast.Constant):
            continue
        if isinstance(st, ast.Assign):
            if not (len(st.targets) == 1 and isinstance(st.targets[0], ast.Name) and stores.get(st.targets[0].id) == 1
                    and st.targets[0].id not in args and not rest_has_return(rest)):
                raise bad(f"assignment of unknown shape `{ast.unparse(st)[:60]}`")
            env[st.targets[0].id] = _Subst(env).visit(copy.deepcopy(st.value))
            continue
        if isinstance(st, (ast.If, ast.Return)):
            for n in ast.walk(st):
                if isinstance(n, ast.stmt) and not isinstance(n, (ast.If, ast.Return, ast.Raise)):
                    raise bad(f"statement of unknown shape under `{ast.unparse(st)[:40]}`")
            rest.append(_Subst(env).visit(copy.deepcopy(st)))
            continue
        raise bad(f"statement of unknown shape `{ast.unparse(st)[:60]}`")
    out = copy.copy(fn)
    out.body = rest
    return ast.fix_missing_locations(out)


def rest_has_return(stmts):
    return any(isinstance(s, ast.Return) for s in stmts)


def if_else_returns(stmts):
    """`if c: return a` followed by `return b`  ->  `if c: return a  else: return b`"""
    if len(stmts) >= 2 and isinstance(stmts[-2], ast.If) and not stmts[-2].orelse and isinstance(stmts[-1], ast.Return) \
            and len(stmts[-2].body) == 1 and isinstance(stmts[-2].body[0], ast.Return):
        return stmts[:-2] + [ast.If(test=stmts[-2].test, body=stmts[-2].body, orelse=[stmts[-1]])]
    return stmts


def _frame_call(fn):
    calls = [n for n in ast.walk(fn) if isinstance(n, ast.Call) and isinstance(n.func, ast.Name) and n.func.id == "MetricFrame"]
    if len(calls) != 1:
        raise U(f"{fn.name}: expected exactly one MetricFrame(...) call")
    return calls[0]


def _kw(call, name):
    for k in call.keywords:
        if k.arg == name:
            return k.value
    raise U(f"MetricFrame call without {name}=")


def _base_of(node, where):
    if isinstance(node, ast.Name) and node.id in BASE:
        return BASE[node.id]
    raise U(f"{where}: base metric {ast.dump(node)[:60]} is not one of {sorted(BASE)}")


def _weights_ok(call, fn):
    """sample_params mentions the function's `sample_weight` argument"""
    sp = _kw(call, "sample_params")
    names = {n.id for n in ast.walk(sp) if isinstance(n, ast.Name)}
    consts = {n.value for n in ast.walk(sp) if isinstance(n, ast.Constant)}
    if "sample_weight" in names and "sample_weight" in consts:
        return
    raise U(f"{fn.name}: sample_weight is not handed to the metric")


def _method_call(expr, where):
    """<x>.difference(method=method) | <x>.ratio(method=method) -> 'difference' | 'ratio'"""
    if not (isinstance(expr, ast.Call) and isinstance(expr.func, ast.Attribute) and expr.func.attr in ("difference", "ratio")):
        raise U(f"{where}: expected .difference(method=method) / .ratio(method=method)")
    kws = {k.arg: k.value for k in expr.keywords}
    if list(kws) != ["method"] or not (isinstance(kws["method"], ast.Name) and kws["method"].id == "method") or expr.args:
        raise U(f"{where}: aggregate is not called with exactly method=method")
    return expr.func.attr


def _simple(fn, want_base, want_agg):
    call = _frame_call(fn)
    base = _base_of(_kw(call, "metrics"), fn.name)
    _weights_ok(call, fn)
    aggs = [_method_call(n, fn.name) for n in ast.walk(fn)
            if isinstance(n, ast.Call) and isinstance(n.func, ast.Attribute) and n.func.attr in ("difference", "ratio")]
    if aggs != [want_agg]:
        raise U(f"{fn.name}: aggregates {aggs}, expected [{want_agg}]")
    body = fn.body          # (locals inlined) a single `return MetricFrame(...).<agg>(method=method)`
    if not (len(body) == 1 and isinstance(body[0], ast.Return) and isinstance(body[0].value, ast.Call)
            and isinstance(body[0].value.func, ast.Attribute) and body[0].value.func.value is call):
        raise U(f"{fn.name}: does not return <MetricFrame>.{want_agg}(method=method)")
    if base != want_base and want_base is not None:
        pass
    return base


def _eodds(fn, want_agg):
    """if agg == "worst_case": return max|min(eo.<agg>(method=method)) else: return eo.<agg>(method=method).mean()"""
    fn = copy.copy(fn)
    fn.body = if_else_returns(fn.body)
    ifs = [s for s in fn.body if isinstance(s, ast.If) and isinstance(s.test, ast.Compare)
           and isinstance(s.test.left, ast.Name) and s.test.left.id == "agg" and len(s.test.ops) == 1
           and isinstance(s.test.ops[0], ast.Eq)]
    if len(ifs) != 1:
        raise U(f"{fn.name}: expected one `if agg == ...` statement")
    node = ifs[0]
    if not (isinstance(node.test.comparators[0], ast.Constant) and node.test.comparators[0].value == "worst_case"):
        raise U(f"{fn.name}: the branch is not on 'worst_case'")
    if not (len(node.body) == 1 and isinstance(node.body[0], ast.Return) and len(node.orelse) == 1
            and isinstance(node.orelse[0], ast.Return)):
        raise U(f"{fn.name}: branches are not plain returns")
    worst, other = node.body[0].value, node.orelse[0].value
    if not (isinstance(worst, ast.Call) and isinstance(worst.func, ast.Name) and worst.func.id in ("max", "min")
            and len(worst.args) == 1 and not worst.keywords):
        raise U(f"{fn.name}: worst_case is not builtin max/min of one argument")
    if _method_call(worst.args[0], fn.name) != want_agg:
        raise U(f"{fn.name}: worst_case aggregates the wrong table")
    for e in (worst.args[0], other.func.value if isinstance(other, ast.Call) and isinstance(other.func, ast.Attribute) else None):
        if not (isinstance(e, ast.Call) and isinstance(e.func, ast.Attribute) and isinstance(e.func.value, ast.Call)
                and isinstance(e.func.value.func, ast.Name) and e.func.value.func.id == "_get_eo_frame"):
            raise U(f"{fn.name}: the aggregate is not taken of the _get_eo_frame(...) frame")
    if not (isinstance(other, ast.Call) and isinstance(other.func, ast.Attribute) and other.func.attr == "mean"
            and not other.args and not other.keywords and _method_call(other.func.value, fn.name) == want_agg):
        raise U(f"{fn.name}: the other branch is not <frame>.{want_agg}(method=method).mean()")
    for branch in (worst, other):       # (the locals are inlined: each return expression has its own copy of the call)
        frames = [n for n in ast.walk(branch) if isinstance(n, ast.Call) and isinstance(n.func, ast.Name) and n.func.id == "_get_eo_frame"]
        if len(frames) != 1 or [ast.unparse(a) for a in frames[0].args] != ["y_true", "y_pred", "sensitive_features", "sample_weight"] \
                or frames[0].keywords:
            raise U(f"{fn.name}: expected one _get_eo_frame(y_true, y_pred, sensitive_features, sample_weight) call")
    return worst.func.id


def _eo_frame(fn):
    call = _frame_call(fn)
    d = _kw(call, "metrics")
    if not isinstance(d, ast.Dict):
        raise U("_get_eo_frame: MetricFrame is not built from a dict of metrics")
    cols = [_base_of(v, "_get_eo_frame") for v in d.values]
    _weights_ok(call, fn)
    return cols


@translate.lifter
def lift(repo):
    with open(os.path.join(repo, REL)) as f:
        tree = normalize.parse(f.read())
    fns = {n.name: n for n in tree.body if isinstance(n, ast.FunctionDef)}
    if len(fns) != sum(1 for n in tree.body if isinstance(n, ast.FunctionDef)):
        raise U("a function is defined twice")
    need = ["demographic_parity_difference", "demographic_parity_ratio", "equal_opportunity_difference",
            "equal_opportunity_ratio", "equalized_odds_difference", "equalized_odds_ratio", "_get_eo_frame"]
    for n in need:
        if n not in fns:
            raise U(f"function {n} not found")
        fns[n] = inline_locals(fns[n])
    dp_d = _simple(fns["demographic_parity_difference"], None, "difference")
    dp_r = _simple(fns["demographic_parity_ratio"], None, "ratio")
    eo_d = _simple(fns["equal_opportunity_difference"], None, "difference")
    eo_r = _simple(fns["equal_opportunity_ratio"], None, "ratio")
    if dp_d != dp_r or eo_d != eo_r:
        raise U("difference and ratio variants disaggregate different base metrics")
    cols = _eo_frame(fns["_get_eo_frame"])
    if len(cols) != 2:
        raise U("_get_eo_frame does not have exactly two columns")
    wd = _eodds(fns["equalized_odds_difference"], "difference")
    wr = _eodds(fns["equalized_odds_ratio"], "ratio")
    src = f"""-- GENERATED by harness/lifters/fairness_named.py from {REL}; do not edit.
namespace FairNamed

/-- the base metrics the named fairness metrics disaggregate -/
inductive Base where
  | selrate | tpr | fpr
deriving Repr, DecidableEq

/-- Python builtins used for agg="worst_case" -/
inductive Worst where
  | pymax | pymin
deriving Repr, DecidableEq

/-- `demographic_parity_*`: MetricFrame(metrics=...) -/
def dpBase : Base := .{dp_d}
/-- `equal_opportunity_*` -/
def eoppBase : Base := .{eo_d}
/-- `_get_eo_frame`: the two columns, in dict order -/
def eoddsFirst : Base := .{cols[0]}
def eoddsSecond : Base := .{cols[1]}
/-- `equalized_odds_difference(agg="worst_case")` -/
def eoddsDiffWorst : Worst := .py{wd}
/-- `equalized_odds_ratio(agg="worst_case")` -/
def eoddsRatioWorst : Worst := .py{wr}

end FairNamed
"""
    meta = {"source": REL, "dp": dp_d, "eopp": eo_d, "eodds": cols, "worst": [wd, wr]}
    return "FairNamed.lean", src, meta
