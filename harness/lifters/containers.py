"""Lifter for C12: through WHICH conversion does each user-supplied argument pass before it reaches a pandas
operation that aligns on index labels (column assignment into a DataFrame, a DataFrame / Series constructor, a dict
that becomes a DataFrame, a `load_data` that builds `tags`)?   ->  lean/FairModel/Generated/ContainerSites.lean
The sinks INSIDE `UtilityParity.load_data` / `Moment.load_data` (`self.tags = pd.DataFrame({_LABEL: y})`,
`self.tags[_GROUP_ID] = sensitive_features`, `self.tags[_EVENT] = event`) are rows too: a bare parameter stored there gets the
join of the classes of the argument at every `super().load_data(..)` call that reaches the function (`inner_load_data_rows`;
the class hierarchy deciding what `super()` reaches is checked, an unknown class with a `load_data` is refused).

For every SINK of the functions listed in `SITES` the expression stored at the sink is classified:

    asarray     np.<anything>(..) / check_array(..) / _convert_to_ndarray_and_squeeze(..) / _convert_to_ndarray_1d(..)
                (numpy objects carry no labels)
    values      <e>.values / <e>.to_numpy()
    listOf      list(..) / [.. for ..] / <e>.tolist() / map(..)
    resetIndex  <e>.reset_index(drop=True)
    fresh       an output of `_validate_and_reformat_input(..)` (a Series that function has just built from a positional
                array, hence with a RangeIndex), or `pd.Series(data=<const>, index=<fresh>.index)`, `<fresh>.apply(..)`,
                `_merge_event_and_control_columns(<fresh>, <fresh>)`
    kind        the raw argument inside an `isinstance(arg, list | np.ndarray)` branch (a kind without labels)
    raw         the raw argument (a bare name / attribute chain / subscript of a parameter, possibly inside an
                `isinstance(arg, pd.Series | pd.DataFrame)` branch) -- NOT label dropping

Method calls that keep the class of their receiver (`.squeeze()`, `.reshape(..)`, `.astype(..)`, `.copy()`, subscripts)
are looked through; local names are resolved through ALL their assignments in the function (join; a parameter that is
re-assigned is judged by its assignments -- e.g. `y = np.asarray(y)` under `if expect_y:`; this is stated in the
generated file); loop variables through the iterated expression.  Anything else at a sink is REFUSED
(`Untranslatable`: broken tie).  A `raw` site is emitted, not refused: `C12.lifted_sites_drop_labels` (`by decide` over
the generated table) then fails and names the site.
"""
import ast
import os

from .. import translate

CLEAN = ("asarray", "values", "listOf", "resetIndex", "fresh", "kind")
NP_LIKE = {"check_array", "_convert_to_ndarray_and_squeeze", "_convert_to_ndarray_1d", "_merge_columns"}
KEEP_METHODS = {"squeeze", "reshape", "astype", "copy", "ravel", "flatten", "transpose"}
FRESH_FUNCS = {"_merge_event_and_control_columns"}


def U(msg):
    return translate.Untranslatable("containers lifter: " + msg)


def find_func(tree, qual):
    parts = qual.split(".")
    nodes = tree.body
    fn = None
    for i, p in enumerate(parts):
        hit = [n for n in nodes if isinstance(n, (ast.ClassDef, ast.FunctionDef)) and n.name == p]
        if len(hit) != 1:
            raise U(f"{qual}: `{p}` not found (or ambiguous)")
        fn = hit[0]
        nodes = fn.body
    if not isinstance(fn, ast.FunctionDef):
        raise U(f"{qual} is not a function")
    return fn


def call_name(node):
    """dotted name of a call's function, or None"""
    try:
        return ast.unparse(node.func)
    except Exception:  # noqa: BLE001
        return None


class Fn:
    """intra-procedural view of one function: parameters, assignments, loop bindings, isinstance guards"""

    def __init__(self, fn, where, assume_true=()):
        self.fn, self.where, self.assume_true = fn, where, set(assume_true)
        a = fn.args
        self.params = [x.arg for x in a.posonlyargs + a.args + a.kwonlyargs if x.arg != "self"]
        self.has_kwargs = a.kwarg.arg if a.kwarg else None
        self.assigns = {}      # name -> list of value nodes
        self.loops = {}        # loop variable -> iterated expression
        self.fresh = set()     # names unpacked from _validate_and_reformat_input(...)
        self.parents = {}
        for node in ast.walk(fn):
            for ch in ast.iter_child_nodes(node):
                self.parents[ch] = node
            if isinstance(node, ast.Assign) and len(node.targets) == 1:
                t = node.targets[0]
                if isinstance(t, ast.Name):
                    self.assigns.setdefault(t.id, []).append(node.value)
                elif isinstance(t, ast.Tuple) and isinstance(node.value, ast.Call) \
                        and call_name(node.value) == "_validate_and_reformat_input":
                    for e in t.elts:
                        if isinstance(e, ast.Name) and e.id != "_":
                            self.fresh.add(e.id)
                elif isinstance(t, ast.Tuple):
                    for e in t.elts:
                        if isinstance(e, ast.Name):
                            self.assigns.setdefault(e.id, []).append(node.value)
            elif isinstance(node, ast.For):
                for e in ([node.target] if isinstance(node.target, ast.Name) else
                          (node.target.elts if isinstance(node.target, ast.Tuple) else [])):
                    if isinstance(e, ast.Name):
                        self.loops[e.id] = node.iter

    # ---------------------------------------------------------------- reaching assignments
    @staticmethod
    def _direct(st, name):
        """value assigned to `name` by the simple statement `st` (or the marker FRESH), else None"""
        if isinstance(st, ast.Assign) and len(st.targets) == 1:
            t = st.targets[0]
            if isinstance(t, ast.Name) and t.id == name:
                return st.value
            if isinstance(t, ast.Tuple) and any(isinstance(e, ast.Name) and e.id == name for e in t.elts):
                if isinstance(st.value, ast.Call) and call_name(st.value) == "_validate_and_reformat_input":
                    return "FRESH"
                return st.value
        if isinstance(st, (ast.AugAssign, ast.AnnAssign)) and isinstance(st.target, ast.Name) and st.target.id == name:
            return st.value if st.value is not None else None
        return None

    def _scan_block(self, blk, name, vals):
        """walk `blk` backwards; True when a definitive assignment was found"""
        for st in reversed(blk):
            d = self._direct(st, name)
            if d is not None:
                vals.append((d, st))
                return True
            if isinstance(st, ast.If) and isinstance(st.test, ast.Name) and st.test.id in self.assume_true:
                if self._scan_block(st.body, name, vals):      # the branch is always taken (checked on all callers)
                    return True
                continue
            for n in ast.walk(st):
                if n is not st:
                    d = self._direct(n, name)
                    if d is not None:
                        vals.append((d, n))                    # conditional assignment: joined
        return False

    def reaching(self, name, at):
        """([(value node | "FRESH", statement)], definitive?) for the assignments to `name` that may reach `at`"""
        vals = []
        cur = at
        while cur in self.parents and cur is not self.fn:
            par = self.parents[cur]
            for field in ("body", "orelse", "finalbody"):
                blk = getattr(par, field, None)
                if isinstance(blk, list) and cur in blk:
                    if self._scan_block(blk[:blk.index(cur)], name, vals):
                        return vals, True
            cur = par
        return vals, False

    # ---------------------------------------------------------------- guards
    def guards(self, node):
        """{param name: set of type names} from the enclosing `if isinstance(<name>, T)` tests whose BODY contains node"""
        out = {}
        cur = node
        while cur in self.parents:
            par = self.parents[cur]
            if isinstance(par, ast.If) and cur in par.body:
                t = par.test
                if isinstance(t, ast.Call) and call_name(t) == "isinstance" and len(t.args) == 2 \
                        and isinstance(t.args[0], ast.Name):
                    ty = t.args[1]
                    names = [ast.unparse(e) for e in (ty.elts if isinstance(ty, ast.Tuple) else [ty])]
                    out.setdefault(t.args[0].id, set()).update(names)
            cur = par
        return out

    # ---------------------------------------------------------------- classification
    def classify(self, expr, at, seen=()):
        """class of `expr` evaluated at statement `at`"""
        if isinstance(expr, ast.Call):
            cn = call_name(expr)
            if cn is not None and (cn.startswith("np.") or cn in NP_LIKE):
                return "asarray"
            if cn in ("list", "map", "sorted"):
                return "listOf"
            if isinstance(expr.func, ast.Name) and expr.func.id in self.params:
                return "raw"          # the output of a user-supplied callable (predictor / estimator) may carry labels
            if cn in FRESH_FUNCS:
                cls = {self.classify(a, at, seen) for a in expr.args}
                return "fresh" if cls <= {"fresh", "none"} else "raw"
            if cn in ("pd.Series", "pd.DataFrame", "pd.DataFrame.from_dict"):
                kw = {k.arg: k.value for k in expr.keywords}
                if "index" in kw:
                    # pd.Series(data=<const>, index=<fresh>.index)
                    ix = kw["index"]
                    if isinstance(ix, ast.Attribute) and ix.attr == "index" and self.classify(ix.value, at, seen) == "fresh":
                        return "fresh"
                    raise U(f"{self.where}: pandas constructor with index= of unknown origin: {ast.unparse(expr)}")
                src = expr.args[0] if expr.args else kw.get("data")
                if src is None:
                    return "fresh"
                inner = self.classify(src, at, seen) if not isinstance(src, ast.Dict) else \
                    self.join([self.classify(v, at, seen) for v in src.values])
                return "fresh" if inner in CLEAN else "raw"
            if isinstance(expr.func, ast.Attribute):
                m = expr.func.attr
                if m == "to_numpy":
                    return "values"
                if m == "tolist":
                    return "listOf"
                if m == "reset_index":
                    kw = {k.arg: ast.unparse(k.value) for k in expr.keywords}
                    if kw.get("drop") == "True":
                        return "resetIndex"
                    raise U(f"{self.where}: reset_index without drop=True: {ast.unparse(expr)}")
                if m in KEEP_METHODS or m == "apply":
                    return self.classify(expr.func.value, at, seen)
                if m in ("where", "mask"):          # keeps the receiver's index; the condition is aligned on it
                    return self.join([self.classify(expr.func.value, at, seen)] +
                                     [self.classify(a, at, seen) for a in expr.args])
                if m == "get" and isinstance(expr.func.value, ast.Name) and expr.func.value.id == self.has_kwargs:
                    return "raw"
            # a call this lifter does not know: whatever labels its receiver / arguments carry may come out of it
            parts = ([expr.func.value] if isinstance(expr.func, ast.Attribute) and not
                     (isinstance(expr.func.value, ast.Name) and expr.func.value.id == "self") else []) + list(expr.args) + \
                [k.value for k in expr.keywords]
            cls = self.join([self.classify(a, at, seen) for a in parts])
            if cls == "raw":
                return "raw"
            raise U(f"{self.where}: call of unknown shape reaches a label-aligning operation: {ast.unparse(expr)}")
        if isinstance(expr, ast.Compare):
            return self.join([self.classify(e, at, seen) for e in [expr.left] + expr.comparators
                              if not isinstance(e, ast.Constant)])
        if isinstance(expr, (ast.ListComp, ast.List)):
            return "listOf"
        if isinstance(expr, ast.Constant):
            return "none"
        if isinstance(expr, ast.Attribute):
            if expr.attr == "values":
                return "values"
            return self.classify(expr.value, at, seen)           # sf.raw_feature_ -> class of sf
        if isinstance(expr, ast.Subscript):
            return self.classify(expr.value, at, seen)
        if isinstance(expr, ast.Name):
            nm = expr.id
            if (nm, id(at)) in seen:
                return "none"
            g = self.guards(at).get(nm)
            if g and g <= {"list", "np.ndarray", "tuple"}:
                return "kind"
            vals, definitive = self.reaching(nm, at)
            cls = ["fresh" if v == "FRESH" else self.classify(v, st, seen + ((nm, id(at)),)) for v, st in vals]
            if not definitive:
                if nm in self.loops:
                    cls.append(self.classify(self.loops[nm], at, seen + ((nm, id(at)),)))
                elif nm in self.params or nm == self.has_kwargs:
                    cls.append("raw")
                elif not vals:
                    raise U(f"{self.where}: name `{nm}` of unknown origin reaches a label-aligning operation")
            return self.join(cls)
        raise U(f"{self.where}: expression of unknown shape reaches a label-aligning operation: {ast.unparse(expr)}")

    @staticmethod
    def join(classes):
        classes = [c for c in classes if c != "none"]
        if not classes:
            return "none"
        if "raw" in classes:
            return "raw"
        return classes[0] if len(set(classes)) == 1 else sorted(set(classes))[0]

    # ---------------------------------------------------------------- origin (which parameter does it come from)
    def origin(self, expr, seen=()):
        out = set()
        for n in ast.walk(expr):
            if isinstance(n, ast.Name) and n.id not in seen:
                nm = n.id
                if nm in self.params:
                    out.add(nm)
                if nm in self.loops:
                    out |= self.origin(self.loops[nm], seen + (nm,))
                for v in self.assigns.get(nm, []):
                    out |= self.origin(v, seen + (nm,))
            if isinstance(n, ast.Call) and isinstance(n.func, ast.Attribute) and n.func.attr == "get" \
                    and isinstance(n.func.value, ast.Name) and n.func.value.id == self.has_kwargs and n.args:
                out.add(ast.unparse(n.args[0]))
        return out


# ------------------------------------------------------------------------------------------------ sink finders
def frame_names_of(F):
    """local names bound to a pandas frame: assigned from pd.DataFrame(..)/pd.DataFrame.from_dict(..), or parameters
    annotated `pd.DataFrame`"""
    names = set()
    for nm, vals in F.assigns.items():
        if any(isinstance(v, ast.Call) and call_name(v) in ("pd.DataFrame", "pd.DataFrame.from_dict") for v in vals):
            names.add(nm)
    a = F.fn.args
    for x in a.posonlyargs + a.args + a.kwonlyargs:
        if x.annotation is not None and "DataFrame" in ast.unparse(x.annotation):
            names.add(x.arg)
    return names


def sinks_frame_columns(F, frame_names=None):
    """`<frame>[k] = e` and dict literals handed to pd.DataFrame(..)/from_dict(..)"""
    if frame_names is None:
        frame_names = frame_names_of(F)
    out = []
    for node in ast.walk(F.fn):
        if isinstance(node, ast.Assign) and len(node.targets) == 1 and isinstance(node.targets[0], ast.Subscript) \
                and isinstance(node.targets[0].value, ast.Name) and node.targets[0].value.id in frame_names:
            out.append((node, node.value, ast.unparse(node.targets[0])))
        if isinstance(node, ast.Call) and call_name(node) in ("pd.DataFrame", "pd.DataFrame.from_dict") and node.args \
                and isinstance(node.args[0], ast.Dict):
            for k, v in zip(node.args[0].keys, node.args[0].values):
                out.append((node, v, f"{call_name(node)}({{{ast.unparse(k)}: ..}})"))
    return out


def sinks_constructors(F):
    """`pd.Series(e)` / `pd.DataFrame(e)` without index= whose argument is not a literal"""
    out = []
    for node in ast.walk(F.fn):
        if isinstance(node, ast.Call) and call_name(node) in ("pd.Series", "pd.DataFrame") and node.args \
                and not isinstance(node.args[0], (ast.Dict, ast.Constant)) and not any(k.arg == "index" for k in node.keywords):
            out.append((node, node.args[0], f"{call_name(node)}({ast.unparse(node.args[0])})"))
    return out


def sinks_super_load_data(F):
    out = []
    for node in ast.walk(F.fn):
        if isinstance(node, ast.Call) and call_name(node) == "super().load_data":
            for i, a in enumerate(node.args[1:], 1):          # args[0] is X (handed to the estimator untouched)
                out.append((node, a, f"super().load_data(arg {i})"))
            for k in node.keywords:
                if k.arg != "utilities":
                    out.append((node, k.value, f"super().load_data({k.arg}=..)"))
    if not out:
        raise U(f"{F.where}: no super().load_data(..) call")
    return out


def sinks_predictor_output(F):
    """`gamma(self, predictor)`: every statement that stores what `predictor(self.X)` returned"""
    cb = F.params[0]
    out = []
    for node in ast.walk(F.fn):
        if isinstance(node, ast.Assign) and any(isinstance(n, ast.Call) and isinstance(n.func, ast.Name) and n.func.id == cb
                                                for n in ast.walk(node.value)):
            out.append((node, node.value, f"{ast.unparse(node.targets[0])} = ..{cb}(self.X).."))
    if not out:
        raise U(f"{F.where}: no statement stores the output of `{cb}(..)`")
    return out


def sinks_appended(F):
    """AnnotatedMetricFunction.__call__: what is handed to the metric function"""
    out = []
    for node in ast.walk(F.fn):
        if isinstance(node, ast.Call) and isinstance(node.func, ast.Attribute) and node.func.attr == "append" and node.args:
            out.append((node, node.args[0], f"{ast.unparse(node.func.value)}.append(..)"))
        if isinstance(node, ast.Assign) and isinstance(node.targets[0], ast.Subscript) \
                and ast.unparse(node.targets[0].value) == "kwargs":
            out.append((node, node.value, "kwargs[..] = .."))
    return out


MF = "fairlearn/metrics/_metric_frame.py"
AMF = "fairlearn/metrics/_annotated_metric_function.py"
IV = "fairlearn/utils/_input_validation.py"
TO = "fairlearn/postprocessing/_threshold_optimizer.py"
IT = "fairlearn/postprocessing/_interpolated_thresholder.py"
UP = "fairlearn/reductions/_moments/utility_parity.py"
ER = "fairlearn/reductions/_moments/error_rate.py"
BGL = "fairlearn/reductions/_moments/bounded_group_loss.py"

# (entry label, file, function, sink finder)
SITES = [
    ("MetricFrame.__init__", MF, "MetricFrame.__init__", sinks_frame_columns),
    ("MetricFrame.sample_params", MF, "MetricFrame._construct_annotated_metric_function", sinks_frame_columns),
    ("AnnotatedMetricFunction.__call__", AMF, "AnnotatedMetricFunction.__call__", sinks_appended),
    ("_validate_and_reformat_input", IV, "_validate_and_reformat_input", sinks_constructors),
    ("ThresholdOptimizer._reformat_data_into_dict", TO, "_reformat_data_into_dict",
     lambda F: sinks_frame_columns(F, {F.params[1]})),          # (key, data_dict, additional_data): the dict by position
    ("DemographicParity.load_data", UP, "DemographicParity.load_data", sinks_super_load_data),
    ("TruePositiveRateParity.load_data", UP, "TruePositiveRateParity.load_data", sinks_super_load_data),
    ("FalsePositiveRateParity.load_data", UP, "FalsePositiveRateParity.load_data", sinks_super_load_data),
    ("EqualizedOdds.load_data", UP, "EqualizedOdds.load_data", sinks_super_load_data),
    ("ErrorRateParity.load_data", UP, "ErrorRateParity.load_data", sinks_super_load_data),
    ("ErrorRate.load_data", ER, "ErrorRate.load_data", sinks_super_load_data),
    ("BoundedGroupLoss.load_data", BGL, "ConditionalLossMoment.load_data", sinks_super_load_data),
    ("UtilityParity.gamma", UP, "UtilityParity.gamma", sinks_predictor_output),
    ("ErrorRate.gamma", ER, "ErrorRate.gamma", sinks_predictor_output),
    ("BoundedGroupLoss.gamma", BGL, "ConditionalLossMoment.gamma", sinks_predictor_output),
]


def lean_str(s):
    return '"' + s.replace("\\", "\\\\").replace('"', '\\"') + '"'


def check_expect_y(repo):
    """every call of _validate_and_reformat_input in fairlearn leaves expect_y at its default True or passes True"""
    root = os.path.join(repo, "fairlearn")
    for d, _, files in os.walk(root):
        for fn in files:
            if not fn.endswith(".py"):
                continue
            path = os.path.join(d, fn)
            with open(path) as f:
                src = f.read()
            if "_validate_and_reformat_input" not in src:
                continue
            for node in ast.walk(ast.parse(src)):
                if isinstance(node, ast.Call) and call_name(node) == "_validate_and_reformat_input":
                    for k in node.keywords:
                        if k.arg == "expect_y" and ast.unparse(k.value) != "True":
                            raise U(f"{os.path.relpath(path, repo)}: _validate_and_reformat_input(.., expect_y={ast.unparse(k.value)}): "
                                    "y would reach pd.Series(y) without a conversion")
                        if k.arg is None:
                            raise U(f"{os.path.relpath(path, repo)}: _validate_and_reformat_input called with **kwargs of unknown content")
                    if len(node.args) > 2:
                        raise U(f"{os.path.relpath(path, repo)}: _validate_and_reformat_input called with positional expect_y")
    iv = ast.parse(translate._read(repo, IV))
    f = find_func(iv, "_validate_and_reformat_input")
    dflt = dict(zip([a.arg for a in f.args.args][-len(f.args.defaults):], f.args.defaults))
    if "expect_y" not in dflt or ast.unparse(dflt["expect_y"]) != "True":
        raise U(f"{IV}: default of expect_y is no longer True")


def module_consts(tree):
    out = {}
    for n in tree.body:
        if isinstance(n, ast.Assign) and len(n.targets) == 1 and isinstance(n.targets[0], ast.Name) \
                and isinstance(n.value, ast.Constant) and isinstance(n.value.value, str):
            out[n.targets[0].id] = n.value.value
    return out


MO = "fairlearn/reductions/_moments/moment.py"
# the `load_data` methods that `super().load_data(..)` of the public moments resolves to:
# (entry label, file, function, [(caller entry label, file, caller function)], class of the function, expected base classes)
INNER_LOAD_DATA = [
    ("UtilityParity.load_data", UP, "UtilityParity.load_data",
     [(c + ".load_data", UP, c + ".load_data") for c in
      ("DemographicParity", "TruePositiveRateParity", "FalsePositiveRateParity", "EqualizedOdds", "ErrorRateParity")]),
    ("Moment.load_data", MO, "Moment.load_data",
     [("UtilityParity.load_data", UP, "UtilityParity.load_data"), ("ErrorRate.load_data", ER, "ErrorRate.load_data"),
      ("BoundedGroupLoss.load_data", BGL, "ConditionalLossMoment.load_data")]),
]
# class -> the class whose load_data its `super().load_data` reaches (checked against the `class X(Base)` headers)
SUPER_OF = {"DemographicParity": "UtilityParity", "TruePositiveRateParity": "UtilityParity", "FalsePositiveRateParity": "UtilityParity",
            "EqualizedOdds": "UtilityParity", "ErrorRateParity": "UtilityParity", "UtilityParity": "ClassificationMoment",
            "ErrorRate": "ClassificationMoment", "ConditionalLossMoment": "LossMoment", "ClassificationMoment": "Moment",
            "LossMoment": "Moment"}


def sinks_tags(F):
    """the sinks inside a `load_data`: `self.tags[k] = e` and the dict handed to `pd.DataFrame({..})`"""
    out = []
    for node in ast.walk(F.fn):
        if isinstance(node, ast.Assign) and len(node.targets) == 1 and isinstance(node.targets[0], ast.Subscript) \
                and ast.unparse(node.targets[0].value) == "self.tags":
            out.append((node, node.value, ast.unparse(node.targets[0])))
        if isinstance(node, ast.Call) and call_name(node) in ("pd.DataFrame", "pd.DataFrame.from_dict") and node.args \
                and isinstance(node.args[0], ast.Dict):
            for k, v in zip(node.args[0].keys, node.args[0].values):
                out.append((node, v, f"{call_name(node)}({{{ast.unparse(k)}: ..}})"))
        if isinstance(node, ast.Call) and call_name(node) in ("pd.DataFrame", "pd.Series", "pd.concat") and node.args \
                and not isinstance(node.args[0], (ast.Dict, ast.Constant)) and any(
                    isinstance(n, ast.Name) and n.id in F.params for n in ast.walk(node.args[0])):
            out.append((node, node.args[0], f"{call_name(node)}({ast.unparse(node.args[0])[:40]})"))
    return out


def inner_load_data_rows(repo, trees, rows):
    """Rows for the sinks INSIDE `UtilityParity.load_data` / `Moment.load_data` (where y, the sensitive features and the event
    are put into `self.tags`).  A bare parameter stored there is as label-free as what every caller passes: its class is the
    join of the classes of the corresponding argument at every `super().load_data(..)` call that reaches the function (the
    rows of the public moments above; for `Moment.load_data` also the call in `UtilityParity.load_data`, whose arguments are
    that function's own parameters).  The class hierarchy that decides which function `super()` reaches is checked."""
    for rel in (UP, ER, BGL, MO):
        if rel not in trees:
            trees[rel] = ast.parse(translate._read(repo, rel))
    # hierarchy: every class of the three moment files that defines load_data is known, with the expected base
    defs = {}
    for rel in (UP, ER, BGL, MO):
        for n in trees[rel].body:
            if isinstance(n, ast.ClassDef):
                defs[n.name] = (rel, [ast.unparse(b) for b in n.bases], any(isinstance(f, ast.FunctionDef) and f.name == "load_data" for f in n.body))
    for cls, (rel, bases, has) in defs.items():
        if cls == "Moment":
            continue
        if has and cls not in SUPER_OF:
            raise U(f"{rel}: class {cls} defines load_data but is not in the site table")
        if cls in SUPER_OF and bases != [SUPER_OF[cls]]:
            raise U(f"{rel}: class {cls} has bases {bases}, expected [{SUPER_OF[cls]}]")
    for mid in ("ClassificationMoment", "LossMoment"):
        if mid not in defs or defs[mid][2]:
            raise U(f"{MO}: {mid} is missing or defines its own load_data")
    out = []
    param_class = {}          # entry -> {parameter: class}
    for entry, rel, qual, callers in INNER_LOAD_DATA:
        F = Fn(find_func(trees[rel], qual), f"{rel}:{qual}")
        pc = {}
        for centry, crel, cqual in callers:
            CF = Fn(find_func(trees[crel], cqual), f"{crel}:{cqual}")
            calls = [n for n in ast.walk(CF.fn) if isinstance(n, ast.Call) and call_name(n) == "super().load_data"]
            if len(calls) != 1:
                raise U(f"{crel}:{cqual}: expected exactly one super().load_data(..) call")
            c = calls[0]
            bound = dict(zip(F.params, c.args))
            for k in c.keywords:
                if k.arg is None or k.arg in bound or k.arg not in F.params:
                    raise U(f"{crel}:{cqual}: cannot bind {ast.unparse(c)} to the parameters {F.params}")
                bound[k.arg] = k.value
            for prm, a in bound.items():
                if isinstance(a, ast.Name) and a.id in CF.params and centry in param_class and not CF.assigns.get(a.id):
                    cl = param_class[centry].get(a.id, "raw")     # the caller's own (never re-assigned) parameter
                else:
                    cl = CF.classify(a, c)
                pc.setdefault(prm, []).append(cl)
        param_class[entry] = {prm: Fn.join(cls) for prm, cls in pc.items()}
        sinks = sinks_tags(F)
        if not sinks:
            raise U(f"{rel}:{qual}: no `self.tags` sink found (the function changed shape)")
        for at, expr, what in sinks:
            if isinstance(expr, ast.Name) and expr.id in F.params and not F.assigns.get(expr.id):
                cl = param_class[entry].get(expr.id)
                if cl is None or cl == "none":
                    cl = "raw" if cl is None else "none"
            else:
                cl = F.classify(expr, at)
            if cl == "none":
                continue
            org = sorted(F.origin(expr)) or ["?"]
            out.append({"entry": entry, "arg": "+".join(org), "sink": what, "expr": ast.unparse(expr), "conv": cl})
    return out


def analyse(repo):
    rows = []
    trees = {}
    check_expect_y(repo)
    for entry, rel, qual, finder in SITES:
        if rel not in trees:
            trees[rel] = ast.parse(translate._read(repo, rel))
        consts = module_consts(trees[rel])
        F = Fn(find_func(trees[rel], qual), f"{rel}:{qual}", assume_true=("expect_y",) if rel == IV else ())
        sinks = finder(F)
        if not sinks:
            raise U(f"{rel}:{qual}: no label-aligning operation found (the function changed shape)")
        for at, expr, what in sinks:
            cls = F.classify(expr, at)
            if cls == "none":
                continue
            g = F.guards(at)
            org = sorted(consts.get(o, o) for o in F.origin(expr)) or ["?"]
            gtxt = ",".join(f"{k}:{'|'.join(sorted(v))}" for k, v in sorted(g.items()) if k in org)
            if entry.endswith(".load_data") and org == ["?"]:
                org = [what.split("(")[-1].rstrip(".=)") .replace("arg 1", "y")]
            rows.append({"entry": entry, "arg": "+".join(org) + (f" [{gtxt}]" if gtxt else ""), "sink": what,
                         "expr": ast.unparse(expr).replace(".to_numpy()", ".values"), "conv": cls})   # one spelling in the emitted comment
    rows += inner_load_data_rows(repo, trees, rows)
    # structural facts that make the classification meaningful
    t = trees[TO]
    rg = find_func(t, "_reformat_and_group_data")
    txt = ast.unparse(rg)
    calls = [n for n in ast.walk(rg) if isinstance(n, ast.Call) and call_name(n) == "_reformat_data_into_dict"]
    dn = {ast.unparse(c.args[1]) for c in calls if len(c.args) == 3}
    if len(calls) != 3 or len(dn) != 1 or f"pd.DataFrame({list(dn)[0]})" not in txt or f"{list(dn)[0]} = {{}}" not in txt:
        raise U(f"{TO}:_reformat_and_group_data no longer builds pd.DataFrame(<dict>) from three _reformat_data_into_dict calls")
    it = ast.parse(translate._read(repo, IT))
    pm = Fn(find_func(it, "InterpolatedThresholder._pmf_predict"), f"{IT}:_pmf_predict")
    for nm in ("base_predictions_vector", "sensitive_feature_vector"):
        if nm not in pm.fresh:
            raise U(f"{IT}:_pmf_predict: `{nm}` is no longer an output of _validate_and_reformat_input")
        rows.append({"entry": "InterpolatedThresholder._pmf_predict", "arg": nm, "sink": "boolean mask / arithmetic",
                     "expr": nm, "conv": "fresh"})
    mc = find_func(trees[IV], "_merge_columns")
    rets = [n for n in ast.walk(mc) if isinstance(n, ast.Return) and n.value is not None and n in mc.body]
    rv = rets[0].value if len(rets) == 1 else None
    if isinstance(rv, ast.Name):        # `merged = np.array(..); return merged`: a local bound exactly once is its value
        binds = [n for n in ast.walk(mc) if isinstance(n, ast.Name) and isinstance(n.ctx, ast.Store) and n.id == rv.id]
        asg = [n for n in mc.body if isinstance(n, ast.Assign) and len(n.targets) == 1 and isinstance(n.targets[0], ast.Name)
               and n.targets[0].id == rv.id]
        if len(binds) == 1 and len(asg) == 1:
            rv = asg[0].value
    if len(rets) != 1 or not (isinstance(rv, ast.Call) and call_name(rv) == "np.array"):
        raise U(f"{IV}:_merge_columns no longer returns np.array(..)")
    mo = ast.parse(translate._read(repo, "fairlearn/reductions/_moments/moment.py"))
    ml = ast.unparse(find_func(mo, "Moment.load_data"))
    if "self.tags = pd.DataFrame({_LABEL: y})" not in ml or "self.tags[_GROUP_ID] = sensitive_features" not in ml:
        raise U("moment.py: Moment.load_data no longer builds `tags` from y and sensitive_features")
    return rows


@translate.lifter
def lift_containers(repo):
    rows = analyse(repo)
    out = ["/-", "GENERATED by harness/lifters/containers.py -- do not edit.",
           "For every user-supplied argument of the entry points C12 is anchored in: the conversion through which it",
           "passes before it reaches a pandas operation that aligns on index labels (see the lifter for the classes).",
           "A parameter that is re-assigned (e.g. `y = np.asarray(y)` under `if expect_y:`) is judged by its assignments.",
           "-/", "namespace ContainerSites", "",
           "inductive Conv where",
           "  | asarray | values | listOf | resetIndex | fresh | kind | raw",
           "deriving Repr, DecidableEq", "",
           "structure Site where",
           "  entry : String", "  arg : String", "  sink : String", "  conv : Conv", "deriving Repr", "",
           "def sites : List Site := ["]
    for i, r in enumerate(rows):
        out.append(f"  ⟨{lean_str(r['entry'])}, {lean_str(r['arg'])}, {lean_str(r['sink'])}, .{r['conv']}⟩"
                   + ("," if i + 1 < len(rows) else "") + f"  -- {r['expr'][:80]}")
    out += ["]", "", "end ContainerSites", ""]
    meta = {"sites": [[r["entry"], r["arg"], r["sink"], r["conv"]] for r in rows],
            "raw": [[r["entry"], r["arg"], r["expr"]] for r in rows if r["conv"] == "raw"],
            "source": os.path.join(repo, "fairlearn")}
    return "ContainerSites.lean", "\n".join(out), meta
