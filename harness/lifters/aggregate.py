"""Lifter for fairlearn/metrics/_disaggregated_result.py -> Generated/AggregateSpec.lean

Lifts (from the Python ast, refusing anything of an unknown shape):
  * the nested function `ratio_sub_one` of `DisaggregatedResult.ratio` (an if/else over a comparison
    with arithmetic on its argument) as `AggregateSpec.ratioSubOne : XR -> XR`;
  * which pandas grouping function each aggregate is built from:
      difference(between_groups): subtrahend = apply_grouping(<"min">), result = (mf - subtrahend).abs().<max>()
      ratio(between_groups):      apply_grouping(<"min">) / apply_grouping(<"max">)
      ratio(to_overall):          (by_group / overall).apply(transform(ratio_sub_one)).<min>()
The Lean model (`Model/Aggregate.lean`) is written in terms of these generated definitions, and the C02
theorems are proved about them: a source change re-checks (or breaks) the proofs."""
import ast
import os

from .. import translate

REL = "fairlearn/metrics/_disaggregated_result.py"


def U(msg):
    return translate.Untranslatable(f"{REL}: {msg}")


def expr(e, arg):
    """arithmetic on the argument -> Lean term of type XR"""
    if isinstance(e, ast.Name) and e.id == arg:
        return arg
    if isinstance(e, ast.Constant) and isinstance(e.value, int) and not isinstance(e.value, bool):
        return f"(XR.fin {e.value})" if e.value >= 0 else f"(XR.fin ({e.value}))"
    if isinstance(e, ast.UnaryOp) and isinstance(e.op, ast.USub):
        return f"(XR.neg {expr(e.operand, arg)})"
    if isinstance(e, ast.BinOp):
        op = {ast.Div: "XR.div", ast.Add: "XR.add", ast.Sub: "XR.sub"}.get(type(e.op))
        if op is None:
            raise U(f"ratio_sub_one: unsupported operator {ast.dump(e.op)}")
        return f"({op} {expr(e.left, arg)} {expr(e.right, arg)})"
    raise U(f"ratio_sub_one: unsupported expression {ast.dump(e)}")


def cond(t, arg):
    if not (isinstance(t, ast.Compare) and len(t.ops) == 1 and len(t.comparators) == 1):
        raise U("ratio_sub_one: test is not a single comparison")
    a, b = expr(t.left, arg), expr(t.comparators[0], arg)
    op = t.ops[0]
    if isinstance(op, ast.Gt):
        return f"XR.lt {b} {a}"
    if isinstance(op, ast.Lt):
        return f"XR.lt {a} {b}"
    if isinstance(op, ast.GtE):
        return f"XR.le {b} {a}"
    if isinstance(op, ast.LtE):
        return f"XR.le {a} {b}"
    raise U("ratio_sub_one: unsupported comparison")


def lift_sub_one(fn):
    if len(fn.args.args) != 1 or fn.args.kwonlyargs or fn.args.vararg or fn.args.kwarg:
        raise U("ratio_sub_one must take exactly one argument")
    arg = fn.args.args[0].arg
    body = [s for s in fn.body if not (isinstance(s, ast.Expr) and isinstance(s.value, ast.Constant))]
    if len(body) != 1 or not isinstance(body[0], ast.If):
        raise U("ratio_sub_one body is not a single if/else")
    node = body[0]
    if not (len(node.body) == 1 and isinstance(node.body[0], ast.Return) and len(node.orelse) == 1
            and isinstance(node.orelse[0], ast.Return)):
        raise U("ratio_sub_one branches are not plain returns")
    return (f"def ratioSubOne ({arg} : XR) : XR :=\n  if {cond(node.test, arg)} then {expr(node.body[0].value, arg)} "
            f"else {expr(node.orelse[0].value, arg)}")


def grouping_const(call):
    """self.apply_grouping("min"|"max", ...) -> 'min'|'max'"""
    if not (isinstance(call, ast.Call) and isinstance(call.func, ast.Attribute) and call.func.attr == "apply_grouping"
            and call.args and isinstance(call.args[0], ast.Constant) and call.args[0].value in ("min", "max")):
        raise U("expected self.apply_grouping('min'|'max', ...)")
    return call.args[0].value


def method_branches(fn, what):
    """the `if method == "between_groups": ... elif method == "to_overall": ... else: raise` statement"""
    for s in fn.body:
        if isinstance(s, ast.If) and isinstance(s.test, ast.Compare) and isinstance(s.test.left, ast.Name) \
                and s.test.left.id == "method" and isinstance(s.test.comparators[0], ast.Constant) \
                and s.test.comparators[0].value == "between_groups" and isinstance(s.test.ops[0], ast.Eq):
            if not (len(s.orelse) == 1 and isinstance(s.orelse[0], ast.If)):
                raise U(f"{what}: no elif for to_overall")
            e = s.orelse[0]
            if not (isinstance(e.test, ast.Compare) and isinstance(e.test.comparators[0], ast.Constant)
                    and e.test.comparators[0].value == "to_overall"):
                raise U(f"{what}: second branch is not to_overall")
            return s.body, e.body
    raise U(f"{what}: method dispatch not found")


def final_agg(value, inner_attr):
    """<X>.<inner_attr>()[.groupby(...)].<agg>()  -> agg ; X is returned too"""
    if not (isinstance(value, ast.Call) and isinstance(value.func, ast.Attribute) and value.func.attr in ("min", "max")):
        raise U("aggregation is not .min()/.max()")
    agg = value.func.attr
    inner = value.func.value
    if isinstance(inner, ast.Call) and isinstance(inner.func, ast.Attribute) and inner.func.attr == "groupby":
        inner = inner.func.value
    if inner_attr is None:
        return agg, inner
    if not (isinstance(inner, ast.Call) and isinstance(inner.func, ast.Attribute) and inner.func.attr == inner_attr):
        raise U(f"expected .{inner_attr}() before the aggregation")
    return agg, inner.func.value


@translate.lifter
def lift(repo):
    src = open(os.path.join(repo, REL)).read()
    tree = ast.parse(src)
    cls = next((n for n in tree.body if isinstance(n, ast.ClassDef) and n.name == "DisaggregatedResult"), None)
    if cls is None:
        raise U("class DisaggregatedResult not found")
    meth = {n.name: n for n in cls.body if isinstance(n, ast.FunctionDef)}
    if "difference" not in meth or "ratio" not in meth:
        raise U("difference/ratio not found")
    # ---- ratio
    ratio = meth["ratio"]
    sub = next((n for n in ratio.body if isinstance(n, ast.FunctionDef) and n.name == "ratio_sub_one"), None)
    if sub is None:
        raise U("nested function ratio_sub_one not found")
    sub_one = lift_sub_one(sub)
    rb, ro = method_branches(ratio, "ratio")
    if not (len(rb) == 1 and isinstance(rb[0], ast.Assign) and isinstance(rb[0].value, ast.BinOp)
            and isinstance(rb[0].value.op, ast.Div)):
        raise U("ratio(between_groups) is not a single quotient")
    num, den = grouping_const(rb[0].value.left), grouping_const(rb[0].value.right)
    # to_overall: ratios = by_group / overall (both branches), transform(ratio_sub_one), result = ratios.min()...
    quots, aggs, transformed = 0, set(), False
    for n in ast.walk(ast.Module(body=ro, type_ignores=[])):
        if isinstance(n, ast.Assign) and isinstance(n.value, ast.BinOp) and isinstance(n.value.op, ast.Div):
            l, r = ast.unparse(n.value.left), ast.unparse(n.value.right)
            if not (l.startswith("self.by_group") and r.startswith("self.overall")):
                raise U(f"ratio(to_overall): quotient is {l} / {r}")
            quots += 1
        if isinstance(n, ast.Call) and isinstance(n.func, ast.Attribute) and n.func.attr == "transform":
            if not (n.args and isinstance(n.args[0], ast.Name) and n.args[0].id == "ratio_sub_one"):
                raise U("ratio(to_overall): transform is not ratio_sub_one")
            transformed = True
        if isinstance(n, ast.Assign) and isinstance(n.targets[0], ast.Name) and n.targets[0].id == "result":
            v = n.value
            if isinstance(v, ast.Call) and isinstance(v.func, ast.Attribute) and v.func.attr == "unstack":
                v = v.func.value
            a, inner = final_agg(v, None)
            if not (isinstance(inner, ast.Name) and inner.id == "ratios"):
                raise U("ratio(to_overall): aggregation is not over `ratios`")
            aggs.add(a)
    if quots == 0 or not transformed or len(aggs) != 1:
        raise U(f"ratio(to_overall): unexpected shape (quotients={quots}, transform={transformed}, aggs={aggs})")
    ratio_agg = aggs.pop()
    # ---- difference
    diff = meth["difference"]
    db, do = method_branches(diff, "difference")
    if not (len(db) == 1 and isinstance(db[0], ast.Assign) and db[0].targets[0].id == "subtrahend"):
        raise U("difference(between_groups): subtrahend assignment not found")
    dsub = grouping_const(db[0].value)
    if not (len(do) == 1 and isinstance(do[0], ast.Assign) and ast.unparse(do[0].value) == "self.overall"):
        raise U("difference(to_overall): subtrahend is not self.overall")
    daggs = set()
    for n in ast.walk(diff):
        if isinstance(n, ast.Assign) and isinstance(n.targets[0], ast.Name) and n.targets[0].id == "result":
            a, inner = final_agg(n.value, "abs")
            if ast.unparse(inner) != "mf - subtrahend":
                raise U(f"difference: expected (mf - subtrahend).abs(), found {ast.unparse(inner)}")
            daggs.add(a)
    if len(daggs) != 1:
        raise U(f"difference: aggregations {daggs}")
    dagg = daggs.pop()
    lean = f"""-- GENERATED by harness/lifters/aggregate.py from {REL}; do not edit.
import FairModel.Model.XRArith

namespace AggregateSpec

/-- `ratio_sub_one` (nested in `DisaggregatedResult.ratio`) -/
{sub_one}

/-- difference(between_groups): `subtrahend = self.apply_grouping("{dsub}", ...)` -/
def diffBetweenSubtrahend : Grouping := .{dsub}
/-- difference: `(mf - subtrahend).abs()[.groupby(...)].{dagg}()` -/
def diffAgg : Grouping := .{dagg}
/-- ratio(between_groups): `apply_grouping("{num}") / apply_grouping("{den}")` -/
def ratioBetweenNum : Grouping := .{num}
def ratioBetweenDen : Grouping := .{den}
/-- ratio(to_overall): `ratios.{ratio_agg}()` -/
def ratioOverallAgg : Grouping := .{ratio_agg}

end AggregateSpec
"""
    meta = {"source": REL, "ratio_sub_one": " ".join(sub_one.split()), "difference": [dsub, dagg],
            "ratio_between": [num, den], "ratio_overall": ratio_agg}
    return "AggregateSpec.lean", lean, meta
