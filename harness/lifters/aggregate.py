"""Lifter for fairlearn/metrics/_disaggregated_result.py -> Generated/AggregateSpec.lean

Lifts (from the Python ast, refusing anything of an unknown shape):
  * the nested function `ratio_sub_one` of `DisaggregatedResult.ratio` (an if/else over a comparison
    with arithmetic on its argument) as `AggregateSpec.ratioSubOne : XR -> XR`;
  * which pandas grouping function each aggregate is built from:
      difference(between_groups): subtrahend = apply_grouping(<"min">), result = (mf - subtrahend).abs().<max>()
      ratio(between_groups):      apply_grouping(<"min">) / apply_grouping(<"max">)
      ratio(to_overall):          (by_group / overall).apply(transform(ratio_sub_one)).<min>()
(read off the symbolically executed method bodies of lifters/aggregate_gen.py, so that renaming a local
variable or reordering independent statements changes nothing).
The Lean model (`Model/Aggregate.lean`) is written in terms of these generated definitions, and the C02
theorems are proved about them: a source change re-checks (or breaks) the proofs."""
import ast
import os

from .. import translate
from . import normalize

REL = "fairlearn/metrics/_disaggregated_result.py"


def U(msg):
    return translate.Untranslatable(f"{REL}: {msg}")


ARG = "x"       # the bound variable of the emitted `ratioSubOne` (the Python argument may have any name)


def expr(e, arg):
    """arithmetic on the argument -> Lean term of type XR"""
    if isinstance(e, ast.Name) and e.id == arg:
        return ARG
    if isinstance(e, ast.Constant) and isinstance(e.value, float) and e.value == int(e.value):
        e = ast.Constant(int(e.value))         # `1.0 / x` is `1 / x` (true division)
    if isinstance(e, ast.Constant) and isinstance(e.value, int) and not isinstance(e.value, bool):
        return f"(XR.fin {e.value})" if e.value >= 0 else f"(XR.fin ({e.value}))"
    if isinstance(e, ast.UnaryOp) and isinstance(e.op, ast.USub):
        return f"(XR.neg {expr(e.operand, arg)})"
    if isinstance(e, ast.BinOp):
        op = {ast.Div: "XR.div", ast.Add: "XR.add", ast.Sub: "XR.sub"}.get(type(e.op))
        if op is None:
            raise U(f"ratio_sub_one: unsupported operator {ast.dump(e.op)}")
        return f"({op} {expr(e.left, arg)} {expr(e.right, arg)})"
    raise U(f"ratio_sub_one: unsupported expression {ast.dump(e)}")


def cond(t, arg):
    if not (isinstance(t, ast.Compare) and len(t.ops) == 1 and len(t.comparators) == 1):
        raise U("ratio_sub_one: test is not a single comparison")
    a, b = expr(t.left, arg), expr(t.comparators[0], arg)
    op = t.ops[0]
    if isinstance(op, ast.Gt):
        return f"XR.lt {b} {a}"
    if isinstance(op, ast.Lt):
        return f"XR.lt {a} {b}"
    if isinstance(op, ast.GtE):
        return f"XR.le {b} {a}"
    if isinstance(op, ast.LtE):
        return f"XR.le {a} {b}"
    raise U("ratio_sub_one: unsupported comparison")


def lift_sub_one(fn):
    if len(fn.args.args) != 1 or fn.args.kwonlyargs or fn.args.vararg or fn.args.kwarg:
        raise U("ratio_sub_one must take exactly one argument")
    arg = fn.args.args[0].arg
    fn = normalize.inline_new_temporaries(fn, [])          # `t = e; return t`  ->  `return e`
    body = [s for s in fn.body if not (isinstance(s, ast.Expr) and isinstance(s.value, ast.Constant))]
    # three spellings of one definition:  if c: return a  else: return b  |  if c: return a ; return b  |  return a if c else b
    if len(body) == 2 and isinstance(body[0], ast.If) and not body[0].orelse and isinstance(body[1], ast.Return):
        body = [ast.If(test=body[0].test, body=body[0].body, orelse=[body[1]])]
    if len(body) == 1 and isinstance(body[0], ast.Return) and isinstance(body[0].value, ast.IfExp):
        v = body[0].value
        body = [ast.If(test=v.test, body=[ast.Return(value=v.body)], orelse=[ast.Return(value=v.orelse)])]
    if len(body) != 1 or not isinstance(body[0], ast.If):
        raise U("ratio_sub_one body is not a single if/else")
    node = body[0]
    if not (len(node.body) == 1 and isinstance(node.body[0], ast.Return) and len(node.orelse) == 1
            and isinstance(node.orelse[0], ast.Return) and node.body[0].value is not None
            and node.orelse[0].value is not None):
        raise U("ratio_sub_one branches are not plain returns")
    return (f"def ratioSubOne ({ARG} : XR) : XR :=\n  if {cond(node.test, arg)} then {expr(node.body[0].value, arg)} "
            f"else {expr(node.orelse[0].value, arg)}")


def match(term, pattern, what):
    """match a lifted term (lifters/aggregate_gen.T) against a nested tuple pattern; '?x' captures"""
    cap = {}

    def go(t, p):
        if isinstance(p, str):
            if p.startswith("?"):
                if cap.setdefault(p[1:], t) != t:
                    raise U(f"{what}: inconsistent {p[1:]}")
                return
            if t != p:
                raise U(f"{what}: expected {p}, found {t if isinstance(t, str) else t.op}")
            return
        if isinstance(t, str) or t.op != p[0] or len(t.args) != len(p) - 1:
            raise U(f"{what}: expected {p[0]}(...), found {t if isinstance(t, str) else t.op}")
        for a, q in zip(t.args, p[1:]):
            go(a, q)
    go(term, pattern)
    return cap


@translate.lifter
def lift(repo):
    from . import aggregate_gen
    src = open(os.path.join(repo, REL)).read()
    tree = normalize.parse(src)
    cls = next((n for n in tree.body if isinstance(n, ast.ClassDef) and n.name == "DisaggregatedResult"), None)
    if cls is None:
        raise U("class DisaggregatedResult not found")
    meth = {n.name: n for n in cls.body if isinstance(n, ast.FunctionDef)}
    if "difference" not in meth or "ratio" not in meth:
        raise U("difference/ratio not found")
    # exactly one definition: nested in `ratio`, or hoisted to module level under the same name
    subs = [n for n in ast.walk(meth["ratio"]) if isinstance(n, ast.FunctionDef) and n.name == "ratio_sub_one"]
    top = [n for n in tree.body if isinstance(n, ast.FunctionDef) and n.name == "ratio_sub_one"]
    bound = sum(1 for n in ast.walk(tree) if isinstance(n, ast.Name) and n.id == "ratio_sub_one" and not isinstance(n.ctx, ast.Load))
    if len(subs) + len(top) != 1 or bound or (subs and subs[0] not in meth["ratio"].body):
        raise U(f"expected exactly one function ratio_sub_one (nested in ratio, or at module level), found {len(subs)} + {len(top)}")
    sub = (subs + top)[0]
    sub_one = lift_sub_one(sub)
    # The grouping constants are read off the symbolically executed method bodies (lifters/aggregate_gen.py: local
    # variable names and statement order do not matter), in both control-feature worlds, which must agree.
    terms = aggregate_gen.world_terms(repo)
    consts = {}
    for cf in (False, True):
        w = "with" if cf else "without"
        c = {}
        m = match(terms["difference", "between_groups", cf],
                  ("aggLevel", "?agg", ("map", "XR.abs", ("bcast", "XR.sub", ("coerced",), ("grouping", "?sub")))),
                  f"difference(between_groups, {w} control features): not (mf - apply_grouping(g)).abs()[.groupby(level=cf)].agg()")
        c["dsub"], c["dagg"] = m["sub"], m["agg"]
        m = match(terms["difference", "to_overall", cf],
                  ("aggLevel", "?agg", ("map", "XR.abs", ("bcast", "XR.sub", ("coerced",), ("overall",)))),
                  f"difference(to_overall, {w} control features): not (mf - self.overall).abs()[.groupby(level=cf)].agg()")
        if m["agg"] != c["dagg"]:
            raise U(f"difference: aggregations {sorted({m['agg'], c['dagg']})}")
        m = match(terms["ratio", "between_groups", cf],
                  ("same", "XR.div", ("grouping", "?num"), ("grouping", "?den")),
                  f"ratio(between_groups, {w} control features): not apply_grouping(g) / apply_grouping(g')")
        c["num"], c["den"] = m["num"], m["den"]
        m = match(terms["ratio", "to_overall", cf],
                  ("aggLevel", "?agg", ("map", "AggregateSpec.ratioSubOne", ("bcast", "XR.div", ("bygroup",), ("overall",)))),
                  f"ratio(to_overall, {w} control features): not (by_group / overall).apply(transform(ratio_sub_one)).agg()")
        c["ragg"] = m["agg"]
        consts[cf] = c
    if consts[False] != consts[True]:
        raise U(f"the aggregates differ with / without control features: {consts[False]} vs {consts[True]}")
    c = consts[True]
    for k, v in c.items():
        if v not in (".min", ".max"):
            raise U(f"{k}: grouping function {v}")
    dsub, dagg, num, den, ratio_agg = (c[k][1:] for k in ("dsub", "dagg", "num", "den", "ragg"))
    lean = f"""-- GENERATED by harness/lifters/aggregate.py from {REL}; do not edit.
import FairModel.Model.XRArith

namespace AggregateSpec

/-- `ratio_sub_one` (nested in `DisaggregatedResult.ratio`) -/
{sub_one}

/-- difference(between_groups): `subtrahend = self.apply_grouping("{dsub}", ...)` -/
def diffBetweenSubtrahend : Grouping := .{dsub}
/-- difference: `(mf - subtrahend).abs()[.groupby(...)].{dagg}()` -/
def diffAgg : Grouping := .{dagg}
/-- ratio(between_groups): `apply_grouping("{num}") / apply_grouping("{den}")` -/
def ratioBetweenNum : Grouping := .{num}
def ratioBetweenDen : Grouping := .{den}
/-- ratio(to_overall): `ratios.{ratio_agg}()` -/
def ratioOverallAgg : Grouping := .{ratio_agg}

end AggregateSpec
"""
    meta = {"source": REL, "ratio_sub_one": " ".join(sub_one.split()), "difference": [dsub, dagg],
            "ratio_between": [num, den], "ratio_overall": ratio_agg}
    return "AggregateSpec.lean", lean, meta
