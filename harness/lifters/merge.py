"""Lifter for C13: the separator and the escape replacements of
fairlearn/utils/_input_validation.py (`_MERGE_COLUMN_SEPARATOR`, `_merge_columns._join_names`).

Lifted shape (anything else is refused):

    _MERGE_COLUMN_SEPARATOR = "<one character>"
    def _merge_columns(feature_columns):
        ...
        def _join_names(names):
            return <SEP>.join([ name.replace(o1, n1).replace(o2, n2)...  for name in names ])
        return np.array([_join_names(row) for row in feature_columns.astype(str)])

The WHOLE body of `_merge_columns` is censused (`_census`): besides the inner `def _join_names` and the single final `return`
only `if not isinstance(<parameter>, T): raise ...` guards are accepted; a second `return` / `yield` at any depth (an early
exit that bypasses the escaping, seeded change C13a), any assignment, loop, `try`, `with`, a rebinding of the parameter, of
`_join_names` or (anywhere in the module) of `_MERGE_COLUMN_SEPARATOR`, or a second definition of `_merge_columns` is refused.

where every o_i is a one-character string and every n_i a string, each written as a string constant,
the name `_MERGE_COLUMN_SEPARATOR`, or an f-string of those.  The replacements are emitted IN THE ORDER
THE CODE APPLIES THEM (innermost call first); the Lean model folds them in that order, so dropping one,
swapping them or changing a character changes `Generated/MergeConsts.lean` and with it what the theorems
of C13 are about."""
import ast
import os

from .. import translate
from . import normalize

REL = "fairlearn/utils/_input_validation.py"


PINNED = {"_merge_columns": ["_join_names", "names", "name", "row"]}


def _const_str(node, env):
    if isinstance(node, ast.Constant) and isinstance(node.value, str):
        return node.value
    if isinstance(node, ast.Name) and node.id in env:
        return env[node.id]
    if isinstance(node, ast.JoinedStr):
        out = ""
        for v in node.values:
            if isinstance(v, ast.Constant) and isinstance(v.value, str):
                out += v.value
            elif (isinstance(v, ast.FormattedValue) and v.conversion == -1 and v.format_spec is None
                  and isinstance(v.value, ast.Name) and v.value.id in env):
                out += env[v.value.id]
            else:
                raise translate.Untranslatable(f"{REL}: unsupported f-string part in _join_names: {ast.dump(v)[:80]}")
        return out
    if isinstance(node, ast.BinOp) and isinstance(node.op, ast.Add):       # "\\" + SEP: concatenation of string constants
        return _const_str(node.left, env) + _const_str(node.right, env)
    raise translate.Untranslatable(f"{REL}: unsupported string expression in _join_names: {ast.dump(node)[:80]}")


def _lean_char(c):
    return f"Char.ofNat {ord(c)}"


def _lean_chars(s):
    return "[" + ", ".join(_lean_char(c) for c in s) + "]"


def _is_type_guard(node, arg):
    """`if not isinstance(<arg>, <type expr>): raise <exc>(...)` -- rejects an argument, never produces a result"""
    if not (isinstance(node, ast.If) and not node.orelse and len(node.body) == 1 and isinstance(node.body[0], ast.Raise)):
        return False
    t = node.test
    if not (isinstance(t, ast.UnaryOp) and isinstance(t.op, ast.Not)):
        return False
    c = t.operand
    return (isinstance(c, ast.Call) and isinstance(c.func, ast.Name) and c.func.id == "isinstance" and not c.keywords
            and len(c.args) == 2 and isinstance(c.args[0], ast.Name) and c.args[0].id == arg
            and not any(isinstance(n, (ast.Call, ast.NamedExpr, ast.Await, ast.Yield, ast.YieldFrom)) for n in ast.walk(c.args[1])))


def _census(merge_fn, arg):
    """Statement census of the WHOLE body of `_merge_columns` (after normalisation: docstrings, logger calls and new pure
    temporaries are gone).  Accepted: any number of `if not isinstance(<arg>, T): raise ...` guards, exactly one inner
    `def _join_names`, and one final `return`; nothing else at any depth -- in particular no second `return` / `yield`
    anywhere (an early `return` in a branch would bypass the escaping: seeded change C13a), no assignment, loop, `with`,
    `try`, `global` / `nonlocal`, no rebinding of the parameter or of `_join_names`, no decorator on either function and no
    default / extra parameters."""
    def refuse(msg):
        raise translate.Untranslatable(f"{REL}: _merge_columns: {msg}")
    a = merge_fn.args
    if (len(a.args) != 1 or a.posonlyargs or a.kwonlyargs or a.vararg or a.kwarg or a.defaults or a.kw_defaults
            or merge_fn.decorator_list):
        refuse("signature is not a single plain parameter without decorator")
    join_fn = None
    ret = None
    for i, node in enumerate(merge_fn.body):
        if _is_type_guard(node, arg):
            continue
        if isinstance(node, ast.FunctionDef) and node.name == "_join_names":
            if join_fn is not None:
                refuse("_join_names is defined twice")
            ja = node.args
            if (len(ja.args) != 1 or ja.posonlyargs or ja.kwonlyargs or ja.vararg or ja.kwarg or ja.defaults
                    or ja.kw_defaults or node.decorator_list):
                refuse("_join_names signature is not a single plain parameter without decorator")
            join_fn = node
            continue
        if isinstance(node, ast.Return) and i == len(merge_fn.body) - 1:
            ret = node
            continue
        refuse(f"statement not understood at line {getattr(node, 'lineno', '?')}: {ast.dump(node)[:100]} "
               "(accepted: isinstance guards that raise, def _join_names, one final return)")
    if join_fn is None or ret is None:
        refuse("no inner _join_names / final return")
    # nothing hidden deeper: exactly one return in the outer function (the final one), one in _join_names
    outer_nodes = [n for st in merge_fn.body if st is not join_fn for n in ast.walk(st)]
    bad = (ast.Yield, ast.YieldFrom, ast.Await, ast.Global, ast.Nonlocal, ast.NamedExpr, ast.Lambda, ast.FunctionDef,
           ast.AsyncFunctionDef, ast.ClassDef)
    if sum(isinstance(n, ast.Return) for n in outer_nodes) != 1:
        refuse("more than one return")
    for n in outer_nodes + list(ast.walk(join_fn))[1:]:
        if isinstance(n, bad):
            refuse(f"{type(n).__name__} at line {getattr(n, 'lineno', '?')}")
    for n in ast.walk(merge_fn):
        if isinstance(n, ast.Name) and isinstance(n.ctx, (ast.Store, ast.Del)) and n.id in (arg, "_join_names", join_fn.args.args[0].arg):
            refuse(f"`{n.id}` is rebound")
    return join_fn, ret


def _module_census(tree):
    """`_MERGE_COLUMN_SEPARATOR` is bound exactly once in the module (at top level) and `_merge_columns` defined once."""
    binds = [n for n in ast.walk(tree) if isinstance(n, ast.Name) and isinstance(n.ctx, (ast.Store, ast.Del))
             and n.id == "_MERGE_COLUMN_SEPARATOR"]
    top = [n for n in tree.body if isinstance(n, ast.Assign) and len(n.targets) == 1 and isinstance(n.targets[0], ast.Name)
           and n.targets[0].id == "_MERGE_COLUMN_SEPARATOR"]
    if len(binds) != 1 or len(top) != 1:
        raise translate.Untranslatable(f"{REL}: _MERGE_COLUMN_SEPARATOR is bound {len(binds)} times (need exactly one "
                                       "top-level assignment)")
    if any(isinstance(n, ast.Global) and "_MERGE_COLUMN_SEPARATOR" in n.names for n in ast.walk(tree)):
        raise translate.Untranslatable(f"{REL}: `global _MERGE_COLUMN_SEPARATOR`")
    defs = [n for n in ast.walk(tree) if isinstance(n, (ast.FunctionDef, ast.AsyncFunctionDef, ast.ClassDef))
            and n.name == "_merge_columns"]
    names = [n for n in ast.walk(tree) if isinstance(n, ast.Name) and isinstance(n.ctx, (ast.Store, ast.Del))
             and n.id == "_merge_columns"]
    if len(defs) != 1 or names or not any(d is n for d in defs for n in tree.body):
        raise translate.Untranslatable(f"{REL}: _merge_columns is not defined exactly once at module level")


@translate.lifter
def lift_merge(repo):
    src = translate._read(repo, REL)
    # new pure temporaries inlined, locals (also those of the nested _join_names) alpha-renamed to the pinned names
    tree = normalize.canon_tree(normalize.parse(src), PINNED, extra_funcs=("_join_names",), extra_methods=("replace", "join"))
    _module_census(tree)
    env = {}
    merge_fn = None
    for node in tree.body:
        if (isinstance(node, ast.Assign) and len(node.targets) == 1 and isinstance(node.targets[0], ast.Name)
                and node.targets[0].id == "_MERGE_COLUMN_SEPARATOR"):
            if not (isinstance(node.value, ast.Constant) and isinstance(node.value.value, str)):
                raise translate.Untranslatable(f"{REL}: _MERGE_COLUMN_SEPARATOR is not a string constant")
            env["_MERGE_COLUMN_SEPARATOR"] = node.value.value
        if isinstance(node, ast.FunctionDef) and node.name == "_merge_columns":
            merge_fn = node
    if "_MERGE_COLUMN_SEPARATOR" not in env or merge_fn is None:
        raise translate.Untranslatable(f"{REL}: _MERGE_COLUMN_SEPARATOR / _merge_columns not found")
    sep = env["_MERGE_COLUMN_SEPARATOR"]
    if len(sep) != 1:
        raise translate.Untranslatable(f"{REL}: separator {sep!r} is not a single character")
    arg = merge_fn.args.args[0].arg
    join_fn, ret = _census(merge_fn, arg)

    # outer return: np.array([_join_names(row) for row in <arg>.astype(str)])
    def outer_ok(r):
        v = r.value
        if not (isinstance(v, ast.Call) and isinstance(v.func, ast.Attribute) and v.func.attr == "array"
                and len(v.args) == 1 and isinstance(v.args[0], ast.ListComp)):
            return False
        lc = v.args[0]
        if len(lc.generators) != 1 or lc.generators[0].ifs:
            return False
        g = lc.generators[0]
        if not (isinstance(lc.elt, ast.Call) and isinstance(lc.elt.func, ast.Name) and lc.elt.func.id == "_join_names"
                and len(lc.elt.args) == 1 and isinstance(lc.elt.args[0], ast.Name) and isinstance(g.target, ast.Name)
                and lc.elt.args[0].id == g.target.id):
            return False
        it = g.iter
        return (isinstance(it, ast.Call) and isinstance(it.func, ast.Attribute) and it.func.attr == "astype"
                and isinstance(it.func.value, ast.Name) and it.func.value.id == arg
                and len(it.args) == 1 and isinstance(it.args[0], ast.Name) and it.args[0].id == "str")
    if not outer_ok(ret):
        raise translate.Untranslatable(f"{REL}: _merge_columns no longer returns np.array([_join_names(row) for row in "
                                       f"{arg}.astype(str)])")

    # inner: return SEP.join([<chain> for name in names])
    body = [n for n in join_fn.body if not (isinstance(n, ast.Expr) and isinstance(n.value, ast.Constant))]
    if len(body) != 1 or not isinstance(body[0], ast.Return):
        raise translate.Untranslatable(f"{REL}: _join_names is not a single return")
    call = body[0].value
    if not (isinstance(call, ast.Call) and isinstance(call.func, ast.Attribute) and call.func.attr == "join"
            and len(call.args) == 1 and isinstance(call.args[0], (ast.ListComp, ast.GeneratorExp)) and not call.keywords):
        # (str.join consumes a generator exactly as it consumes the list of the same elements)
        raise translate.Untranslatable(f"{REL}: _join_names is not <sep>.join([...])")
    joiner = _const_str(call.func.value, env)
    if joiner != sep:
        raise translate.Untranslatable(f"{REL}: join string {joiner!r} differs from _MERGE_COLUMN_SEPARATOR {sep!r}")
    lc = call.args[0]
    names_arg = join_fn.args.args[0].arg
    if not (len(lc.generators) == 1 and not lc.generators[0].ifs and isinstance(lc.generators[0].target, ast.Name)
            and isinstance(lc.generators[0].iter, ast.Name) and lc.generators[0].iter.id == names_arg):
        raise translate.Untranslatable(f"{REL}: _join_names does not iterate over its argument")
    var = lc.generators[0].target.id
    chain = []
    node = lc.elt
    while True:
        if isinstance(node, ast.Name) and node.id == var:
            break
        if (isinstance(node, ast.Call) and isinstance(node.func, ast.Attribute) and node.func.attr == "replace"
                and len(node.args) == 2 and not node.keywords):
            old = _const_str(node.args[0], env)
            new = _const_str(node.args[1], env)
            if len(old) != 1:
                raise translate.Untranslatable(f"{REL}: replace() pattern {old!r} is not a single character")
            chain.append((old, new))
            node = node.func.value
            continue
        raise translate.Untranslatable(f"{REL}: unsupported expression in _join_names: {ast.dump(node)[:80]}")
    chain.reverse()  # innermost call is applied first

    reps = ",\n   ".join(f"({_lean_char(o)}, {_lean_chars(n)})" for o, n in chain)
    content = (
        "/-\nGENERATED by harness/lifters/merge.py from " + REL + " — do not edit.\n"
        "`sep` = _MERGE_COLUMN_SEPARATOR; `replacements` = the chain of `str.replace(old, new)` calls of\n"
        "`_merge_columns._join_names`, in the order the code applies them.\n-/\n"
        "namespace MergeConsts\n\n"
        f"def sep : Char := {_lean_char(sep)}\n\n"
        "def replacements : List (Char × List Char) :=\n  [" + reps + "]\n\n"
        "end MergeConsts\n"
    )
    meta = {"sep": sep, "replacements": [[o, n] for o, n in chain], "source": os.path.join(repo, REL)}
    return "MergeConsts.lean", content, meta
