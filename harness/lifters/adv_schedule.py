"""Lifter for C17: the training schedule of `_AdversarialFairness.fit` / `partial_fit` and the decision rules of
`predict` (fairlearn/adversarial/_adversarial_mitigation.py, _preprocessor.py).

Regenerates lean/FairModel/Generated/AdvScheduleSrc.lean with a `SchedCfg.Cfg` record:
  rejects     the test of the `raise ValueError` guard on (self.epochs, self.max_iter)
  batchSize   the definition of the batch-size local in terms of (self.batch_size, X.shape[0])
  batches     `ceil(X.shape[0] / batch_size)`      (ceil / floor / `//` are told apart)
  epochs      the definition of the epoch count in terms of (self.epochs, self.max_iter, batches)
  nIterInit   `self.n_iter_ = 0` before the loops
  sliceLo/Hi  the two arguments of `slice(...)`
  incIter     `self.n_iter_ += 1`
  hitMax      the test in front of the first early exit, and HOW it exits (`return self` / `break`)
  stopInit, stopAcc, cbStep, exitStop   the callback block
  cbGuard     the guard around the callback block (`if self.callbacks_:`; any other guard is refused)
  cbResultCheck   the check of a callback's result before it is accumulated (condition and exception kind)
  partialFitCallbackCalls   partial_fit calls no callbacks
  paramRejected   the range checks of `__setup` on batch_size / epochs / max_iter as one condition on an Int (ValueError)
  body        the ORDER of train_step / increment / max_iter test / callback block in the batch loop
plus the loop nesting (`for .. in range(epochs)` around `for .. in range(batches)`), the shuffle placement and
guard, the `train_step` call shapes of `fit` and `partial_fit`, and the decision rules of predict.
Locals are identified by ROLE (what the `range(..)` of the loops and the `slice(..)` refer to), not by name, and
statements that cannot influence the schedule (loss bookkeeping, progress logging) are skipped, so renaming a
local or reordering independent statements does not change the output.  Anything else is refused."""
import ast
import os
from fractions import Fraction

from .. import translate
from . import normalize

REL = "fairlearn/adversarial/_adversarial_mitigation.py"
REL_PRE = "fairlearn/adversarial/_preprocessor.py"
CLS = "_AdversarialFairness"


# Locals of the pinned `fit` / `partial_fit` / ... in order of first binding: a function that binds MORE locals gets its
# new single-use temporaries inlined again (normalize.inline_new_temporaries) before it is matched.
PINNED_LOCALS = {
    "fit": ["reinitialize", "A", "predictor_model", "adversary_model", "batch_size", "batches", "epochs", "start_time",
            "last_update_time", "predictor_losses", "adversary_losses", "epoch", "batch", "progress", "ETA", "batch_slice",
            "LP", "LA", "stop", "cb", "result"],
    "_binary_predictor_function": [],
    "partial_fit": ["first_call", "A"],
}
# The header comment names the locals by ROLE with the pinned spelling (the actual names are in the meta data).
PINNED_ROLES = dict(epochs="epochs", batches="batches", batch_size="batch_size", epoch="epoch", batch="batch", slice="batch_slice")
# name of the generated definition -> (the term emitted for the pinned source, the source text quoted in its doc comment).
# When the lifted term IS the pinned term (modulo `a + b` / `a * b` operand order, see normalize.lean_prefer) the pinned
# term and quotation are emitted, so that a re-spelling of the same definition leaves the generated file byte-identical;
# any other term is emitted with the actual source text.
PINNED_DEFS = {
    "rejects": ("((self_epochs == (-1 : Int)) && (self_max_iter == (-1 : Int)))",
                "if self.epochs == -1 and self.max_iter == -1: raise ValueError"),
    "batchSize": ("(if (self_batch_size == (-1 : Int)) then n else self_batch_size)",
                  "if self.batch_size == -1: ;     batch_size = X.shape[0] ; else: ;     batch_size = self.batch_size"),
    "batches": ("(pyCeilDiv n batch_size)", "batches = ceil(X.shape[0] / batch_size)"),
    "epochs": ("(if (self_epochs == (-1 : Int)) then (pyCeilDiv self_max_iter batches) else self_epochs)",
               "if self.epochs == -1: ;     epochs = ceil(self.max_iter / batches) ; else: ;     epochs = self.epochs"),
    "nIterInit": ("(0 : Int)", "self.n_iter_ = 0"),
    "sliceLo": ("(batch * batch_size)", "slice(batch * batch_size, ..)"),
    "sliceHi": ("(min ((batch + (1 : Int)) * batch_size) n)", "slice(.., min((batch + 1) * batch_size, X.shape[0]))"),
    "incIter": ("(n_iter + (1 : Int))", "self.n_iter_ += 1"),
    "hitMax": ("((self_max_iter != (-1 : Int)) && decide (n_iter ≥ self_max_iter))",
               "if self.max_iter != -1 and self.n_iter_ >= self.max_iter: ..."),
    "stopAcc": (".orAcc", "stop = stop or result"),
    "cbStep": ("n_iter", "cb(self, step=self.n_iter_, ...)"),
    "cbResultCheck": ("(.truthyNonBool .runtimeError)",
                      "if result and (not isinstance(result, bool)):     raise RuntimeError(_CALLBACK_RETURNS_ERROR)"),
    "paramRejected": ("(decide ((-1 : Int) > v) || (decide ((0 : Int) ≥ v) && (v != (-1 : Int))))",
                      "__setup, for batch_size / epochs / max_iter: check_scalar(kw, kwname, (int, float), min_val=-1, "
                      "include_boundaries='left') ; if kw <= 0.0 and kw != -1: raise ValueError"),
    "binaryRule": (".threshold .ge", "(pred >= self.threshold_value).astype(float)"),
    "multiclassRule": (".argmaxRow", "argmax(pred, axis=1); b[a, c] = 1"),
    "fitReinit": ("((!has_classes) || (!warm_start))", "fit: reinitialize = not hasattr(self, 'classes_') or not self.warm_start"),
    "partialFitFirstCall": ("(!has_classes)", "partial_fit: first_call = not hasattr(self, 'classes_')"),
    "partialFitSetsClasses": ("(first_call && classes_given)",
                              "partial_fit: if first_call and classes is not None:     self.classes_ = classes"),
    "setupWhen": ("((!is_fitted) || reinitialize)",
                  "_validate_input: if not is_fitted or reinitialize: self.__setup(X, y, A)  "
                  "(is_fitted = hasattr(self, '_is_setup'), set at the end of __setup)"),
}


# definitions that are pure propositional formulas over the named Bool atoms (side-effect free reads): a formula with the
# truth table of the pinned one (De Morgan, swapped disjuncts, double negation ..) is emitted as the pinned one
BOOL_DEFS = {"fitReinit": ("has_classes", "warm_start"), "partialFitFirstCall": ("has_classes",),
             "partialFitSetsClasses": ("first_call", "classes_given"), "setupWhen": ("is_fitted", "reinitialize")}


def _truth_table(expr, atoms):
    """truth table of an emitted `!` / `&&` / `||` formula over `atoms`, or None if it is not one"""
    import itertools
    import re
    toks = re.findall(r"&&|\|\||[!()]|[A-Za-z_]\w*", expr)
    if "".join(toks) != "".join(expr.split()) or any(t[0].isalpha() and t not in atoms + ("true", "false") for t in toks):
        return None
    py = " ".join({"&&": "and", "||": "or", "!": "not", "true": "True", "false": "False"}.get(t, t) for t in toks)
    try:
        code = compile(py, "<formula>", "eval")
        return tuple(bool(eval(code, {"__builtins__": {}}, dict(zip(atoms, vals))))
                     for vals in itertools.product((False, True), repeat=len(atoms)))
    except Exception:
        return None


class _U(translate.Untranslatable):
    pass


def _src(node):
    return ast.unparse(node)


def _bad(msg):
    raise _U("C17 lifter: " + msg)


# ------------------------------------------------------------------------------------------- expressions
class Expr:
    """Python int / bool expression -> Lean source over a fixed environment `env` (python source text -> Lean name)."""

    def __init__(self, env, what):
        self.env, self.what = env, what

    def leaf(self, node):
        key = _src(node)
        if key in self.env:
            return self.env[key]
        if isinstance(node, ast.Call) and _src(node.func) == "len" and len(node.args) == 1 and not node.keywords \
                and _src(node.args[0]) + ".shape[0]" in self.env:
            return self.env[_src(node.args[0]) + ".shape[0]"]
        return None

    def int(self, node):
        lf = self.leaf(node)
        if lf is not None:
            return lf
        if isinstance(node, ast.Constant) and isinstance(node.value, int) and not isinstance(node.value, bool):
            return f"({node.value} : Int)"
        if isinstance(node, ast.UnaryOp) and isinstance(node.op, ast.USub):
            if isinstance(node.operand, ast.Constant) and isinstance(node.operand.value, int):
                return f"(-{node.operand.value} : Int)"
            return f"(-{self.int(node.operand)})"
        if isinstance(node, ast.BinOp) and type(node.op) in (ast.Add, ast.Sub, ast.Mult):
            op = {ast.Add: "+", ast.Sub: "-", ast.Mult: "*"}[type(node.op)]
            return f"({self.int(node.left)} {op} {self.int(node.right)})"
        if isinstance(node, ast.BinOp) and isinstance(node.op, ast.FloorDiv):
            return f"(pyFloorDiv {self.int(node.left)} {self.int(node.right)})"
        if isinstance(node, ast.Call) and not node.keywords:
            fn = _src(node.func)
            if fn in ("ceil", "math.ceil", "floor", "math.floor") and len(node.args) == 1 \
                    and isinstance(node.args[0], ast.BinOp) and isinstance(node.args[0].op, ast.Div):
                prim = "pyCeilDiv" if fn.endswith("ceil") else "pyFloorDiv"
                return f"({prim} {self.int(node.args[0].left)} {self.int(node.args[0].right)})"
            if fn in ("min", "max") and len(node.args) == 2:
                return f"({fn} {self.int(node.args[0])} {self.int(node.args[1])})"
            if fn == "int" and len(node.args) == 1 and isinstance(node.args[0], ast.Call):
                return self.int(node.args[0])
        if isinstance(node, ast.IfExp):
            return f"(if {self.bool(node.test)} then {self.int(node.body)} else {self.int(node.orelse)})"
        _bad(f"{self.what}: cannot translate integer expression `{_src(node)}`")

    def bool(self, node):
        if isinstance(node, ast.Constant) and isinstance(node.value, bool):
            return "true" if node.value else "false"
        if isinstance(node, ast.BoolOp):
            op = " && " if isinstance(node.op, ast.And) else " || "
            return "(" + op.join(self.bool(v) for v in node.values) + ")"
        if isinstance(node, ast.UnaryOp) and isinstance(node.op, ast.Not):
            return f"(!{self.bool(node.operand)})"
        if isinstance(node, ast.Compare) and len(node.ops) == 1:
            a, b = self.int(node.left), self.int(node.comparators[0])
            op = type(node.ops[0])
            if op is ast.Eq:
                return f"({a} == {b})"
            if op is ast.NotEq:
                return f"({a} != {b})"
            if op in (ast.LtE, ast.Lt):          # `a <= b` is `b >= a`: one spelling for both
                a, b, op = b, a, {ast.LtE: ast.GtE, ast.Lt: ast.Gt}[op]
            rel = {ast.GtE: "≥", ast.Gt: ">"}.get(op)
            if rel:
                return f"decide ({a} {rel} {b})"
        _bad(f"{self.what}: cannot translate condition `{_src(node)}`")


def _names_in(node):
    return {n.id for n in ast.walk(node) if isinstance(n, ast.Name)}


def _assigned(stmt):
    """source text of everything a statement (recursively) assigns to"""
    out = set()
    for n in ast.walk(stmt):
        tg = []
        if isinstance(n, ast.Assign):
            tg = n.targets
        elif isinstance(n, (ast.AugAssign, ast.AnnAssign)):
            tg = [n.target]
        elif isinstance(n, (ast.For, ast.comprehension)):
            tg = [n.target]
        elif isinstance(n, ast.NamedExpr):
            tg = [n.target]
        for t in tg:
            for e in ast.walk(t):
                if isinstance(e, (ast.Name, ast.Attribute, ast.Subscript)):
                    out.add(_src(e))
    return out


def _assign_count(fn, name):
    """number of binding sites of the local `name` in `fn` (assignments, loop / comprehension targets, walrus)"""
    k = 0
    for n in ast.walk(fn):
        tg = []
        if isinstance(n, ast.Assign):
            tg = n.targets
        elif isinstance(n, (ast.AugAssign, ast.AnnAssign, ast.NamedExpr, ast.For, ast.comprehension)):
            tg = [n.target]
        for t in tg:
            k += sum(1 for e in ast.walk(t) if isinstance(e, ast.Name) and e.id == name)
    return k


def _harmless(stmt, tracked):
    """statement that cannot change the schedule: no escape from the loops, no write to a tracked name, no call of
    train_step / shuffle / a callback"""
    for n in ast.walk(stmt):
        if isinstance(n, (ast.Return, ast.Break, ast.Continue, ast.Raise, ast.While, ast.Try, ast.With, ast.Yield,
                          ast.YieldFrom, ast.Global, ast.Nonlocal, ast.Delete)):
            return False
        if isinstance(n, ast.Call):
            f = _src(n.func)
            if f.endswith("train_step") or f.endswith(".shuffle") or f in ("cb", "setattr", "exec", "eval") \
                    or "callbacks" in f:
                return False
    return not (_assigned(stmt) & tracked)


def _local_def(stmts, name, ex, what):
    """the unique definition of local `name` among `stmts`:  `name = e`  or  `if c: name = a  else: name = b`"""
    found = []
    for i, st in enumerate(stmts):
        if isinstance(st, ast.Assign) and len(st.targets) == 1 and _src(st.targets[0]) == name:
            found.append((i, ex.int(st.value), _src(st)))       # (`name = a if c else b` gives the same term as the if-statement)
        elif isinstance(st, ast.If) and name in _assigned(st):
            ok = (len(st.body) == 1 and len(st.orelse) == 1
                  and all(isinstance(s, ast.Assign) and len(s.targets) == 1 and _src(s.targets[0]) == name
                          for s in (st.body[0], st.orelse[0])))
            if not ok:
                _bad(f"{what}: `{name}` is defined by an if-statement of unknown shape: {_src(st)[:120]}")
            found.append((i, f"(if {ex.bool(st.test)} then {ex.int(st.body[0].value)} else {ex.int(st.orelse[0].value)})",
                          _src(st).replace("\n", " ; ")))
        elif name in _assigned(st):
            _bad(f"{what}: `{name}` is assigned inside `{_src(st)[:80]}`")
    if len(found) != 1:
        _bad(f"{what}: expected exactly one definition of `{name}`, found {len(found)}")
    return found[0]


def _is_self_return(st):
    return isinstance(st, ast.Return) and st.value is not None and _src(st.value) == "self"


def _exit_kind(stmts, what):
    if len(stmts) == 1 and _is_self_return(stmts[0]):
        return "returnSelf"
    if len(stmts) == 1 and isinstance(stmts[0], ast.Break):
        return "breakInner"
    _bad(f"{what}: the stop branch is neither `return self` nor `break`: {[_src(s) for s in stmts]}")


def _find_class(tree, name, rel):
    for c in tree.body:
        if isinstance(c, ast.ClassDef) and c.name == name:
            return c
    _bad(f"{rel}: class {name} not found")


def _find_fn(cls, name, rel):
    fns = [f for f in cls.body if isinstance(f, ast.FunctionDef) and f.name == name]
    if len(fns) != 1:
        _bad(f"{rel}: expected one method `{name}`, found {len(fns)}")
    return fns[0]


# ------------------------------------------------------------------------------------------- fit
def lift_fit(fn):
    fn = normalize.inline_new_temporaries(fn, PINNED_LOCALS["fit"])
    body = fn.body
    loops = [i for i, s in enumerate(body) if isinstance(s, ast.For)]
    if len(loops) != 1:
        _bad(f"fit: expected exactly one top-level for-loop, found {len(loops)}")
    li = loops[0]
    outer = body[li]
    if outer.orelse or any(isinstance(n, ast.While) for n in ast.walk(fn)):
        _bad("fit: loop with else-branch or a while-loop")

    def range_var(loop, what):
        it = loop.iter
        if not (isinstance(it, ast.Call) and _src(it.func) == "range" and len(it.args) == 1 and not it.keywords
                and isinstance(it.args[0], ast.Name) and isinstance(loop.target, ast.Name)):
            _bad(f"fit: {what} loop is not `for <name> in range(<name>)`: {_src(it)}")
        return loop.target.id, it.args[0].id

    v_epoch, v_epochs = range_var(outer, "epoch")
    inner_l = [s for s in outer.body if isinstance(s, ast.For)]
    if len(inner_l) != 1 or inner_l[0].orelse:
        _bad(f"fit: expected exactly one batch loop inside the epoch loop, found {len(inner_l)}")
    inner = inner_l[0]
    v_batch, v_batches = range_var(inner, "batch")
    if len({v_epoch, v_epochs, v_batch, v_batches}) != 4:
        _bad("fit: loop variables are not distinct")
    if fn.body[-1] is outer or not _is_self_return(fn.body[-1]):
        _bad("fit: does not end with `return self` after the loops")
    pre = body[:li]
    post = body[li + 1:-1]
    n_src = "X.shape[0]"
    # locals that merely name the number of rows (`n = X.shape[0]`, `n_samples = len(X)`), assigned once before the loops
    n_alias = {}
    for st in pre:
        if isinstance(st, ast.Assign) and len(st.targets) == 1 and isinstance(st.targets[0], ast.Name) \
                and _src(st.value) in ("X.shape[0]", "len(X)"):
            nm = st.targets[0].id
            if _assign_count(fn, nm) == 1:
                n_alias[nm] = "n"

    # ---- the slice and the train_step call
    inner_body = inner.body
    trains = [(i, s) for i, s in enumerate(inner_body)
              if isinstance(s, (ast.Assign, ast.Expr)) and isinstance(s.value, ast.Call)
              and _src(s.value.func).endswith("train_step")]
    if len(trains) != 1 or sum(1 for n in ast.walk(fn) if isinstance(n, ast.Call) and _src(n.func).endswith("train_step")) != 1:
        _bad("fit: expected exactly one train_step call, directly in the batch loop")
    ti, tst = trains[0]
    call = tst.value
    if _src(call.func) != "self.backendEngine_.train_step" or call.keywords or len(call.args) != 3:
        _bad(f"fit: train_step call of unknown shape: {_src(call)}")
    subs = []
    for a, nm in zip(call.args, ("X", "y", "A")):
        if not (isinstance(a, ast.Subscript) and isinstance(a.value, ast.Name) and a.value.id == nm
                and isinstance(a.slice, ast.Name)):
            _bad(f"fit: train_step argument `{_src(a)}` is not `{nm}[<slice variable>]`")
        subs.append(a.slice.id)
    if len(set(subs)) != 1:
        _bad(f"fit: X, y and A are cut with different slices: {subs}")
    v_slice = subs[0]
    sl_defs = [(i, s) for i, s in enumerate(inner_body) if v_slice in _assigned(s)]
    if len(sl_defs) != 1 or sl_defs[0][0] > ti:
        _bad(f"fit: `{v_slice}` must be assigned exactly once in the batch loop, before train_step")
    si, sst = sl_defs[0]
    ok = (isinstance(sst, ast.Assign) and len(sst.targets) == 1 and isinstance(sst.value, ast.Call)
          and _src(sst.value.func) == "slice" and len(sst.value.args) == 2 and not sst.value.keywords)
    if not ok:
        _bad(f"fit: slice assignment of unknown shape: {_src(sst)}")

    # ---- roles of the locals: batches -> batch size
    defs_scope = pre
    bt_names = None
    for st in pre:
        if isinstance(st, ast.Assign) and len(st.targets) == 1 and _src(st.targets[0]) == v_batches:
            bt_names = _names_in(st.value) - {"ceil", "floor", "math", "X", "len", "int", "min", "max"} - set(n_alias)
    if bt_names is None or len(bt_names) != 1:
        _bad(f"fit: `{v_batches}` must be defined once before the loops from X.shape[0] and one local (the batch size)")
    v_bsize = next(iter(bt_names))
    if v_bsize in (v_epoch, v_epochs, v_batch, v_batches, v_slice):
        _bad("fit: batch size local coincides with another role")

    tracked = {v_epochs, v_batches, v_bsize, v_epoch, v_batch, v_slice, "X", "y", "A", "self.n_iter_", "self.max_iter",
               "self.epochs", "self.batch_size", "self.callbacks_", "self.shuffle", "self"}

    ex_bs = Expr({"self.batch_size": "self_batch_size", n_src: "n", **n_alias}, "fit/batch_size")
    i_bs, e_bs, s_bs = _local_def(defs_scope, v_bsize, ex_bs, "fit")
    ex_bt = Expr({n_src: "n", v_bsize: "batch_size", **n_alias}, "fit/batches")
    i_bt, e_bt, s_bt = _local_def(defs_scope, v_batches, ex_bt, "fit")
    ex_ep = Expr({"self.epochs": "self_epochs", "self.max_iter": "self_max_iter", v_batches: "batches"}, "fit/epochs")
    i_ep, e_ep, s_ep = _local_def(defs_scope, v_epochs, ex_ep, "fit")
    if not (i_bs < i_bt < i_ep):
        _bad("fit: batch size, batches, epochs are not defined in this order")

    # ---- rejection guard and n_iter_ initialisation, everything else before the loop must be harmless
    rejects, nit = [], []
    ex_rj = Expr({"self.epochs": "self_epochs", "self.max_iter": "self_max_iter"}, "fit/rejection")
    ex_const = Expr({}, "fit/n_iter_ init")
    for i, st in enumerate(pre):
        if i in (i_bs, i_bt, i_ep):
            continue
        if isinstance(st, ast.If) and len(st.body) == 1 and isinstance(st.body[0], ast.Raise) and not st.orelse \
                and ({"self.epochs", "self.max_iter"} & {_src(n) for n in ast.walk(st.test)}):
            exc = st.body[0].exc
            if not (isinstance(exc, ast.Call) and _src(exc.func) == "ValueError"):
                _bad(f"fit: the rejection raises `{_src(exc)[:40]}`, not ValueError")
            rejects.append((i, ex_rj.bool(st.test), _src(st.test)))
            continue
        if isinstance(st, ast.Assign) and len(st.targets) == 1 and _src(st.targets[0]) == "self.n_iter_":
            nit.append((i, ex_const.int(st.value), _src(st)))
            continue
        if isinstance(st, ast.Assign) and _src(st.targets[0]) in ("X, y, A", "(X, y, A)") and _src(st.value).startswith("self._validate_input("):
            continue
        if isinstance(st, ast.Expr) and isinstance(st.value, ast.Constant) and isinstance(st.value.value, str):
            continue
        if isinstance(st, ast.Assign) and _src(st.value).endswith(".shuffle(X, y, A)"):
            continue     # classified below
        if not _harmless(st, tracked):
            _bad(f"fit: statement before the loops may change the schedule: {_src(st)[:100]}")
    if len(rejects) != 1:
        _bad(f"fit: expected exactly one `raise ValueError` guard on epochs / max_iter, found {len(rejects)}")
    if len(nit) != 1:
        _bad(f"fit: expected exactly one `self.n_iter_ = <const>` before the loops, found {len(nit)}")
    # (the guard may stand anywhere before the loops: nothing observable happens before them)
    for st in post:
        if not _harmless(st, tracked):
            _bad(f"fit: statement after the loops: {_src(st)[:100]}")

    # ---- shuffle placement
    def is_shuffle_assign(st):
        return (isinstance(st, ast.Assign) and _src(st.targets[0]) in ("X, y, A", "(X, y, A)")
                and _src(st.value) == "self.backendEngine_.shuffle(X, y, A)")

    def shuffle_in(stmts):
        out = []
        for st in stmts:
            if is_shuffle_assign(st):
                out.append(False)
            elif isinstance(st, ast.If) and not st.orelse and len(st.body) == 1 and is_shuffle_assign(st.body[0]):
                if _src(st.test) != "self.shuffle":
                    _bad(f"fit: shuffle is guarded by `{_src(st.test)}`")
                out.append(True)
        return out

    n_shuffle_calls = sum(1 for n in ast.walk(fn) if isinstance(n, ast.Call) and _src(n.func).endswith(".shuffle"))
    places = [("beforeLoops", shuffle_in(pre)), ("perEpoch", shuffle_in(outer.body)), ("perBatch", shuffle_in(inner_body))]
    hits = [(p, g) for p, gs in places for g in gs]
    if n_shuffle_calls != len(hits) or len(hits) > 1:
        _bad(f"fit: {n_shuffle_calls} shuffle call(s), {len(hits)} of a known shape")
    shuffle_at, shuffle_guarded = (hits[0] if hits else ("never", True))
    if shuffle_at == "perEpoch":
        idx = [i for i, st in enumerate(outer.body) if shuffle_in([st])][0]
        if idx > outer.body.index(inner):
            _bad("fit: shuffle stands after the batch loop")
    for st in outer.body:
        if st is inner or shuffle_in([st]):
            continue
        if not _harmless(st, tracked):
            _bad(f"fit: statement in the epoch loop may change the schedule: {_src(st)[:100]}")

    # ---- events of the batch loop
    ex_sl = Expr({v_batch: "batch", v_bsize: "batch_size", n_src: "n", **n_alias}, "fit/slice")
    e_lo, e_hi = ex_sl.int(sst.value.args[0]), ex_sl.int(sst.value.args[1])
    ex_it = Expr({"self.n_iter_": "n_iter"}, "fit/n_iter_")
    ex_mx = Expr({"self.n_iter_": "n_iter", "self.max_iter": "self_max_iter"}, "fit/max_iter test")
    events, info = [], {}
    for i, st in enumerate(inner_body):
        if i == si or shuffle_in([st]):
            continue
        if i == ti:
            events.append("train")
            continue
        asg = _assigned(st)
        if isinstance(st, ast.AugAssign) and _src(st.target) == "self.n_iter_" and isinstance(st.op, (ast.Add, ast.Sub)):
            op = "+" if isinstance(st.op, ast.Add) else "-"
            if "inc" in info:
                _bad("fit: self.n_iter_ is changed twice in the batch loop")
            info["inc"] = (f"(n_iter {op} {ex_it.int(st.value)})", _src(st))
            events.append("incIter")
            continue
        if isinstance(st, ast.Assign) and len(st.targets) == 1 and _src(st.targets[0]) == "self.n_iter_":
            if "inc" in info:
                _bad("fit: self.n_iter_ is changed twice in the batch loop")
            info["inc"] = (ex_it.int(st.value), _src(st))
            events.append("incIter")
            continue
        if isinstance(st, ast.If) and any(isinstance(x, ast.For) and _src(x.iter) == "self.callbacks_" for x in st.body):
            # the callback block: the only guard understood is the truth value of `self.callbacks_` itself
            if _src(st.test) != "self.callbacks_":
                _bad(f"fit: the callback block is guarded by `{_src(st.test)}`, not by `self.callbacks_`")
            if "cb" in info or st.orelse:
                _bad("fit: second callback block / else branch")
            info["cb"] = lift_callbacks(st, ex_it)
            info["cb"]["guard"] = ("truthy", "if " + _src(st.test) + ":")
            events.append("callbacks")
            continue
        if isinstance(st, ast.For) and _src(st.iter) == "self.callbacks_":
            _bad("fit: the callback loop stands unguarded in the batch loop")
        if isinstance(st, ast.If) and "self.max_iter" in {_src(n) for n in ast.walk(st.test)}:
            if "max" in info or st.orelse:
                _bad("fit: second max_iter test / else branch")
            info["max"] = (ex_mx.bool(st.test), _exit_kind(st.body, "fit/max_iter test"), _src(st.test))
            events.append("checkMax")
            continue
        if "self.n_iter_" in asg or not _harmless(st, tracked):
            _bad(f"fit: statement in the batch loop may change the schedule: {_src(st)[:100]}")
    for k, what in (("inc", "increment of self.n_iter_"), ("max", "max_iter test"), ("cb", "callback block")):
        if k not in info:
            _bad(f"fit: no {what} in the batch loop")
    return dict(rejects=rejects[0][1:], batchSize=(e_bs, s_bs), batches=(e_bt, s_bt), epochs=(e_ep, s_ep),
                nIterInit=nit[0][1:], sliceLo=(e_lo, _src(sst.value.args[0])), sliceHi=(e_hi, _src(sst.value.args[1])),
                incIter=info["inc"], hitMax=info["max"], cb=info["cb"], body=events,
                shuffleAt=shuffle_at, shuffleGuarded=shuffle_guarded,
                roles=dict(epochs=v_epochs, batches=v_batches, batch_size=v_bsize, epoch=v_epoch, batch=v_batch, slice=v_slice))


def lift_callbacks(block, ex_it):
    """`if self.callbacks_:` block"""
    body = block.body
    if len(body) != 3:
        _bad(f"fit/callbacks: expected `<flag> = <const>; for cb in self.callbacks_: ...; if <flag>: <exit>`, got {len(body)} statements")
    init, loop, fin = body
    if not (isinstance(init, ast.Assign) and len(init.targets) == 1 and isinstance(init.targets[0], ast.Name)
            and isinstance(init.value, ast.Constant) and isinstance(init.value.value, bool)):
        _bad(f"fit/callbacks: flag initialisation of unknown shape: {_src(init)}")
    flag = init.targets[0].id
    if not (isinstance(loop, ast.For) and not loop.orelse and _src(loop.iter) == "self.callbacks_"
            and isinstance(loop.target, ast.Name)):
        _bad(f"fit/callbacks: loop is not `for <cb> in self.callbacks_`: {_src(loop)[:60]}")
    cbv = loop.target.id
    res, step, acc, check = None, None, None, None
    for st in loop.body:
        if isinstance(st, ast.Assign) and len(st.targets) == 1 and isinstance(st.targets[0], ast.Name) \
                and isinstance(st.value, ast.Call) and _src(st.value.func) == cbv:
            if res is not None:
                _bad("fit/callbacks: a callback is called twice")
            c = st.value
            if not (len(c.args) == 1 and _src(c.args[0]) == "self"):
                _bad(f"fit/callbacks: first argument of the callback is not the estimator: {_src(c)[:80]}")
            kws = {k.arg: k.value for k in c.keywords}
            if "step" not in kws:
                _bad("fit/callbacks: callback is not given `step=`")
            res, step = st.targets[0].id, (ex_it.int(kws["step"]), _src(kws["step"]))
            continue
        if isinstance(st, ast.If) and res is not None and res in _names_in(st.test):
            # type check of the callback's result: which values are rejected, with which exception
            if check is not None or acc is not None:
                _bad("fit/callbacks: second check of the callback's result / check after the accumulation")
            if st.orelse or len(st.body) != 1 or not isinstance(st.body[0], ast.Raise) or st.body[0].exc is None:
                _bad(f"fit/callbacks: the check of the callback's result does not just raise: {_src(st)[:100]}")
            exc = st.body[0].exc
            ename = _src(exc.func) if isinstance(exc, ast.Call) else _src(exc)
            kinds = {"RuntimeError": "runtimeError", "ValueError": "valueError", "TypeError": "typeError"}
            if ename not in kinds:
                _bad(f"fit/callbacks: a bad callback result raises `{ename}`")
            nonbool = (f"not isinstance({res}, bool)",)
            t = st.test
            if _src(t) in nonbool:
                check = (f"(.nonBool .{kinds[ename]})", _src(st).replace("\n", " "))
            elif isinstance(t, ast.BoolOp) and isinstance(t.op, ast.And) and len(t.values) == 2 \
                    and sorted(_src(v) for v in t.values) == sorted([res, nonbool[0]]):
                check = (f"(.truthyNonBool .{kinds[ename]})", _src(st).replace("\n", " "))
            else:
                _bad(f"fit/callbacks: condition on the callback's result of unknown shape: `{_src(t)}`")
            continue
        if isinstance(st, ast.Assign) and len(st.targets) == 1 and _src(st.targets[0]) == flag:
            if acc is not None or res is None:
                _bad("fit/callbacks: flag is updated twice / before the call")
            v = st.value
            if isinstance(v, ast.BoolOp) and len(v.values) == 2 and _src(v.values[0]) == flag and _src(v.values[1]) == res:
                acc = "orAcc" if isinstance(v.op, ast.Or) else "andAcc"
            elif isinstance(v, ast.BoolOp) and len(v.values) == 2 and _src(v.values[1]) == flag and _src(v.values[0]) == res \
                    and isinstance(v.op, ast.Or):
                acc = "orAcc"      # `result or stop`: same truth value
            elif _src(v) in (res, f"bool({res})"):
                acc = "last"
            else:
                _bad(f"fit/callbacks: accumulation of unknown shape: {_src(st)}")
            acc = (acc, _src(st))
            continue
        if isinstance(st, (ast.Break, ast.Return, ast.Continue)) or not _harmless(st, {flag, "self.n_iter_"}):
            _bad(f"fit/callbacks: statement in the callback loop: {_src(st)[:80]}")
    if res is None or acc is None:
        _bad("fit/callbacks: no callback call / no accumulation found")
    if not (isinstance(fin, ast.If) and not fin.orelse and _src(fin.test) == flag):
        _bad(f"fit/callbacks: final test of unknown shape: {_src(fin)[:60]}")
    if check is None:
        check = (".coerce", "no check of the callback's result")
    return dict(stopInit="true" if init.value.value else "false", acc=acc, step=step, check=check,
                exit=_exit_kind(fin.body, "fit/callbacks"))


# ------------------------------------------------------------------------------------------- __setup: positivity
class _FloatToInt(ast.NodeTransformer):
    """`0.0` -> `0`: the validated values are Python ints in the model"""

    def visit_Constant(self, node):
        if isinstance(node.value, float) and node.value == int(node.value):
            return ast.copy_location(ast.Constant(int(node.value)), node)
        return node


def lift_param_validation(setup):
    """`for kw, kwname in ((self.batch_size, ..), (self.epochs, ..), (self.max_iter, ..)):
            check_scalar(kw, kwname, (int, float), min_val=-1, include_boundaries='left')
            if kw <= 0.0 and kw != -1: raise ValueError(..)`
    -> which values of these three parameters are rejected (as a condition on one Int) and with which exception"""
    want = {"self.batch_size", "self.epochs", "self.max_iter"}
    loops = []
    for st in setup.body:
        if isinstance(st, ast.For) and isinstance(st.iter, ast.Tuple) and st.iter.elts \
                and all(isinstance(e, ast.Tuple) and len(e.elts) == 2 for e in st.iter.elts) \
                and ({_src(e.elts[0]) for e in st.iter.elts} & want):
            loops.append(st)
    if len(loops) != 1:
        _bad(f"__setup: expected exactly one validation loop over batch_size / epochs / max_iter, found {len(loops)}")
    loop = loops[0]
    got = [_src(e.elts[0]) for e in loop.iter.elts]
    if set(got) != want or len(got) != 3:
        _bad(f"__setup: the validation loop covers {got}")
    if not (isinstance(loop.target, ast.Tuple) and len(loop.target.elts) == 2 and all(isinstance(e, ast.Name) for e in loop.target.elts)) \
            or loop.orelse:
        _bad("__setup: validation loop target of unknown shape")
    v = loop.target.elts[0].id
    ex = Expr({v: "v"}, "__setup/validation")
    conds, kinds, srcs = [], set(), []
    for st in loop.body:
        if isinstance(st, ast.Expr) and isinstance(st.value, ast.Call) and _src(st.value.func) == "check_scalar":
            c = st.value
            kws = {k.arg: k.value for k in c.keywords}
            if not (len(c.args) == 3 and _src(c.args[0]) == v and _src(c.args[2]) in ("(int, float)", "int", "(int,)")
                    and set(kws) <= {"min_val", "include_boundaries"} and "min_val" in kws):
                _bad(f"__setup: check_scalar call of unknown shape: {_src(c)}")
            srcs.append(_src(c))
            m = ex.int(_FloatToInt().visit(kws["min_val"]))
            inc = ast.literal_eval(kws["include_boundaries"]) if "include_boundaries" in kws else "both"
            if inc in ("left", "both"):
                conds.append(f"decide ({m} > v)")          # v < min_val is rejected
            elif inc in ("right", "neither"):
                conds.append(f"decide ({m} ≥ v)")
            else:
                _bad(f"__setup: include_boundaries={inc!r}")
            kinds.add("valueError")                        # sklearn.utils.check_scalar: ValueError for a value out of range
            continue
        if isinstance(st, ast.If) and not st.orelse and len(st.body) == 1 and isinstance(st.body[0], ast.Raise) \
                and st.body[0].exc is not None:
            exc = st.body[0].exc
            ename = _src(exc.func) if isinstance(exc, ast.Call) else _src(exc)
            if ename != "ValueError":
                _bad(f"__setup: a bad batch_size / epochs / max_iter raises `{ename}`")
            kinds.add("valueError")
            srcs.append("if " + _src(st.test) + ": raise ValueError")
            conds.append(ex.bool(_FloatToInt().visit(st.test)))
            continue
        if not _harmless(st, {v}):
            _bad(f"__setup: statement in the validation loop: {_src(st)[:80]}")
    if not conds or kinds != {"valueError"}:
        _bad("__setup: no range check of batch_size / epochs / max_iter found")
    return dict(cond="(" + " || ".join(conds) + ")", src=" ; ".join(srcs))


# ------------------------------------------------------------------------------------------- partial_fit
def lift_partial_fit(fn):
    calls = [n for n in ast.walk(fn) if isinstance(n, ast.Call) and _src(n.func).endswith("train_step")]
    top = [s for s in fn.body if isinstance(s, (ast.Expr, ast.Assign)) and isinstance(s.value, ast.Call)
           and _src(s.value.func) == "self.backendEngine_.train_step"]
    if len(calls) != 1 or len(top) != 1:
        _bad(f"partial_fit: expected exactly one top-level train_step call, found {len(calls)} / {len(top)}")
    c = top[0].value
    if [_src(a) for a in c.args] != ["X", "y", "A"] or c.keywords:
        _bad(f"partial_fit: train_step call of unknown shape: {_src(c)}")
    idx = fn.body.index(top[0])
    val = [s for s in fn.body[:idx] if isinstance(s, ast.Assign) and _src(s.targets[0]) in ("X, y, A", "(X, y, A)")]
    if len(val) != 1 or not _src(val[0].value).startswith("self._validate_input(X, y, sensitive_features"):
        _bad("partial_fit: X, y, A passed to train_step do not come from self._validate_input(X, y, sensitive_features, ..)")
    for st in fn.body[idx + 1:]:
        if not (_is_self_return(st) or _harmless(st, {"X", "y", "A"})):
            _bad(f"partial_fit: statement after train_step: {_src(st)[:80]}")
    if not _is_self_return(fn.body[-1]):
        _bad("partial_fit: does not return self")
    if any(isinstance(n, (ast.For, ast.While)) for n in ast.walk(fn)):
        _bad("partial_fit: contains a loop")
    if any(isinstance(n, ast.Attribute) and n.attr in ("callbacks_", "callbacks") for n in ast.walk(fn)):
        _bad("partial_fit: refers to the callbacks (the pinned source calls none)")
    return 1


# ------------------------------------------------------------------------------------------- predict
CMP = {ast.GtE: "ge", ast.Gt: "gt", ast.LtE: "le", ast.Lt: "lt"}


def lift_predict(cls, tree):
    # threshold_value default
    init = _find_fn(cls, "__init__", REL)
    kd = {a.arg: d for a, d in zip(init.args.kwonlyargs, init.args.kw_defaults)}
    d = kd.get("threshold_value")
    if not (isinstance(d, ast.Constant) and isinstance(d.value, (int, float)) and not isinstance(d.value, bool)):
        _bad("__init__: no numeric default for threshold_value")
    thr = Fraction(str(d.value))
    stores = [s for s in init.body if isinstance(s, ast.Assign) and _src(s.targets[0]) == "self.threshold_value"]
    if len(stores) != 1 or _src(stores[0].value) != "threshold_value":
        _bad("__init__: self.threshold_value is not the constructor argument")

    # binary rule
    fb = normalize.inline_new_temporaries(_find_fn(cls, "_binary_predictor_function", REL),
                                          PINNED_LOCALS["_binary_predictor_function"])
    arg = fb.args.args[1].arg if len(fb.args.args) == 2 else None
    st = [s for s in fb.body if not (isinstance(s, ast.Expr) and isinstance(s.value, ast.Constant))]
    ok = (arg and len(st) == 1 and isinstance(st[0], ast.Return) and isinstance(st[0].value, ast.Call)
          and isinstance(st[0].value.func, ast.Attribute) and st[0].value.func.attr == "astype"
          and _src(st[0].value.args[0]) == "float" and isinstance(st[0].value.func.value, ast.Compare))
    if not ok:
        _bad(f"_binary_predictor_function: unknown shape: {[_src(s) for s in st]}")
    cmpn = st[0].value.func.value
    if len(cmpn.ops) != 1 or type(cmpn.ops[0]) not in CMP:
        _bad(f"_binary_predictor_function: comparison `{_src(cmpn)}`")
    left, right = _src(cmpn.left), _src(cmpn.comparators[0])
    c = CMP[type(cmpn.ops[0])]
    if (left, right) == (arg, "self.threshold_value"):
        pass
    elif (left, right) == ("self.threshold_value", arg):
        c = {"ge": "le", "gt": "lt", "le": "ge", "lt": "gt"}[c]
    else:
        _bad(f"_binary_predictor_function: compares `{left}` with `{right}`")
    binary = (c, _src(st[0].value))

    # keyword dispatch
    fs = _find_fn(cls, "_set_predictor_function", REL)
    chain = None
    for n in ast.walk(fs):
        if isinstance(n, ast.If) and isinstance(n.test, ast.Compare) and _src(n.test.left) == "kw" \
                and isinstance(n.test.ops[0], ast.Eq) and _src(n.test.comparators[0]) == "'binary'":
            chain = n
    if chain is None:
        _bad("_set_predictor_function: keyword dispatch not found")
    rules = {}
    node = chain
    while True:
        kw = ast.literal_eval(node.test.comparators[0])
        rules[kw] = node.body
        if len(node.orelse) == 1 and isinstance(node.orelse[0], ast.If) and _src(node.orelse[0].test.left) == "kw":
            node = node.orelse[0]
        else:
            if not (len(node.orelse) == 1 and isinstance(node.orelse[0], ast.Raise)):
                _bad("_set_predictor_function: dispatch does not end with a raise")
            break
    if set(rules) != {"binary", "multiclass", "continuous"}:
        _bad(f"_set_predictor_function: keywords {sorted(rules)}")

    def target_value(stmts):
        a = [s for s in stmts if isinstance(s, ast.Assign) and _src(s.targets[0]) == "self.predictor_function_"]
        if len(a) != 1:
            _bad("_set_predictor_function: a branch does not assign self.predictor_function_ exactly once")
        return a[0].value
    if _src(target_value(rules["binary"])) != "self._binary_predictor_function" or len(rules["binary"]) != 1:
        _bad("_set_predictor_function: 'binary' is not self._binary_predictor_function")
    cv = target_value(rules["continuous"])
    if not (isinstance(cv, ast.Lambda) and len(cv.args.args) == 1 and _src(cv.body) == cv.args.args[0].arg
            and len(rules["continuous"]) == 1):
        _bad(f"_set_predictor_function: 'continuous' is not the identity: {_src(cv)}")
    mv = target_value(rules["multiclass"])
    defs = [s for s in rules["multiclass"] if isinstance(s, ast.FunctionDef)]
    if not (isinstance(mv, ast.Name) and len(defs) == 1 and defs[0].name == mv.id and len(defs[0].args.args) == 1
            and len(rules["multiclass"]) == 2):
        _bad("_set_predictor_function: 'multiclass' is not a local function")
    multi = lift_onehot_argmax(defs[0], tree)

    # predict pipeline
    fp = _find_fn(cls, "predict", REL)
    st = [s for s in fp.body if not (isinstance(s, ast.Expr) and isinstance(s.value, ast.Constant))]
    stages = []
    var = "X"
    STAGE = {"self._raw_predict": "rawPredict", "self.predictor_function_": "predictorFunction",
             "self._y_transform.inverse_transform": "inverseTransform"}

    def consume(e, what):
        """`f3(f2(f1(<previous stage>)))` -> the stages f1, f2, f3 (innermost first)"""
        chain = []
        while isinstance(e, ast.Call):
            if len(e.args) != 1 or e.keywords or isinstance(e.args[0], ast.Starred):
                _bad(f"predict: statement of unknown shape: {what}")
            chain.append(_src(e.func))
            e = e.args[0]
        if _src(e) != var:
            _bad(f"predict: `{what}` does not consume the previous stage")
        for f in reversed(chain):
            if f not in STAGE:
                _bad(f"predict: unknown stage `{f}`")
            stages.append(STAGE[f])

    for s in st[:-1]:
        if not (isinstance(s, ast.Assign) and len(s.targets) == 1 and isinstance(s.targets[0], ast.Name)
                and isinstance(s.value, ast.Call)):
            _bad(f"predict: statement of unknown shape: {_src(s)}")
        consume(s.value, _src(s))
        var = s.targets[0].id
    if not (st and isinstance(st[-1], ast.Return) and st[-1].value is not None):
        _bad("predict: does not return the last stage")
    consume(st[-1].value, _src(st[-1]))
    return dict(threshold=thr, binary=binary, multi=multi, stages=stages)


def lift_onehot_argmax(fn, tree):
    """def loss(pred): shape = pred.shape; c = argmax(pred, axis=1); b = zeros(shape, dtype=float); a = arange(shape[0]);
    b[a, c] = 1; return b"""
    p = fn.args.args[0].arg
    env = {}
    ret = None
    setitem = None
    for s in fn.body:
        if isinstance(s, ast.Assign) and len(s.targets) == 1 and isinstance(s.targets[0], ast.Name):
            env[s.targets[0].id] = s.value
        elif isinstance(s, ast.Assign) and len(s.targets) == 1 and isinstance(s.targets[0], ast.Subscript):
            if setitem is not None:
                _bad("multiclass rule: two item assignments")
            setitem = s
        elif isinstance(s, ast.Return):
            ret = s.value
        else:
            _bad(f"multiclass rule: statement of unknown shape: {_src(s)}")
    if setitem is None or ret is None:
        _bad("multiclass rule: no item assignment / return")
    t = setitem.targets[0]
    if not (isinstance(t.value, ast.Name) and _src(ret) == t.value.id and isinstance(t.slice, ast.Tuple)
            and len(t.slice.elts) == 2 and all(isinstance(e, ast.Name) for e in t.slice.elts)
            and _src(setitem.value) in ("1", "1.0")):
        _bad(f"multiclass rule: item assignment of unknown shape: {_src(setitem)}")
    out, rows, cols = t.value.id, t.slice.elts[0].id, t.slice.elts[1].id

    def resolve(name):
        return env.get(name)
    shape_ok = lambda e: e is not None and (_src(e) == f"{p}.shape" or (isinstance(e, ast.Name) and resolve(e.id) is not None  # noqa: E731
                                                                     and _src(resolve(e.id)) == f"{p}.shape"))
    z = resolve(out)
    if not (isinstance(z, ast.Call) and _src(z.func) in ("zeros", "numpy.zeros", "np.zeros") and z.args and shape_ok(z.args[0])):
        _bad(f"multiclass rule: `{out}` is not zeros(pred.shape): {_src(z) if z is not None else None}")
    r = resolve(rows)
    def n_rows(e):
        if _src(e) == f"len({p})":
            return True
        return (isinstance(e, ast.Subscript) and isinstance(e.slice, ast.Constant) and e.slice.value == 0
                and not isinstance(e.slice.value, bool) and shape_ok(e.value))
    if not (isinstance(r, ast.Call) and _src(r.func) in ("arange", "numpy.arange", "np.arange") and len(r.args) == 1
            and not r.keywords and n_rows(r.args[0])):
        _bad(f"multiclass rule: row index is not arange(number of rows): {_src(r) if r is not None else None}")
    c = resolve(cols)
    if not (isinstance(c, ast.Call) and _src(c.func) in ("argmax", "argmin", "numpy.argmax", "np.argmax", "numpy.argmin", "np.argmin")
            and len(c.args) == 1 and _src(c.args[0]) == p and len(c.keywords) == 1 and c.keywords[0].arg == "axis"
            and _src(c.keywords[0].value) in ("1", "-1")):
        _bad(f"multiclass rule: column index is not argmax(pred, axis=1): {_src(c) if c is not None else None}")
    fname = _src(c.func).split(".")[-1]
    # argmax must be numpy's (first maximal entry)
    if "." not in _src(c.func):
        imp = [a for n in tree.body if isinstance(n, ast.ImportFrom) and n.module == "numpy" for a in n.names
               if (a.asname or a.name) == fname and a.name == fname]
        if not imp:
            _bad(f"multiclass rule: `{fname}` is not imported from numpy")
    return ("argmaxRow" if fname == "argmax" else "argminRow", _src(c))


def lift_inverse(repo):
    with open(os.path.join(repo, REL_PRE)) as f:
        tree = normalize.parse(f.read())
    cls = _find_class(tree, "FloatTransformer", REL_PRE)
    fn = _find_fn(cls, "inverse_transform", REL_PRE)
    arg = fn.args.args[1].arg
    src = " ; ".join(_src(s) for s in fn.body if not (isinstance(s, ast.Expr) and isinstance(s.value, ast.Constant)))
    # the continuous branch returns its argument unchanged; the other branch delegates to the fitted encoder
    found_identity = found_encoder = False
    inv = "inverse"
    for n in ast.walk(fn):
        if isinstance(n, ast.If) and _src(n.test) == "self.inferred_type_ == 'continuous'":
            b0 = n.body[0] if len(n.body) == 1 else None
            if isinstance(b0, ast.Assign) and len(b0.targets) == 1 and isinstance(b0.targets[0], ast.Name) \
                    and b0.targets[0].id not in (arg, "self"):
                inv = b0.targets[0].id
            found_identity = (len(n.body) == 1 and _src(n.body[0]) == f"{inv} = {arg}")
            found_encoder = (len(n.orelse) == 1 and _src(n.orelse[0]) == f"{inv} = self.transform_.inverse_transform({arg})")
    ret = [s for s in fn.body if isinstance(s, ast.Return)]
    if not (found_identity and found_encoder and len(ret) == 1
            and _src(ret[0].value) == f"{inv}.reshape(-1) if self.input_dim_ == 1 else {inv}"):
        _bad(f"FloatTransformer.inverse_transform: unknown shape: {src[:200]}")
    # the encoder: OneHotEncoder(drop='if_binary', handle_unknown='error', ...)
    fit = _find_fn(cls, "fit", REL_PRE)
    enc = [n for n in ast.walk(fit) if isinstance(n, ast.Call) and _src(n.func) == "OneHotEncoder"]
    if len(enc) != 1:
        _bad("FloatTransformer.fit: expected one OneHotEncoder(...)")
    kws = {k.arg: _src(k.value) for k in enc[0].keywords if k.arg}
    if kws.get("drop") != "'if_binary'" or kws.get("handle_unknown") != "'error'" or "categories" in kws:
        _bad(f"FloatTransformer.fit: OneHotEncoder arguments {kws}")
    return True



# ------------------------------------------------------------------------------------------- life cycle
def _boolx(node, atoms, what):
    """not / and / or over named atoms (source text -> Lean name)"""
    key = _src(node)
    if key in atoms:
        return atoms[key]
    if isinstance(node, ast.UnaryOp) and isinstance(node.op, ast.Not):
        return f"(!{_boolx(node.operand, atoms, what)})"
    if isinstance(node, ast.BoolOp):
        op = " && " if isinstance(node.op, ast.And) else " || "
        return "(" + op.join(_boolx(v, atoms, what) for v in node.values) + ")"
    _bad(f"{what}: cannot translate condition `{key}`")


def _nodoc(body):
    return [s for s in body if not (isinstance(s, ast.Expr) and isinstance(s.value, ast.Constant) and isinstance(s.value.value, str))]


def lift_lifecycle(cls):
    """which latches decide about (re-)initialisation in fit / partial_fit / _validate_input / predict"""
    HAS = "hasattr(self, 'classes_')"
    fit = normalize.inline_new_temporaries(_find_fn(cls, "fit", REL), PINNED_LOCALS["fit"])
    pfit = normalize.inline_new_temporaries(_find_fn(cls, "partial_fit", REL), PINNED_LOCALS["partial_fit"])
    val = _find_fn(cls, "_validate_input", REL)
    params = [a.arg for a in val.args.args]
    if params[:4] != ["self", "X", "y", "A"] or len(params) != 5:
        _bad(f"_validate_input: parameters {params}")
    rparam = params[4]
    raw = _find_fn(cls, "_raw_predict", REL)

    def validate_call(fn, what):
        calls = [(i, s) for i, s in enumerate(fn.body) if isinstance(s, ast.Assign) and isinstance(s.value, ast.Call)
                 and _src(s.value.func) == "self._validate_input"]
        if len(calls) != 1 or sum(1 for n in ast.walk(fn) if isinstance(n, ast.Call) and _src(n.func) == "self._validate_input") != 1:
            _bad(f"{what}: expected exactly one top-level self._validate_input call")
        i, st = calls[0]
        a = list(st.value.args)
        kws = {k.arg: k.value for k in st.value.keywords}
        if len(a) == 3 and set(kws) == {rparam} and len(st.value.keywords) == 1:
            a.append(kws[rparam])                      # the flag passed by keyword
        elif st.value.keywords:
            a = []
        if len(a) != 4 or [_src(x) for x in a[:3]] != ["X", "y", "sensitive_features"]:
            _bad(f"{what}: _validate_input call of unknown shape: {_src(st)}")
        return i, (a[3].id if isinstance(a[3], ast.Name) else a[3])

    def local_bool(fn, name, upto, atoms, what):
        if not isinstance(name, str):                  # the rule written in the call itself
            return upto, _boolx(name, atoms, what), f"{rparam} = {_src(name)}"
        d = [(i, s) for i, s in enumerate(fn.body[:upto]) if isinstance(s, ast.Assign) and len(s.targets) == 1
             and _src(s.targets[0]) == name]
        if len(d) != 1 or any(name in _assigned(s) for j, s in enumerate(fn.body) if j != d[0][0]):
            _bad(f"{what}: `{name}` must be assigned exactly once, before _validate_input")
        return d[0][0], _boolx(d[0][1].value, atoms, what), _src(d[0][1])

    # fit
    iv, rname = validate_call(fit, "fit")
    _, fit_reinit, fit_src = local_bool(fit, rname, iv, {HAS: "has_classes", "self.warm_start": "warm_start"}, "fit")
    guards = [i for i, s in enumerate(fit.body) if isinstance(s, ast.If) and len(s.body) == 1 and isinstance(s.body[0], ast.Raise)
              and ({"self.epochs", "self.max_iter"} & {_src(n) for n in ast.walk(s.test)})]
    if len(guards) != 1:
        _bad("fit: rejection guard not found")
    validates_first = iv < guards[0]
    # partial_fit
    ip, fname = validate_call(pfit, "partial_fit")
    if not isinstance(fname, str):
        _bad("partial_fit: the first-call flag is not a local")
    i_fc, pf_first, pf_src = local_bool(pfit, fname, ip, {HAS: "has_classes"}, "partial_fit")
    sets = [(i, s) for i, s in enumerate(pfit.body) if "self.classes_" in _assigned(s)]
    if len(sets) != 1:
        _bad(f"partial_fit: expected exactly one statement assigning self.classes_, found {len(sets)}")
    i_sc, sc = sets[0]
    ok = (isinstance(sc, ast.If) and not sc.orelse and len(sc.body) == 1 and _src(sc.body[0]) == "self.classes_ = classes"
          and i_fc < i_sc < ip)
    if not ok:
        _bad(f"partial_fit: classes_ assignment of unknown shape / position: {_src(sc)[:80]}")
    pf_sets = _boolx(sc.test, {fname: "first_call", "classes is not None": "classes_given"}, "partial_fit/classes_")
    # _validate_input
    tries = [s for s in val.body if isinstance(s, ast.Try)]
    flag = None
    if len(tries) == 1 and len(tries[0].handlers) == 1 and not tries[0].finalbody \
            and tries[0].handlers[0].type is not None and _src(tries[0].handlers[0].type) == "NotFittedError":
        t = tries[0]
        ok_body = t.body + t.orelse            # `flag = True` may stand in the try body or in its `else:` (nothing can raise between)
        hb = t.handlers[0].body
        if len(ok_body) == 2 and _src(ok_body[0]) == "check_is_fitted(self)" and len(t.body) >= 1 and len(hb) == 1 \
                and isinstance(ok_body[1], ast.Assign) and len(ok_body[1].targets) == 1 and isinstance(ok_body[1].targets[0], ast.Name) \
                and _src(ok_body[1].value) == "True" and _src(hb[0]) == f"{ok_body[1].targets[0].id} = False":
            flag = ok_body[1].targets[0].id
    if flag is None or flag in params or sum(1 for n in ast.walk(val) if isinstance(n, ast.Name) and n.id == flag
                                             and not isinstance(n.ctx, ast.Load)) != 2:
        _bad("_validate_input: the is_fitted probe is not `try: check_is_fitted(self); is_fitted = True / except NotFittedError: is_fitted = False`")
    setups = [(i, s) for i, s in enumerate(val.body) if isinstance(s, ast.If) and not s.orelse and len(s.body) == 1
              and _src(s.body[0]) == "self.__setup(X, y, A)"]
    n_setup_calls = sum(1 for n in ast.walk(cls) if isinstance(n, ast.Call) and _src(n.func) == "self.__setup")
    if len(setups) != 1 or n_setup_calls != 1 or setups[0][0] < val.body.index(tries[0]):
        _bad(f"_validate_input: expected exactly one `if ...: self.__setup(X, y, A)` after the is_fitted probe ({n_setup_calls} calls in the class)")
    setup_when = _boolx(setups[0][1].test, {flag: "is_fitted", rparam: "reinitialize"}, "_validate_input/setup")
    latch = [(i, s) for i, s in enumerate(val.body) if isinstance(s, ast.If) and _src(s.test) == f"not {HAS}"]
    if len(latch) != 1 or latch[0][0] < setups[0][0] or [_src(x) for x in latch[0][1].body] != ["self.classes_ = unique(y)"]:
        _bad("_validate_input: `if not hasattr(self, 'classes_'): self.classes_ = unique(y)` not found after the setup")
    # the fitted latch
    isf = _find_fn(cls, "__sklearn_is_fitted__", REL)
    b = _nodoc(isf.body)
    if len(b) != 1 or _src(b[0]) != "return hasattr(self, '_is_setup')":
        _bad(f"__sklearn_is_fitted__: {[_src(x) for x in b]}")
    setup = _find_fn(cls, "__setup", REL)
    writes = [n for n in ast.walk(cls) if isinstance(n, (ast.Assign, ast.AugAssign, ast.Delete)) and "self._is_setup" in _src(n)]
    if _src(setup.body[-1]) != "self._is_setup = True" or len(writes) != 1:
        _bad("__setup does not end with `self._is_setup = True` / the latch is written elsewhere")
    rb = _nodoc(raw.body)
    checks = _src(rb[0]) == "check_is_fitted(self)" if rb else False
    return dict(fitReinit=(fit_reinit, fit_src), validatesFirst=validates_first, pfFirst=(pf_first, pf_src),
                pfSets=(pf_sets, _src(sc).replace("\n", " ")), setupWhen=(setup_when, _src(setups[0][1].test)), predictChecks=checks)


# ------------------------------------------------------------------------------------------- emission
def _doc(s):
    return s.replace("-/", "- /").replace("\n", " ")


@translate.lifter
def adv_schedule(repo):
    with open(os.path.join(repo, REL)) as f:
        tree = normalize.parse(f.read())
    cls = _find_class(tree, CLS, REL)
    r = lift_fit(_find_fn(cls, "fit", REL))
    npf = lift_partial_fit(_find_fn(cls, "partial_fit", REL))
    p = lift_predict(cls, tree)
    lift_inverse(repo)
    lc = lift_lifecycle(cls)
    pv = lift_param_validation(_find_fn(cls, "__setup", REL))
    cb = r["cb"]
    o = ["/-", f"GENERATED by harness/lifters/adv_schedule.py from {REL}", f"and {REL_PRE}. Do not edit.",
         "Roles of the locals in `fit`: " + ", ".join(f"{k}=`{v}`" for k, v in sorted(PINNED_ROLES.items())), "-/",
         "import FairModel.Model.SchedCfg", "", "set_option linter.unusedVariables false", "", "namespace AdvScheduleSrc", "open SchedCfg", ""]

    def d(name, params, ty, expr, src):
        pin = PINNED_DEFS.get(name)
        if pin is not None and normalize.lean_prefer(expr, [pin[0]]) == pin[0]:
            expr, src = pin
        elif pin is not None and name in BOOL_DEFS and _truth_table(expr, BOOL_DEFS[name]) is not None \
                and _truth_table(expr, BOOL_DEFS[name]) == _truth_table(pin[0], BOOL_DEFS[name]):
            expr, src = pin
        o.extend([f"/-- `{_doc(src)}` -/", f"def {name} {params} : {ty} := {expr}", ""])

    d("rejects", "(self_epochs self_max_iter : Int)", "Bool", r["rejects"][0], "if " + r["rejects"][1] + ": raise ValueError")
    d("batchSize", "(self_batch_size n : Int)", "Int", *r["batchSize"])
    d("batches", "(n batch_size : Int)", "Int", *r["batches"])
    d("epochs", "(self_epochs self_max_iter batches : Int)", "Int", *r["epochs"])
    d("nIterInit", "", "Int", *r["nIterInit"])
    d("sliceLo", "(batch batch_size n : Int)", "Int", r["sliceLo"][0], "slice(" + r["sliceLo"][1] + ", ..)")
    d("sliceHi", "(batch batch_size n : Int)", "Int", r["sliceHi"][0], "slice(.., " + r["sliceHi"][1] + ")")
    d("incIter", "(n_iter : Int)", "Int", *r["incIter"])
    d("hitMax", "(self_max_iter n_iter : Int)", "Bool", r["hitMax"][0], "if " + r["hitMax"][2] + ": ...")
    d("exitMax", "", "Exit", "." + r["hitMax"][1], "the statement under the max_iter test")
    d("stopInit", "", "Bool", cb["stopInit"], "flag before the callback loop")
    d("stopAcc", "", "Acc", "." + cb["acc"][0], cb["acc"][1])
    d("cbStep", "(n_iter : Int)", "Int", cb["step"][0], "cb(self, step=" + cb["step"][1] + ", ...)")
    d("exitStop", "", "Exit", "." + cb["exit"], "the statement under `if <flag>:` after the callback loop")
    d("body", "", "List Ev", "[" + ", ".join("." + e for e in r["body"]) + "]",
      "order of train_step / n_iter_ update / max_iter test / callback block in the batch loop")
    o += ["/-- the lifted configuration of `fit`; loops are `for epoch in range(epochs): for batch in range(batches):` -/",
          "def cfg : Cfg where", "  rejects := rejects", "  batchSize := batchSize", "  batches := batches", "  epochs := epochs",
          "  nIterInit := nIterInit", "  sliceLo := sliceLo", "  sliceHi := sliceHi", "  incIter := incIter", "  hitMax := hitMax",
          "  exitMax := exitMax", "  stopInit := stopInit", "  stopAcc := stopAcc", "  cbStep := cbStep", "  exitStop := exitStop",
          "  body := body", ""]
    d("cbGuard", "", "CbGuard", "." + cb["guard"][0], cb["guard"][1] + " around the callback block of fit")
    d("cbResultCheck", "", "ResultCheck", cb["check"][0], cb["check"][1])
    d("partialFitCallbackCalls", "", "Nat", "0", "partial_fit does not mention self.callbacks_")
    d("paramRejected", "(v : Int)", "Bool", pv["cond"], "__setup, for batch_size / epochs / max_iter: " + pv["src"])
    d("paramRejectedExc", "", "ExcKind", ".valueError", "the exception of the range checks on batch_size / epochs / max_iter")
    d("shuffleAt", "", "ShuffleAt", "." + r["shuffleAt"], "position of `X, y, A = self.backendEngine_.shuffle(X, y, A)`")
    d("shuffleGuarded", "", "Bool", "true" if r["shuffleGuarded"] else "false", "the shuffle stands under `if self.shuffle:`")
    d("partialFitTrainSteps", "", "Nat", str(npf),
      "partial_fit: X, y, A = self._validate_input(X, y, sensitive_features, first_call); self.backendEngine_.train_step(X, y, A)")
    thr = p["threshold"]
    d("thresholdDefault", "", "Rat", f"(({thr.numerator} : Rat) / {thr.denominator})", f"threshold_value={float(thr)!r} in __init__")
    d("binaryRule", "", "Decision", f".threshold .{p['binary'][0]}", p["binary"][1])
    d("multiclassRule", "", "Decision", "." + p["multi"][0], p["multi"][1] + "; b[a, c] = 1")
    d("continuousRule", "", "Decision", ".identity", "lambda pred: pred")
    d("predictStages", "", "List Stage", "[" + ", ".join("." + s for s in p["stages"]) + "]", "predict")
    d("fitReinit", "(has_classes warm_start : Bool)", "Bool", lc["fitReinit"][0], "fit: " + lc["fitReinit"][1])
    d("fitValidatesBeforeReject", "", "Bool", "true" if lc["validatesFirst"] else "false",
      "fit: self._validate_input(..) (which may set the estimator up) stands before the epochs / max_iter rejection")
    d("partialFitFirstCall", "(has_classes : Bool)", "Bool", lc["pfFirst"][0], "partial_fit: " + lc["pfFirst"][1])
    d("partialFitSetsClasses", "(first_call classes_given : Bool)", "Bool", lc["pfSets"][0], "partial_fit: " + lc["pfSets"][1])
    d("setupWhen", "(is_fitted reinitialize : Bool)", "Bool", lc["setupWhen"][0],
      "_validate_input: if " + lc["setupWhen"][1] + ": self.__setup(X, y, A)  (is_fitted = hasattr(self, '_is_setup'), set at the end of __setup)")
    d("rawPredictChecksFitted", "", "Bool", "true" if lc["predictChecks"] else "false", "_raw_predict starts with check_is_fitted(self)")
    o += ["end AdvScheduleSrc", ""]
    meta = dict(body=r["body"], acc=cb["acc"][0], binary=p["binary"][0], multi=p["multi"][0], shuffle=r["shuffleAt"],
                roles=r["roles"])
    return "AdvScheduleSrc.lean", "\n".join(o), meta
