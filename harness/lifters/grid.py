"""Lifter for GridSearch (C09): the lattice recursion, the `while True` growth loop, the scaling / clipping /
basis map of `fairlearn/reductions/_grid_search/_grid_generator.py` and the relabelling, trade-off loss, arg-min
and delegation expressions of `fairlearn/reductions/_grid_search/grid_search.py`
->  lean/FairModel/Generated/GridSrc.lean.

Every fragment is located by its SHAPE in the Python `ast` (roles of local variables are resolved through the
function parameters / loop targets / the single assignment that defines them, so renaming a local or reordering
independent statements does not matter) and translated expression by expression over a small typed expression
language (Int / Rat / Bool, `+ - * /`, unary minus, comparisons, and/or/not, conditional expressions, list
literals, `range`, `abs`, `float`, `len`).  Anything else raises `Untranslatable` (a broken tie).

`Model/Grid.lean` defines the recursion skeleton, the search loop, the grid and the selection OVER the generated
definitions; `Lemmas/Grid.lean` proves that they coincide with the closed forms the C09 theorems are about, so an
edit of any lifted expression either re-proves or breaks the C09 theorems.

What is verified structurally (refused when different) rather than emitted:
  * `accumulate_integer_grid`: `if <atEnd>: self.accumulator.append(self.entry.copy())` / else: values chosen by
    `if <lastForced>: (if <c>: values = [...] else: values = [...]) else: (min_val = ...; values = range(...))`,
    then `for v in values: self.entry[index] = v; self.accumulate_integer_grid(<next index>, <budget>)`;
  * `build_integer_grid`: fresh `self.entry`, `self.accumulator = []`, `self.accumulate_integer_grid(<start>, n_units)`,
    `return self.accumulator`;
  * `__init__`: `while True:` { int_grid = self.build_integer_grid(n); if <enough>: {...; break}; n = <next n> },
    the order "neg_coefs is computed from pos_coefs BEFORE pos_coefs is clipped", the pairing
    `pos_basis.dot(pos_coefs) + neg_basis.dot(neg_coefs)`, `.add(self.grid_offset, axis="index")`;
    the initial estimate `(float(grid_size) / (B ** neg_allowed.sum())) ** (1.0 / true_dim) - C`, `int(np.floor(.))`,
    clip below at 0;
  * `GridSearch.fit`: the argument order of the `_GridGenerator(...)` call, `for i in grid.columns: lambda_vec = grid[i]`,
    `weights = self.constraints.signed_weights(lambda_vec)`, the list comprehension of `loss_fct` over
    `range(len(self.objectives_))`; `predict` / `predict_proba` delegate to `self.predictors_[self.best_idx_]`.
"""
import ast
import os
from fractions import Fraction

from .. import translate

GEN_FILE = "fairlearn/reductions/_grid_search/_grid_generator.py"
GS_FILE = "fairlearn/reductions/_grid_search/grid_search.py"


def U(msg):
    return translate.Untranslatable("grid lifter: " + msg)


def rat_lit(q):
    q = Fraction(q)
    if q.denominator == 1:
        return f"({q.numerator} : Rat)"
    return f"(({q.numerator} : Rat) / {q.denominator})"


class Expr:
    """typed translation; `env` maps `ast.unparse` text of a sub-expression to (lean term, type)"""

    def __init__(self, env, src):
        self.env, self.src = env, src

    def tr(self, node):
        key = ast.unparse(node)
        if key in self.env:
            return self.env[key]
        if isinstance(node, ast.Constant) and isinstance(node.value, bool):
            return ("true" if node.value else "false", "Bool")
        if isinstance(node, ast.Constant) and isinstance(node.value, int):
            return (f"({node.value} : Int)", "Int")
        if isinstance(node, ast.Constant) and isinstance(node.value, float):
            text = ast.get_source_segment(self.src, node) or repr(node.value)
            return (rat_lit(Fraction(text)), "Rat")
        if isinstance(node, ast.UnaryOp) and isinstance(node.op, ast.USub):
            a, t = self.tr(node.operand)
            if t not in ("Int", "Rat"):
                raise U(f"unary minus on {t} in {key}")
            return (f"(-{a})", t)
        if isinstance(node, ast.UnaryOp) and isinstance(node.op, ast.Not):
            a, t = self.tr(node.operand)
            if t != "Bool":
                raise U(f"`not` on {t} in {key}")
            return (f"(!{a})", "Bool")
        if isinstance(node, ast.BinOp) and isinstance(node.op, (ast.Add, ast.Sub, ast.Mult, ast.Div)):
            a, ta = self.tr(node.left)
            b, tb = self.tr(node.right)
            # `1 * (weights > 0)`: a boolean used as a number
            if ta == "Bool":
                a, ta = f"(if {a} then (1 : Int) else 0)", "Int"
            if tb == "Bool":
                b, tb = f"(if {b} then (1 : Int) else 0)", "Int"
            t = "Rat" if (isinstance(node.op, ast.Div) or "Rat" in (ta, tb)) else "Int"
            a, b = self.cast(a, ta, t), self.cast(b, tb, t)
            op = {ast.Add: "+", ast.Sub: "-", ast.Mult: "*", ast.Div: "/"}[type(node.op)]
            return (f"({a} {op} {b})", t)
        if isinstance(node, ast.Compare) and len(node.ops) == 1:
            a, ta = self.tr(node.left)
            b, tb = self.tr(node.comparators[0])
            if ta == "Bool" or tb == "Bool":
                raise U(f"comparison of booleans in {key}")
            t = "Rat" if "Rat" in (ta, tb) else "Int"
            a, b = self.cast(a, ta, t), self.cast(b, tb, t)
            ops = {ast.Lt: "<", ast.LtE: "≤", ast.Gt: ">", ast.GtE: "≥", ast.Eq: "=", ast.NotEq: "≠"}
            if type(node.ops[0]) not in ops:
                raise U(f"comparison operator in {key}")
            return (f"decide ({a} {ops[type(node.ops[0])]} {b})", "Bool")
        if isinstance(node, ast.BoolOp):
            parts = [self.tr(v) for v in node.values]
            if any(t != "Bool" for _, t in parts):
                raise U(f"non-boolean operand in {key}")
            op = " && " if isinstance(node.op, ast.And) else " || "
            return ("(" + op.join(p for p, _ in parts) + ")", "Bool")
        if isinstance(node, ast.IfExp):
            c, tc = self.tr(node.test)
            a, ta = self.tr(node.body)
            b, tb = self.tr(node.orelse)
            if tc != "Bool" or "Bool" in (ta, tb) or ta.startswith("List") or tb.startswith("List"):
                raise U(f"conditional expression {key}")
            t = "Rat" if "Rat" in (ta, tb) else "Int"
            return (f"(if {c} then {self.cast(a, ta, t)} else {self.cast(b, tb, t)})", t)
        if isinstance(node, ast.List):
            parts = [self.tr(e) for e in node.elts]
            if any(t != "Int" for _, t in parts):
                raise U(f"list literal with non-integer entries: {key}")
            return ("[" + ", ".join(p for p, _ in parts) + "]", "List Int")
        if isinstance(node, ast.Call) and isinstance(node.func, ast.Name) and not node.keywords:
            fn, args = node.func.id, node.args
            if fn == "range" and len(args) in (1, 2):
                parts = [self.tr(a) for a in args]
                if any(t != "Int" for _, t in parts):
                    raise U(f"range over non-integers: {key}")
                lo = parts[0][0] if len(args) == 2 else "(0 : Int)"
                return (f"(pyRange {lo} {parts[-1][0]})", "List Int")
            if fn == "abs" and len(args) == 1:
                a, t = self.tr(args[0])
                if t == "Int":
                    return (f"(pyAbs {a})", "Int")
                if t == "Rat":
                    return (f"(ratAbs {a})", "Rat")
            if fn == "float" and len(args) == 1:
                a, t = self.tr(args[0])
                if t in ("Int", "Rat"):
                    return (self.cast(a, t, "Rat"), "Rat")
        raise U(f"expression of unknown shape: {key}")

    @staticmethod
    def cast(a, ta, t):
        if ta == t:
            return a
        if ta == "Int" and t == "Rat":
            return f"(({a} : Int) : Rat)"
        raise U(f"cannot use {ta} as {t}: {a}")


# ------------------------------------------------------------------------------------------------ ast helpers
def find_func(tree, cls, name):
    for node in ast.walk(tree):
        if isinstance(node, ast.ClassDef) and node.name == cls:
            for f in node.body:
                if isinstance(f, ast.FunctionDef) and f.name == name:
                    return f
    raise U(f"{cls}.{name} not found")


def one(items, what):
    items = list(items)
    if len(items) != 1:
        raise U(f"expected exactly one {what}, found {len(items)}")
    return items[0]


def strip_docs(body):
    """drop docstrings / bare string expressions and logger calls (no effect on the computation)"""
    out = []
    for n in body:
        if isinstance(n, ast.Expr) and isinstance(n.value, ast.Constant):
            continue
        if isinstance(n, ast.Expr) and isinstance(n.value, ast.Call) and ast.unparse(n.value.func).startswith("logger."):
            continue
        out.append(n)
    return out


def params(fn):
    if fn.args.vararg or fn.args.kwonlyargs or fn.args.posonlyargs:
        raise U(f"{fn.name}: unexpected parameter kinds")
    return [a.arg for a in fn.args.args]


def is_self_attr(n, attr=None):
    return (isinstance(n, ast.Attribute) and isinstance(n.value, ast.Name) and n.value.id == "self"
            and (attr is None or n.attr == attr))


def assign_to(node, name=None):
    """single-target assignment to a plain local name -> (name, value) or None"""
    if isinstance(node, ast.Assign) and len(node.targets) == 1 and isinstance(node.targets[0], ast.Name):
        if name is None or node.targets[0].id == name:
            return node.targets[0].id, node.value
    return None


def values_assign(stmts, what):
    """[`values = <expr>`] -> (name, expr)"""
    if len(stmts) != 1 or assign_to(stmts[0]) is None:
        raise U(f"{what}: expected a single assignment, got {[ast.unparse(s) for s in stmts]}")
    return assign_to(stmts[0])


# ------------------------------------------------------------------------------------------------ _grid_generator.py
def lift_accumulate(tree, src, out, meta):
    fn = find_func(tree, "_GridGenerator", "accumulate_integer_grid")
    ps = params(fn)
    if len(ps) != 3 or ps[0] != "self":
        raise U(f"accumulate_integer_grid parameters {ps}")
    p_index, p_max = ps[1], ps[2]
    body = strip_docs(fn.body)
    top = one(body, "statement (the if/else) in accumulate_integer_grid")
    if not isinstance(top, ast.If) or not top.orelse:
        raise U("accumulate_integer_grid is not `if <base case>: ... else: ...`")
    env0 = {p_index: ("index", "Int"), p_max: ("maxVal", "Int"), "self.dim": ("dim", "Int"),
            "self.force_L1_norm": ("force", "Bool"), f"self.neg_allowed[{p_index}]": ("neg", "Bool")}
    ex = Expr(env0, src)
    # base case
    at_end, t = ex.tr(top.test)
    if t != "Bool":
        raise U("base-case test is not boolean")
    base = strip_docs(top.body)
    if [ast.unparse(s) for s in base] != ["self.accumulator.append(self.entry.copy())"]:
        raise U(f"base case is not `self.accumulator.append(self.entry.copy())`: {[ast.unparse(s) for s in base]}")
    meta["atEnd"] = ast.unparse(top.test)
    # recursive case
    rec = strip_docs(top.orelse)
    if len(rec) != 2 or not isinstance(rec[0], ast.If) or not isinstance(rec[1], ast.For) or not rec[0].orelse:
        raise U("recursive case is not `if <last coordinate and forced>: ... else: ...` followed by a `for` loop")
    sel, loop = rec
    last_forced, t = ex.tr(sel.test)
    if t != "Bool":
        raise U("last-coordinate test is not boolean")
    meta["lastForced"] = ast.unparse(sel.test)
    # last-coordinate rule: if c: values = A else: values = B   (or a single assignment)
    lb = strip_docs(sel.body)
    if len(lb) == 1 and isinstance(lb[0], ast.If) and lb[0].orelse:
        c, tc = ex.tr(lb[0].test)
        n1, a = values_assign(strip_docs(lb[0].body), "last-coordinate rule (then)")
        n2, b = values_assign(strip_docs(lb[0].orelse), "last-coordinate rule (else)")
        if n1 != n2 or tc != "Bool":
            raise U("last-coordinate rule assigns different names")
        (ta, tta), (tb, ttb) = ex.tr(a), ex.tr(b)
        if tta != "List Int" or ttb != "List Int":
            raise U("last-coordinate values are not integer lists")
        last_vals = f"if {c} then {ta} else {tb}"
        vname = n1
        meta["lastValues"] = f"{ast.unparse(a)} if {ast.unparse(lb[0].test)} else {ast.unparse(b)}"
    else:
        vname, a = values_assign(lb, "last-coordinate rule")
        ta, tta = ex.tr(a)
        if tta != "List Int":
            raise U("last-coordinate values are not an integer list")
        last_vals = ta
        meta["lastValues"] = ast.unparse(a)
    # general range: [min_val = e;] values = range(...)
    gb = strip_docs(sel.orelse)
    if not gb or assign_to(gb[-1], vname) is None:
        raise U(f"general case does not end with an assignment to `{vname}`")
    env1 = dict(env0)
    locals_txt = []
    for s in gb[:-1]:
        a_ = assign_to(s)
        if a_ is None:
            raise U(f"general case: unexpected statement {ast.unparse(s)}")
        term, ty = Expr(env1, src).tr(a_[1])
        if ty != "Int":
            raise U(f"local {a_[0]} is not an integer expression")
        env1[a_[0]] = (term, ty)     # inline the local (its name does not matter)
        locals_txt.append(ast.unparse(s))
    rng_term, ty = Expr(env1, src).tr(assign_to(gb[-1], vname)[1])
    if ty != "List Int":
        raise U("general values are not an integer list")
    meta["rangeValues"] = "; ".join(locals_txt + [ast.unparse(gb[-1])])
    # loop: for v in values: self.entry[index] = v ; self.accumulate_integer_grid(next, budget)
    if not (isinstance(loop.iter, ast.Name) and loop.iter.id == vname and isinstance(loop.target, ast.Name) and not loop.orelse):
        raise U(f"loop is not `for <v> in {vname}:`")
    cur = loop.target.id
    lbody = strip_docs(loop.body)
    if len(lbody) != 2:
        raise U(f"loop body has {len(lbody)} statements, expected 2")
    st, call = lbody
    if not (isinstance(st, ast.Assign) and ast.unparse(st.targets[0]) == f"self.entry[{p_index}]"
            and isinstance(st.value, ast.Name) and st.value.id == cur):
        raise U(f"loop body does not start with `self.entry[{p_index}] = {cur}`: {ast.unparse(st)}")
    if not (isinstance(call, ast.Expr) and isinstance(call.value, ast.Call) and is_self_attr(call.value.func, fn.name)
            and len(call.value.args) == 2 and not call.value.keywords):
        raise U(f"loop body does not end with the recursive call: {ast.unparse(call)}")
    env2 = {p_index: ("index", "Int"), p_max: ("maxVal", "Int"), cur: ("cur", "Int")}
    nxt, t1 = Expr(env2, src).tr(call.value.args[0])
    bud, t2 = Expr(env2, src).tr(call.value.args[1])
    if t1 != "Int" or t2 != "Int":
        raise U("recursive call arguments are not integers")
    meta["nextIndex"] = ast.unparse(call.value.args[0])
    meta["budget"] = ast.unparse(call.value.args[1])
    out += [
        "/-! ### `_GridGenerator.accumulate_integer_grid(self, index, max_val)` -/", "",
        f"/-- base case `if {meta['atEnd']}:` (then `self.accumulator.append(self.entry.copy())`) -/",
        f"def atEnd (index dim : Int) : Bool := {at_end}", "",
        f"/-- `if {meta['lastForced']}:` -/",
        f"def lastForced (index dim : Int) (force : Bool) : Bool := {last_forced}", "",
        f"/-- last coordinate under force_L1_norm: `values = {meta['lastValues']}` -/",
        f"def lastValues (neg : Bool) (maxVal : Int) : List Int := {last_vals}", "",
        f"/-- every other coordinate: `{meta['rangeValues']}` -/",
        f"def rangeValues (neg : Bool) (maxVal : Int) : List Int := {rng_term}", "",
        f"/-- recursive call, first argument `{meta['nextIndex']}` -/",
        f"def nextIndex (index maxVal cur : Int) : Int := {nxt}", "",
        f"/-- recursive call, second argument `{meta['budget']}` -/",
        f"def budget (index maxVal cur : Int) : Int := {bud}", "",
    ]


def lift_build(tree, src, out, meta):
    fn = find_func(tree, "_GridGenerator", "build_integer_grid")
    ps = params(fn)
    if len(ps) != 2:
        raise U(f"build_integer_grid parameters {ps}")
    body = [ast.unparse(s) for s in strip_docs(fn.body)]
    call = [s for s in strip_docs(fn.body) if isinstance(s, ast.Expr) and isinstance(s.value, ast.Call)
            and is_self_attr(s.value.func, "accumulate_integer_grid")]
    c = one(call, "call of accumulate_integer_grid in build_integer_grid").value
    if len(c.args) != 2 or c.keywords or ast.unparse(c.args[1]) != ps[1]:
        raise U(f"build_integer_grid calls {ast.unparse(c)}")
    start, t = Expr({}, src).tr(c.args[0])
    if t != "Int":
        raise U("start index is not an integer")
    ci = body.index(ast.unparse(c))
    need_before = {"self.entry = np.zeros(self.dim)", "self.accumulator = []"}
    if set(body[:ci]) != need_before or body[ci + 1:] != ["return self.accumulator"]:
        raise U(f"build_integer_grid body changed: {body}")
    meta["startIndex"] = ast.unparse(c.args[0])
    out += ["/-! ### `_GridGenerator.build_integer_grid(self, n_units)` -/", "",
            f"/-- `self.accumulate_integer_grid({meta['startIndex']}, n_units)` on a fresh `entry` / empty `accumulator` -/",
            f"def startIndex : Int := {start}", ""]


def _match_estimate(v, p_size):
    """(float(grid_size) / (B ** neg_allowed.sum())) ** (1.0 / true_dim) - C  ->  (B, C, true_dim name)"""
    ok = (isinstance(v, ast.BinOp) and isinstance(v.op, ast.Sub) and isinstance(v.right, ast.Constant)
          and isinstance(v.left, ast.BinOp) and isinstance(v.left.op, ast.Pow))
    if not ok:
        raise U(f"initial estimate is not `<root> - <const>`: {ast.unparse(v)}")
    c = v.right.value
    base, expo = v.left.left, v.left.right
    ok = (isinstance(expo, ast.BinOp) and isinstance(expo.op, ast.Div) and isinstance(expo.left, ast.Constant)
          and float(expo.left.value) == 1.0 and isinstance(expo.right, ast.Name))
    if not ok:
        raise U(f"exponent of the initial estimate is not `1.0 / true_dim`: {ast.unparse(expo)}")
    ok = (isinstance(base, ast.BinOp) and isinstance(base.op, ast.Div) and ast.unparse(base.left) in (f"float({p_size})", p_size)
          and isinstance(base.right, ast.BinOp) and isinstance(base.right.op, ast.Pow)
          and isinstance(base.right.left, ast.Constant) and ast.unparse(base.right.right) == "neg_allowed.sum()")
    if not ok:
        raise U(f"base of the initial estimate is not `float(grid_size) / (B ** neg_allowed.sum())`: {ast.unparse(base)}")
    b = base.right.left.value
    if isinstance(c, bool) or isinstance(b, bool) or Fraction(c).denominator != 1 or Fraction(b).denominator != 1 \
            or Fraction(b) < 1 or Fraction(c) < 0:
        raise U(f"constants of the initial estimate: base {b}, subtracted {c}")
    return int(Fraction(b)), int(Fraction(c)), expo.right.id


def lift_init(tree, src, out, meta):
    fn = find_func(tree, "_GridGenerator", "__init__")
    ps = params(fn)
    want = ["self", "grid_size", "grid_limit", "pos_basis", "neg_basis", "neg_allowed", "force_L1_norm", "grid_offset"]
    if ps != want:
        raise U(f"_GridGenerator.__init__ parameters {ps} != {want}")
    meta["init_params"] = ps[1:]
    body = strip_docs(fn.body)
    txt = [ast.unparse(s) for s in body]
    for need in ("self.dim = len(pos_basis.columns)", "self.neg_allowed = neg_allowed", "self.force_L1_norm = force_L1_norm"):
        if need not in txt:
            raise U(f"__init__ no longer contains `{need}`")
    # grid_offset default
    off = one([s for s in body if isinstance(s, ast.If) and "grid_offset" in ast.unparse(s.test)], "`if grid_offset is None`")
    if ast.unparse(off.test) != "grid_offset is None" or [ast.unparse(s) for s in off.orelse] != ["self.grid_offset = grid_offset"] \
            or len(off.body) != 1:
        raise U(f"grid_offset handling changed: {ast.unparse(off)}")
    dv = off.body[0]
    ok = (isinstance(dv, ast.Assign) and ast.unparse(dv.targets[0]) == "self.grid_offset" and isinstance(dv.value, ast.Call)
          and ast.unparse(dv.value.func) == "pd.Series" and len(dv.value.args) == 1 and isinstance(dv.value.args[0], ast.Constant)
          and [(k.arg, ast.unparse(k.value)) for k in dv.value.keywords] == [("index", "pos_basis.index")])
    if not ok:
        raise U(f"default grid offset is not `pd.Series(<const>, index=pos_basis.index)`: {ast.unparse(dv)}")
    off_default = Fraction(str(dv.value.args[0].value))
    meta["defaultOffset"] = ast.unparse(dv.value)
    # true_dim
    td = one([s for s in body if isinstance(s, ast.If) and ast.unparse(s.test) == "self.force_L1_norm"], "`if self.force_L1_norm:`")
    n1, a = values_assign(strip_docs(td.body), "true_dim (forced)")
    n2, b = values_assign(strip_docs(td.orelse), "true_dim (free)")
    if n1 != n2:
        raise U("true_dim branches assign different names")
    ex = Expr({"self.dim": ("dim", "Int")}, src)
    (ta, t1), (tb, t2) = ex.tr(a), ex.tr(b)
    if t1 != "Int" or t2 != "Int":
        raise U("true_dim is not an integer expression")
    meta["trueDim"] = f"{ast.unparse(a)} if self.force_L1_norm else {ast.unparse(b)}"
    td_name = n1
    # initial estimate: three statements on one local (its name is taken from the while loop below)
    loop = one([s for s in body if isinstance(s, ast.While)], "`while` loop in __init__")
    if ast.unparse(loop.test) != "True" or loop.orelse:
        raise U(f"loop header is not `while True:`: {ast.unparse(loop.test)}")
    lb = strip_docs(loop.body)
    if len(lb) != 3 or assign_to(lb[0]) is None or not isinstance(lb[1], ast.If) or lb[1].orelse or assign_to(lb[2]) is None:
        raise U("while body is not `g = self.build_integer_grid(n); if <enough>: ...; n = <next>`")
    g_name, g_val = assign_to(lb[0])
    ok = (isinstance(g_val, ast.Call) and is_self_attr(g_val.func, "build_integer_grid") and len(g_val.args) == 1
          and isinstance(g_val.args[0], ast.Name) and not g_val.keywords)
    if not ok:
        raise U(f"while body does not start with `<g> = self.build_integer_grid(<n>)`: {ast.unparse(lb[0])}")
    n_name = g_val.args[0].id
    nn, nv = assign_to(lb[2])
    if nn != n_name:
        raise U(f"last statement of the while body assigns `{nn}`, not `{n_name}`")
    nxt, t = Expr({n_name: ("n", "Int")}, src).tr(nv)
    if t != "Int":
        raise U("growth step is not an integer expression")
    meta["nextUnits"] = ast.unparse(nv)
    pre = body[:body.index(loop)]
    est = [s for s in pre if assign_to(s, n_name) is not None]
    clip = [s for s in pre if isinstance(s, ast.If) and ast.unparse(s.test).startswith(n_name + " ")]
    if len(est) != 2 or len(clip) != 1 or not (pre.index(est[0]) < pre.index(est[1]) < pre.index(clip[0])):
        raise U("initial estimate is not `n = <root expr>; n = int(np.floor(n)); if n < 0: n = 0`")
    bconst, cconst, td_used = _match_estimate(est[0].value, "grid_size")
    if td_used != td_name:
        raise U(f"the exponent uses `{td_used}`, not the true dimension `{td_name}`")
    if ast.unparse(est[1].value) not in (f"int(np.floor({n_name}))", f"int(math.floor({n_name}))", f"math.floor({n_name})"):
        raise U(f"rounding of the initial estimate changed: {ast.unparse(est[1])}")
    cl = clip[0]
    ccond, tcc = Expr({n_name: ("n", "Int")}, src).tr(cl.test)
    cn, cv = values_assign(strip_docs(cl.body), "clip of the initial estimate")
    cterm, tcv = Expr({n_name: ("n", "Int")}, src).tr(cv)
    if cl.orelse or cn != n_name or tcc != "Bool" or tcv != "Int":
        raise U(f"clip of the initial estimate changed: {ast.unparse(cl)}")
    meta["estimate"] = ast.unparse(est[0].value)
    meta["estimateClip"] = ast.unparse(cl).replace("\n", " ")
    meta["estimateVar"] = n_name
    # the `if enough:` block
    blk = lb[1]
    enough, t = Expr({f"len({g_name})": ("len", "Int"), "len(self.accumulator)": ("len", "Int"), "grid_size": ("gridSize", "Int")},
                     src).tr(blk.test)
    if t != "Bool":
        raise U("while-loop exit test is not boolean")
    meta["enough"] = ast.unparse(blk.test)
    bb = strip_docs(blk.body)
    if not bb or not isinstance(bb[-1], ast.Break):
        raise U("the block that builds the grid does not end with `break`")
    bb = bb[:-1]
    # pos_coefs = pd.DataFrame(<acc>[:<k>]).T * (<scale>)
    pos = [s for s in bb if assign_to(s) and isinstance(assign_to(s)[1], ast.BinOp) and "pd.DataFrame" in ast.unparse(s)]
    pos = one(pos, "assignment `pos_coefs = pd.DataFrame(...).T * (...)`")
    pc, pv = assign_to(pos)
    ok = (isinstance(pv.op, ast.Mult) and isinstance(pv.left, ast.Attribute) and pv.left.attr == "T"
          and isinstance(pv.left.value, ast.Call) and ast.unparse(pv.left.value.func) == "pd.DataFrame"
          and len(pv.left.value.args) == 1 and not pv.left.value.keywords and isinstance(pv.left.value.args[0], ast.Subscript))
    if not ok:
        raise U(f"coefficients are not `pd.DataFrame(<accumulator>[:k]).T * (<scale>)`: {ast.unparse(pv)}")
    sub = pv.left.value.args[0]
    if ast.unparse(sub.value) not in ("self.accumulator", g_name) or not isinstance(sub.slice, ast.Slice) \
            or sub.slice.lower is not None or sub.slice.step is not None or sub.slice.upper is None:
        raise U(f"truncation is not `<accumulator>[:<k>]`: {ast.unparse(sub)}")
    upper, t = Expr({"grid_size": ("gridSize", "Int")}, src).tr(sub.slice.upper)
    if t != "Int":
        raise U("truncation bound is not an integer")
    meta["truncate"] = ast.unparse(sub)
    scale, t = Expr({"grid_limit": ("limit", "Rat"), n_name: ("nUnits", "Int")}, src).tr(pv.right)
    if t != "Rat":
        raise U("scaling factor is not a float expression")
    meta["scale"] = ast.unparse(pv.right)
    # neg_coefs = -pos_coefs.copy()  (or -pos_coefs)
    neg = [s for s in bb if assign_to(s) and assign_to(s)[0] != pc and pc in ast.unparse(assign_to(s)[1])
           and "dot" not in ast.unparse(s)]
    neg = one(neg, "assignment `neg_coefs = -pos_coefs.copy()`")
    ncn, nvv = assign_to(neg)
    negof, t = Expr({f"{pc}.copy()": ("q", "Rat"), pc: ("q", "Rat")}, src).tr(nvv)
    if t != "Rat":
        raise U("negative coefficients are not a float expression")
    meta["negOf"] = ast.unparse(neg)
    # the two clips  X[X < 0] = 0.0

    def clip_of(name):
        cs = [s for s in bb if isinstance(s, ast.Assign) and isinstance(s.targets[0], ast.Subscript)
              and ast.unparse(s.targets[0].value) == name]
        s = one(cs, f"clip `{name}[{name} < 0] = 0.0`")
        cond, tc = Expr({name: ("q", "Rat")}, src).tr(s.targets[0].slice)
        val, tv = Expr({}, src).tr(s.value)
        if tc != "Bool" or tv not in ("Rat", "Int"):
            raise U(f"clip of {name}: {ast.unparse(s)}")
        return s, f"if {cond} then {Expr.cast(val, tv, 'Rat')} else q"
    pclip_s, pclip = clip_of(pc)
    nclip_s, nclip = clip_of(ncn)
    meta["posClip"], meta["negClip"] = ast.unparse(pclip_s), ast.unparse(nclip_s)
    neg_after = bb.index(neg) > bb.index(pclip_s)
    if bb.index(nclip_s) < bb.index(neg) or bb.index(pclip_s) < bb.index(pos):
        raise U("a clip precedes the assignment of the variable it clips")
    meta["negFromClipped"] = neg_after
    # _grid = pos_basis.dot(pos_coefs) + neg_basis.dot(neg_coefs)
    dots = [s for s in bb if assign_to(s) and ".dot(" in ast.unparse(s)]
    gr = one(dots, "assignment `_grid = pos_basis.dot(pos_coefs) + neg_basis.dot(neg_coefs)`")
    gname, gv = assign_to(gr)
    pair = {f"pos_basis.dot({pc})", f"neg_basis.dot({ncn})"}
    if not (isinstance(gv, ast.BinOp) and isinstance(gv.op, ast.Add) and {ast.unparse(gv.left), ast.unparse(gv.right)} == pair):
        raise U(f"basis map is not `pos_basis.dot({pc}) + neg_basis.dot({ncn})`: {ast.unparse(gv)}")
    if not (bb.index(gr) > max(bb.index(pclip_s), bb.index(nclip_s))):
        raise U("the basis map is computed before the coefficients are clipped")
    meta["basisMap"] = ast.unparse(gv)
    fin = one([s for s in bb if isinstance(s, ast.Assign) and ast.unparse(s.targets[0]) == "self.grid"], "`self.grid = ...`")
    if ast.unparse(fin.value) != f"{gname}.add(self.grid_offset, axis='index')" or bb.index(fin) < bb.index(gr):
        raise U(f"offset is not `{gname}.add(self.grid_offset, axis='index')`: {ast.unparse(fin.value)}")
    meta["offset"] = ast.unparse(fin.value)
    if len(bb) != 6:
        raise U(f"the block that builds the grid has {len(bb)} statements, expected 6")
    out += [
        "/-! ### `_GridGenerator.__init__` -/", "",
        f"/-- `true_dim = {meta['trueDim']}` -/",
        f"def trueDim (dim : Int) (force : Bool) : Int := if force then {ta} else {tb}", "",
        f"/-- initial estimate `{meta['estimate']}` then `int(np.floor(.))`: base of the power of the number of",
        "    coordinates that may be negative, and the constant subtracted from the root -/",
        f"def estBase : Nat := {bconst}",
        f"def estSub : Nat := {cconst}",
        f"/-- `{meta['estimateClip']}` -/",
        f"def estClip (n : Int) : Int := if {ccond} then {cterm} else n",
        "/-- \"the float estimate `n0` is not above the exact value of the lifted expression\":",
        "    `n0 ≤ clip (⌊(gridSize / estBase^k)^(1/d) - estSub⌋)`, stated without roots -/",
        "def noOvershoot (gridSize k d n0 : Nat) : Bool :=",
        "  decide (n0 = 0) || decide (estBase ^ k * (n0 + estSub) ^ d ≤ gridSize)", "",
        f"/-- exit test of the `while True:` loop, `if {meta['enough']}:` -/",
        f"def enough (len gridSize : Int) : Bool := {enough}", "",
        f"/-- growth step `n_units = {meta['nextUnits']}` -/",
        f"def nextUnits (n : Int) : Int := {nxt}", "",
        f"/-- truncation `{meta['truncate']}` -/",
        f"def truncate {{α : Type}} (acc : List α) (gridSize : Int) : List α := pySliceTo acc {upper}", "",
        f"/-- scaling factor `{meta['scale']}` -/",
        f"def scale (limit : Rat) (nUnits : Int) : Rat := {scale}", "",
        f"/-- `{meta['negOf']}` -/",
        f"def negOf (q : Rat) : Rat := {negof}", "",
        f"/-- `{meta['posClip']}` -/",
        f"def posClip (q : Rat) : Rat := {pclip}", "",
        f"/-- `{meta['negClip']}` -/",
        f"def negClip (q : Rat) : Rat := {nclip}", "",
        "/-- is `neg_coefs` computed from the ALREADY CLIPPED `pos_coefs`? (statement order in the source) -/",
        f"def negFromClipped : Bool := {'true' if neg_after else 'false'}", "",
        f"/-- `grid_offset=None` → `{meta['defaultOffset']}` -/",
        f"def defaultOffset : Rat := {rat_lit(off_default)}", "",
        f"/-- `self.grid = {meta['offset']}` (entry-wise, aligned on the constraint index) -/",
        "def withOffset (g off : Rat) : Rat := g + off", "",
    ]


# ------------------------------------------------------------------------------------------------ grid_search.py
def lift_gridsearch(tree, src, out, meta):
    init = find_func(tree, "GridSearch", "__init__")
    ib = strip_docs(init.body)
    cwa = one([s for s in ib if isinstance(s, ast.Assign) and ast.unparse(s.targets[0]) == "self.constraint_weight"],
              "`self.constraint_weight = ...`")
    if ast.unparse(cwa.value) not in ("float(constraint_weight)", "constraint_weight"):
        raise U(f"self.constraint_weight = {ast.unparse(cwa.value)}")
    # `self.objective_weight = 1.0 - constraint_weight` (optional: `fit` may compute the objective weight inline)
    ows = [s for s in ib if isinstance(s, ast.Assign) and ast.unparse(s.targets[0]) == "self.objective_weight"]
    ow_term = None
    if ows:
        ow = one(ows, "`self.objective_weight = ...`")
        ow_term, t = Expr({"constraint_weight": ("cw", "Rat"), "self.constraint_weight": ("cw", "Rat")}, src).tr(ow.value)
        if t != "Rat":
            raise U("objective weight is not a float expression")
        meta["objectiveWeight"] = ast.unparse(ow.value)
    else:
        meta["objectiveWeight"] = None

    fit = find_func(tree, "GridSearch", "fit")
    fb = strip_docs(fit.body)
    # the _GridGenerator(...) call: arguments by position / keyword -> parameter names
    gcalls = [n for n in ast.walk(fit) if isinstance(n, ast.Call) and ast.unparse(n.func) == "_GridGenerator"]
    gc = one(gcalls, "_GridGenerator(...) call in fit")
    names = meta["init_params"]
    given = {}
    for k, a in enumerate(gc.args):
        given[names[k]] = ast.unparse(a)
    for kw in gc.keywords:
        given[kw.arg] = ast.unparse(kw.value)
    want = {"grid_size": "self.grid_size", "grid_limit": "self.grid_limit", "pos_basis": "pos_basis", "neg_basis": "neg_basis",
            "neg_allowed": "neg_allowed", "force_L1_norm": "objective_in_the_span", "grid_offset": "self.grid_offset"}
    if given != want:
        raise U(f"_GridGenerator is called with {given}, expected {want}")
    loc = {"pos_basis": "self.constraints.pos_basis", "neg_basis": "self.constraints.neg_basis",
           "neg_allowed": "self.constraints.neg_basis_present",
           "objective_in_the_span": "self.constraints.default_objective_lambda_vec is not None"}
    for nm, val in loc.items():
        a = one([s for s in fb if assign_to(s, nm)], f"`{nm} = ...` in fit")
        if ast.unparse(a.value) != val:
            raise U(f"{nm} = {ast.unparse(a.value)} (expected {val})")
    # the loop over the grid
    loop = one([s for s in fb if isinstance(s, ast.For)], "`for i in grid.columns:` loop in fit")
    if not (isinstance(loop.target, ast.Name) and ast.unparse(loop.iter) == "grid.columns"):
        raise U(f"loop header: for {ast.unparse(loop.target)} in {ast.unparse(loop.iter)}")
    iv = loop.target.id
    lb = strip_docs(loop.body)
    lam = one([s for s in lb if assign_to(s) and ast.unparse(assign_to(s)[1]) == f"grid[{iv}]"], f"`lambda_vec = grid[{iv}]`")
    lam_name = assign_to(lam)[0]
    w0 = one([s for s in lb if assign_to(s) and ast.unparse(assign_to(s)[1]) == f"self.constraints.signed_weights({lam_name})"],
             "`weights = self.constraints.signed_weights(lambda_vec)`")
    w_name = assign_to(w0)[0]
    add = one([s for s in lb if isinstance(s, ast.If) and "objective_in_the_span" in ast.unparse(s.test)],
              "`if not objective_in_the_span:`")
    span_cond, t = Expr({"objective_in_the_span": ("span", "Bool")}, src).tr(add.test)
    an, av = values_assign(strip_docs(add.body), "objective weights")
    if an != w_name or add.orelse:
        raise U(f"objective weights are not added to `{w_name}`")
    add_term, t = Expr({w_name: ("w", "Rat"), "objective.signed_weights()": ("ow", "Rat")}, src).tr(av)
    if t != "Rat":
        raise U("combined weights are not a float expression")
    meta["combine"] = ast.unparse(add).replace("\n", " ")
    rel = one([s for s in lb if isinstance(s, ast.If) and ast.unparse(s.test) == "is_classification_reduction"],
              "`if is_classification_reduction:`")
    rb = strip_docs(rel.body)
    if len(rb) != 2 or assign_to(rb[0]) is None or assign_to(rb[1], w_name) is None:
        raise U(f"relabelling block changed: {[ast.unparse(s) for s in rb]}")
    y_name, yv = assign_to(rb[0])
    y_term, ty = Expr({w_name: ("w", "Rat")}, src).tr(yv)
    if ty == "Bool":
        y_term, ty = f"(if {y_term} then (1 : Int) else 0)", "Int"
    if ty != "Int":
        raise U(f"relabelling is not an integer expression: {ast.unparse(yv)}")
    wv = assign_to(rb[1])[1]
    if ast.unparse(wv) in (f"{w_name}.abs()", f"np.abs({w_name})", f"abs({w_name})"):
        w_term = "(ratAbs w)"
    else:
        w_term, tw = Expr({w_name: ("w", "Rat")}, src).tr(wv)
        if tw != "Rat":
            raise U(f"reweighting is not a float expression: {ast.unparse(wv)}")
    meta["relabelY"], meta["relabelW"] = ast.unparse(rb[0]), ast.unparse(rb[1])
    # the regression branch (`else:`): the labels are the moment's own `_y_as_series`, the signed weights are passed on as they
    # are; anything else (another label source, a reweighting we cannot translate) is refused
    rg = strip_docs(rel.orelse)
    rg_y = [s for s in rg if assign_to(s, y_name) is not None]
    rg_w = [s for s in rg if assign_to(s, w_name) is not None]
    if len(rg_y) != 1 or len(rg_w) > 1 or len(rg) != len(rg_y) + len(rg_w):
        raise U(f"regression branch of the relabelling changed: {[ast.unparse(s) for s in rg]}")
    if ast.unparse(assign_to(rg_y[0])[1]) != "self.constraints._y_as_series":
        raise U(f"regression labels are not self.constraints._y_as_series: {ast.unparse(rg_y[0])}")
    if rg_w:
        rwv = assign_to(rg_w[0])[1]
        if ast.unparse(rwv) in (f"{w_name}.abs()", f"np.abs({w_name})", f"abs({w_name})"):
            reg_w_term = "(ratAbs w)"
        else:
            reg_w_term, tw = Expr({w_name: ("w", "Rat")}, src).tr(rwv)
            if tw != "Rat":
                raise U(f"regression reweighting is not a float expression: {ast.unparse(rwv)}")
    else:
        reg_w_term = "w"
    meta["regression"] = "; ".join(ast.unparse(s) for s in rg)
    # where `is_classification_reduction` comes from: `if isinstance(self.constraints, ClassificationMoment): True else: False`
    icr = [s for s in fb if isinstance(s, ast.If) and any(assign_to(t, "is_classification_reduction") for t in strip_docs(s.body))]
    others = [n for n in ast.walk(fit) if isinstance(n, ast.Assign) and any(ast.unparse(t) == "is_classification_reduction" for t in n.targets)]
    ictest = "isinstance(self.constraints, ClassificationMoment)"
    direct = [s for s in fb if assign_to(s, "is_classification_reduction")]
    if not icr and len(direct) == 1 and len(others) == 1 and ast.unparse(direct[0].value) == ictest:
        # the same flag written as `is_classification_reduction = isinstance(self.constraints, ClassificationMoment)`
        cd, cvals = direct[0], ["true", "false"]
    else:
        cd = one(icr, "`if isinstance(self.constraints, ClassificationMoment):` defining is_classification_reduction")
        if ast.unparse(cd.test) != ictest or len(others) != 2:
            raise U(f"is_classification_reduction is not decided by {ictest}: {ast.unparse(cd.test)}")
        cvals = []
        for blk in (cd.body, cd.orelse):
            nm, v = values_assign(strip_docs(blk), "is_classification_reduction")
            if nm != "is_classification_reduction" or not (isinstance(v, ast.Constant) and isinstance(v.value, bool)):
                raise U(f"is_classification_reduction is not assigned a literal Boolean: {ast.unparse(cd)}")
            cvals.append("true" if v.value else "false")
    if fb.index(cd) > fb.index(loop):
        raise U("is_classification_reduction is decided after the loop over the grid")
    meta["isClassification"] = f"{ictest} -> {cvals[0]} / {cvals[1]}"
    if not (lb.index(lam) < lb.index(w0) < lb.index(add) < lb.index(rel)):
        raise U("order of lambda_vec / weights / objective weights / relabelling changed")
    # dummy rule
    uq = one([s for s in lb if assign_to(s) and ast.unparse(assign_to(s)[1]) == f"np.unique({y_name})"],
             f"`y_reduction_unique = np.unique({y_name})`")
    u_name = assign_to(uq)[0]
    dm = one([s for s in lb if isinstance(s, ast.If) and f"len({u_name})" in ast.unparse(s.test)], "`if len(y_reduction_unique) == 1:`")
    dummy, t = Expr({f"len({u_name})": ("nUnique", "Int")}, src).tr(dm.test)
    ok = (len(dm.body) >= 1 and "DummyClassifier(strategy='constant', constant=" + u_name + "[0])" in ast.unparse(dm.body[-1])
          and dm.orelse and "copy.deepcopy(self.estimator)" in ast.unparse(dm.orelse[-1]))
    if not ok or t != "Bool":
        raise U(f"dummy-classifier rule changed: {ast.unparse(dm)}")
    meta["useDummy"] = ast.unparse(dm.test)
    # bookkeeping of the records
    ltxt = [ast.unparse(s) for s in lb]
    est = one([s for s in lb if isinstance(s, ast.Expr) and ".fit(" in ast.unparse(s)], "estimator fit call")
    e_name = ast.unparse(est.value.func.value)
    if ast.unparse(est) != f"{e_name}.fit(X, {y_name}, **{{self.sample_weight_name: {w_name}}})":
        raise U(f"estimator is fitted by {ast.unparse(est)}")
    for need in (f"self.predictors_.append({e_name})", f"self.lambda_vecs_[{iv}] = {lam_name}",
                 "self.objectives_.append(objective.gamma(predict_fct).iloc[0])",
                 f"self.gammas_[{iv}] = self.constraints.gamma(predict_fct)"):
        if need not in ltxt:
            raise U(f"loop no longer contains `{need}`")
    pf = one([s for s in lb if isinstance(s, ast.FunctionDef)], "predict_fct definition")
    if [ast.unparse(s) for s in strip_docs(pf.body)] != [f"return {e_name}.predict({pf.args.args[0].arg})"]:
        raise U(f"predict_fct changed: {ast.unparse(pf)}")
    meta["fit_call"] = ast.unparse(est)
    # selection
    selblk = one([s for s in fb if isinstance(s, ast.If) and "TRADEOFF_OPTIMIZATION" in ast.unparse(s.test)], "selection block")
    sb = strip_docs(selblk.body)
    lf = one([s for s in sb if isinstance(s, ast.FunctionDef)], "loss_fct")
    li = lf.args.args[0].arg
    ret = one([s for s in strip_docs(lf.body) if isinstance(s, ast.Return)], "return of loss_fct")
    if len(strip_docs(lf.body)) != 1:
        raise U("loss_fct has more than a return statement")
    gam_cols = (f"self.gammas_[grid.columns[{li}]]", f"self.gammas_.iloc[:, {li}]")
    env = {"self.constraint_weight": ("cw", "Rat"), f"self.objectives_[{li}]": ("obj", "Rat")}
    if "self.objective_weight" in ast.unparse(ret.value):
        # resolved through the __init__ assignment, so that both spellings of the loss give the same Lean term
        if ow_term is None:
            raise U("loss_fct reads self.objective_weight, which __init__ does not assign")
        env["self.objective_weight"] = (ow_term, "Rat")
    agg = None
    for gcol in gam_cols:
        for a in ("max", "min"):
            if f"{gcol}.{a}()" in ast.unparse(ret.value):
                if agg is not None:
                    raise U("loss_fct aggregates gamma more than once")
                agg = a
                env[f"{gcol}.{a}()"] = ("gAgg", "Rat")
    if agg is None:
        raise U(f"loss_fct does not aggregate the gamma column by .max()/.min(): {ast.unparse(ret.value)}")
    loss, t = Expr(env, src).tr(ret.value)
    if t != "Rat":
        raise U("loss is not a float expression")
    meta["loss"], meta["gammaAgg"] = ast.unparse(ret.value), agg
    ls = one([s for s in sb if assign_to(s) and isinstance(assign_to(s)[1], ast.ListComp)], "`losses = [loss_fct(i) for i in ...]`")
    l_name, lc = assign_to(ls)
    if ast.unparse(lc) != f"[{lf.name}({lc.generators[0].target.id}) for {lc.generators[0].target.id} in range(len(self.objectives_))]":
        raise U(f"losses = {ast.unparse(lc)}")
    bi = one([s for s in sb if isinstance(s, ast.Assign) and ast.unparse(s.targets[0]) == "self.best_idx_"], "`self.best_idx_ = ...`")
    btxt = ast.unparse(bi.value)
    forms = {f"{l_name}.index(min({l_name}))": ("min", True), f"{l_name}.index(max({l_name}))": ("max", True),
             f"int(np.argmin({l_name}))": ("min", True), f"np.argmin({l_name})": ("min", True),
             f"int(np.argmax({l_name}))": ("max", True), f"np.argmax({l_name})": ("max", True)}
    if btxt not in forms:
        raise U(f"self.best_idx_ = {btxt}")
    sel_agg, sel_first = forms[btxt]
    meta["bestIdx"] = btxt
    if not (sb.index(lf) < sb.index(ls) < sb.index(bi)):
        raise U("order of loss_fct / losses / best_idx_ changed")
    # delegation
    for m in ("predict", "predict_proba"):
        f = find_func(tree, "GridSearch", m)
        x = f.args.args[1].arg
        b = [ast.unparse(s) for s in strip_docs(f.body)]
        if b != ["check_is_fitted(self)", f"return self.predictors_[self.best_idx_].{m}({x})"]:
            raise U(f"GridSearch.{m} no longer delegates to self.predictors_[self.best_idx_].{m}: {b}")
    meta["delegation"] = "self.predictors_[self.best_idx_]"
    out += [
        "/-! ### `GridSearch.__init__` / `fit` / `predict` -/", "",
        f"/-- `self.objective_weight = {meta['objectiveWeight']}` (read by `loss_fct` only in the older spelling, where it is inlined) -/",
        f"def objectiveWeight (cw : Rat) : Rat := {ow_term if ow_term is not None else 'cw  -- not assigned in the source'}", "",
        f"/-- `{meta['combine']}` (`span` = objective_in_the_span, `w` = constraint weights, `ow` = objective weights) -/",
        f"def combine (span : Bool) (w ow : Rat) : Rat := if {span_cond} then {add_term} else w", "",
        f"/-- `{meta['relabelY']}` -/",
        f"def relabelY (w : Rat) : Int := {y_term}", "",
        f"/-- `{meta['relabelW']}` -/",
        f"def relabelW (w : Rat) : Rat := {w_term}", "",
        "/-- `is_classification_reduction`: `isinstance(self.constraints, ClassificationMoment)` -/",
        f"def isClassification (isClassificationMoment : Bool) : Bool := if isClassificationMoment then {cvals[0]} else {cvals[1]}", "",
        f"/-- the `else:` (regression) branch of `if is_classification_reduction`: `{meta['regression']}` — the learner gets the",
        "    moment's own labels and the signed weights -/",
        "def regressionY (y w : Rat) : Rat := y",
        f"def regressionW (w : Rat) : Rat := {reg_w_term}", "",
        f"/-- `if {meta['useDummy']}:` train a constant DummyClassifier instead of the estimator -/",
        f"def useDummy (nUnique : Int) : Bool := {dummy}", "",
        f"/-- `loss_fct`: `{meta['loss']}` -/",
        f"def loss (cw obj gAgg : Rat) : Rat := {loss}", "",
        "/-- how `loss_fct` aggregates the gamma column -/",
        f"def gammaAgg : Agg := .{agg}", "",
        f"/-- `self.best_idx_ = {btxt}`: which extreme of `losses` (always its FIRST position) -/",
        f"def selAgg : Agg := .{sel_agg}", "",
    ]


PRELUDE = """\
/-! ### fixed prelude: the Python builtins the lifted fragments use (not lifted) -/

/-- `range(lo, hi)` -/
def pyRange (lo hi : Int) : List Int := (List.range (hi - lo).toNat).map (fun (i : Nat) => lo + (i : Int))

/-- `abs` on ints -/
def pyAbs (x : Int) : Int := if x < 0 then -x else x

/-- `abs` on floats -/
def ratAbs (q : Rat) : Rat := if q < 0 then -q else q

/-- `xs[:k]` (a negative `k` counts from the end) -/
def pySliceTo {α : Type} (xs : List α) (k : Int) : List α :=
  if k < 0 then xs.take (xs.length - k.natAbs) else xs.take k.toNat

inductive Agg where
  | max | min
deriving Repr, DecidableEq
"""


@translate.lifter
def lift_grid(repo):
    out = ["/-", "GENERATED by harness/lifters/grid.py from", f"  {GEN_FILE}", f"  {GS_FILE}",
           "Do not edit: regenerated (and the theorems of C09 re-checked against it) on every run.", "-/",
           "set_option linter.unusedVariables false", "", "namespace GridSrc", "", PRELUDE]
    meta = {}
    src = translate._read(repo, GEN_FILE)
    tree = ast.parse(src)
    lift_accumulate(tree, src, out, meta)
    lift_build(tree, src, out, meta)
    lift_init(tree, src, out, meta)
    src2 = translate._read(repo, GS_FILE)
    tree2 = ast.parse(src2)
    lift_gridsearch(tree2, src2, out, meta)
    out += ["end GridSrc", ""]
    meta["source"] = [os.path.join(repo, GEN_FILE), os.path.join(repo, GS_FILE)]
    return "GridSrc.lean", "\n".join(out), meta
