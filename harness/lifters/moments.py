"""Lifter for the closed arithmetic expressions and string constants of the reduction moments
(fairlearn/reductions/_moments/{moment,utility_parity,error_rate,bounded_group_loss}.py).

Generates lean/FairModel/Generated/MomentsSrc.lean.  `Model/Moments.lean` computes with these
definitions and the C06/C07 theorems unfold them, so that a change of a sign, a ratio factor, a
normalisation or a format string in the source either breaks a proof or changes what the compiled
model computes.  Everything that is not of the expected shape is refused."""
import ast
import os
from fractions import Fraction

from .. import translate
from . import normalize

UP = "fairlearn/reductions/_moments/utility_parity.py"
MO = "fairlearn/reductions/_moments/moment.py"
ER = "fairlearn/reductions/_moments/error_rate.py"
BG = "fairlearn/reductions/_moments/bounded_group_loss.py"


def _bad(msg):
    raise translate.Untranslatable("moments lifter: " + msg)


def _parse(repo, rel):
    with open(os.path.join(repo, rel)) as f:
        return normalize.parse(f.read())


def _cls(tree, name):
    for n in tree.body:
        if isinstance(n, ast.ClassDef) and n.name == name:
            return n
    _bad(f"class {name} not found")


def _fn(cls, name):
    for n in cls.body:
        if isinstance(n, ast.FunctionDef) and n.name == name:
            return n
    _bad(f"method {cls.name}.{name} not found")


def _module_const(tree, name):
    for n in tree.body:
        if isinstance(n, ast.Assign) and len(n.targets) == 1 and isinstance(n.targets[0], ast.Name) \
                and n.targets[0].id == name:
            if isinstance(n.value, ast.Constant):
                return n.value
            _bad(f"{name} is not a literal")
    _bad(f"constant {name} not found")


def _rat_of_const(node, src_seg=None):
    v = node.value
    if isinstance(v, bool):
        _bad("boolean where a number is expected")
    if isinstance(v, int):
        return Fraction(v)
    if isinstance(v, float):
        return Fraction(repr(v))  # the decimal literal, e.g. 0.01 -> 1/100
    _bad(f"unsupported constant {v!r}")


def _lean_rat(q):
    q = Fraction(q)
    if q.denominator == 1:
        return f"({q.numerator} : Rat)"
    return f"(({q.numerator} : Rat) / {q.denominator})"


def _lean_str(s):
    out = s.replace("\\", "\\\\").replace('"', '\\"')
    if any(ord(c) < 32 or ord(c) > 126 for c in s):
        _bad(f"non-ASCII string constant {s!r}")
    return '"' + out + '"'


def expr(node, env):
    """Python arithmetic expression -> fully parenthesised Lean term over Rat.
    `env` maps the *unparsed text* of a leaf sub-expression to a Lean variable."""
    txt = ast.unparse(node)
    if txt in env:
        return env[txt]
    if isinstance(node, ast.BinOp):
        a, b = expr(node.left, env), expr(node.right, env)
        if isinstance(node.op, ast.Add):
            return f"({a} + {b})"
        if isinstance(node.op, ast.Sub):
            return f"({a} - {b})"
        if isinstance(node.op, ast.Mult):
            return f"({a} * {b})"
        if isinstance(node.op, ast.Div):
            return f"({a} / {b})"
        if isinstance(node.op, ast.Pow) and isinstance(node.right, ast.Constant) and node.right.value == 2:
            return f"({a} * {a})"
        _bad(f"operator in {txt!r}")
    if isinstance(node, ast.UnaryOp) and isinstance(node.op, ast.USub):
        return f"(-{expr(node.operand, env)})"
    if isinstance(node, ast.Constant):
        return _lean_rat(_rat_of_const(node))
    if isinstance(node, ast.Call):
        f = ast.unparse(node.func)
        if f == "np.abs" and len(node.args) == 1 and not node.keywords:
            return f"(absR {expr(node.args[0], env)})"
        if f == "np.clip" and len(node.args) == 3 and not node.keywords:
            a, lo, hi = (expr(x, env) for x in node.args)
            return f"(clipR {a} {lo} {hi})"
    _bad(f"cannot translate {txt!r}")


def _assign_value(fn, target_text):
    hits = [n for n in ast.walk(fn) if isinstance(n, ast.Assign) and len(n.targets) == 1
            and ast.unparse(n.targets[0]) == target_text]
    if len(hits) != 1:
        _bad(f"expected exactly one assignment to {target_text} in {fn.name}, found {len(hits)}")
    return hits[0].value


def _return_value(fn):
    rets = [n for n in ast.walk(fn) if isinstance(n, ast.Return)]
    if len(rets) != 1 or rets[0].value is None:
        _bad(f"{fn.name}: expected a single return")
    return rets[0].value


def _vstack_T_pair(node):
    """np.vstack([a, b]).T  ->  (a, b)"""
    if not (isinstance(node, ast.Attribute) and node.attr == "T" and isinstance(node.value, ast.Call)
            and ast.unparse(node.value.func) == "np.vstack" and len(node.value.args) == 1
            and isinstance(node.value.args[0], ast.List) and len(node.value.args[0].elts) == 2):
        _bad(f"utilities are not np.vstack([g0, g1]).T: {ast.unparse(node)}")
    return node.value.args[0].elts


def _const_column(node):
    f = ast.unparse(node.func) if isinstance(node, ast.Call) else None
    if f == "np.zeros":
        return "(0 : Rat)"
    if f == "np.ones":
        return "(1 : Rat)"
    _bad(f"default utility column {ast.unparse(node)!r}")


def _label_event(lam_call):
    """y_train.apply(lambda v: _LABEL + '=' + str(v))  ->  the separator '='"""
    if not (isinstance(lam_call, ast.Call) and ast.unparse(lam_call.func) == "y_train.apply"
            and len(lam_call.args) == 1 and isinstance(lam_call.args[0], ast.Lambda)):
        _bad(f"label event: {ast.unparse(lam_call)}")
    body = lam_call.args[0].body
    if not (isinstance(body, ast.BinOp) and isinstance(body.op, ast.Add) and ast.unparse(body.right) == "str(v)"
            and isinstance(body.left, ast.BinOp) and isinstance(body.left.op, ast.Add)
            and ast.unparse(body.left.left) == "_LABEL" and isinstance(body.left.right, ast.Constant)
            and isinstance(body.left.right.value, str)):
        _bad(f"label event lambda: {ast.unparse(body)}")
    return body.left.right.value


def _where_label(node):
    """<label event>.where(y_train == c) -> (separator, c)"""
    if not (isinstance(node, ast.Call) and isinstance(node.func, ast.Attribute) and node.func.attr == "where"
            and len(node.args) == 1 and isinstance(node.args[0], ast.Compare)
            and ast.unparse(node.args[0].left) == "y_train" and len(node.args[0].ops) == 1
            and isinstance(node.args[0].ops[0], ast.Eq) and isinstance(node.args[0].comparators[0], ast.Constant)
            and isinstance(node.args[0].comparators[0].value, int)):
        _bad(f"conditioned event: {ast.unparse(node)}")
    return _label_event(node.func.value), node.args[0].comparators[0].value


def _all_event(node):
    if ast.unparse(node) != "pd.Series(data=_ALL, index=y_train.index)":
        _bad(f"'all' event: {ast.unparse(node)}")


@translate.lifter
def lift_moments(repo):
    up, mo, er, bg = (_parse(repo, p) for p in (UP, MO, ER, BG))
    # ---- string constants ---------------------------------------------------------
    fmt = _module_const(up, "_CTRL_EVENT_FORMAT").value
    if not isinstance(fmt, str) or fmt.count("{0}") != 1 or fmt.count("{1}") != 1 or fmt.index("{0}") > fmt.index("{1}") \
            or "{" in fmt.replace("{0}", "").replace("{1}", ""):
        _bad(f"_CTRL_EVENT_FORMAT {fmt!r}")
    pre, rest = fmt.split("{0}")
    mid, post = rest.split("{1}")
    all_ev = _module_const(mo, "_ALL").value
    label = _module_const(mo, "_LABEL").value
    default_eps = _rat_of_const(_module_const(up, "_DEFAULT_DIFFERENCE_BOUND"))
    # ---- combine(event, control): only the format call is lifted (shape-checked) ---
    comb = [n for n in up.body if isinstance(n, ast.FunctionDef) and n.name == "_combine_event_and_control"]
    if len(comb) != 1 or [a.arg for a in comb[0].args.args] != ["event", "control"]:
        _bad("_combine_event_and_control(event, control) not found")
    fcalls = [n for n in ast.walk(comb[0]) if isinstance(n, ast.Call)
              and ast.unparse(n.func) == "_CTRL_EVENT_FORMAT.format"]
    if len(fcalls) != 1 or [ast.unparse(a) for a in fcalls[0].args] != ["control", "event"]:
        _bad("_combine_event_and_control does not call _CTRL_EVENT_FORMAT.format(control, event) exactly once")
    # ---- U -------------------------------------------------------------------------
    load = _fn(_cls(up, "UtilityParity"), "load_data")
    env_u = {"event_select": "es", "group_event_select": "ges", "self.prob_event[e]": "pe",
             "self.prob_group_event[e, g]": "pge", "self.ratio": "r"}
    u_plus = expr(_assign_value(load, "self.U['+', e, g]"), env_u)
    u_minus = expr(_assign_value(load, "self.U['-', e, g]"), env_u)
    es_def = ast.unparse(_assign_value(load, "event_select"))
    ges_def = ast.unparse(_assign_value(load, "group_event_select"))
    if es_def != "1 * (self.tags[_EVENT] == e)" or ges_def != "event_select * (self.tags[_GROUP_ID] == g)":
        _bad(f"event/group selectors changed: {es_def!r} / {ges_def!r}")
    pe_def = ast.unparse(_assign_value(load, "self.prob_event"))
    pge_def = ast.unparse(_assign_value(load, "self.prob_group_event"))
    if pe_def != "self.tags.groupby(_EVENT).size() / self.total_samples" or \
            pge_def != "self.tags.groupby([_EVENT, _GROUP_ID]).size() / self.total_samples":
        _bad(f"prob_event / prob_group_event changed: {pe_def!r} / {pge_def!r}")
    ud = expr(_assign_value(load, "self.utility_diff"), {"self.utilities[:, 1]": "u1", "self.utilities[:, 0]": "u0"})
    d0, d1 = _vstack_T_pair(_assign_value(load, "utilities"))
    def_u0, def_u1 = _const_column(d0), _const_column(d1)
    # ---- gamma / signed_weights / bound ---------------------------------------------
    gam = _fn(_cls(up, "UtilityParity"), "gamma")
    pred = expr(_assign_value(gam, "pred"), {"self.utility_diff.T": "ud", "predictions": "p", "self.utilities[:, 0]": "u0"})
    g_signed = expr(_assign_value(gam, "g_signed"), {"self.U.T.dot(pred)": "utp", "self.total_samples": "n"})
    sw = expr(_return_value(_fn(_cls(up, "UtilityParity"), "signed_weights")),
              {"self.utility_diff": "ud", "self.U.dot(lambda_vec)": "ul"})
    bnd = ast.unparse(_return_value(_fn(_cls(up, "UtilityParity"), "bound")))
    if bnd != "pd.Series(self.eps, index=self.index)":
        _bad(f"bound(): {bnd!r}")
    # ---- events of the five moments -----------------------------------------------------
    def base_event(cname):
        return _assign_value(_fn(_cls(up, cname), "load_data"), "base_event")
    _all_event(base_event("DemographicParity"))
    _all_event(base_event("ErrorRateParity"))
    sep_t, tpr_c = _where_label(base_event("TruePositiveRateParity"))
    sep_f, fpr_c = _where_label(base_event("FalsePositiveRateParity"))
    sep_e = _label_event(base_event("EqualizedOdds"))
    if not (sep_t == sep_f == sep_e):
        _bad("label event separators differ between moments")
    e0, e1 = _vstack_T_pair(_assign_value(_fn(_cls(up, "ErrorRateParity"), "load_data"), "utilities"))
    erp_u0, erp_u1 = expr(e0, {"y_train": "y"}), expr(e1, {"y_train": "y"})
    for cname in ("DemographicParity", "TruePositiveRateParity", "FalsePositiveRateParity", "EqualizedOdds",
                  "ErrorRateParity"):
        ev = ast.unparse(_assign_value(_fn(_cls(up, cname), "load_data"), "event"))
        if ev != "_merge_event_and_control_columns(base_event, cf_train)":
            _bad(f"{cname}: event = {ev!r}")
    # ---- ErrorRate / BoundedGroupLoss ------------------------------------------------
    erc = _cls(er, "ErrorRate")
    obj_w = expr(_assign_value(_fn(erc, "signed_weights"), "weights"),
                 {"self.fp_cost": "fp", "self.fn_cost": "fn", "self.tags[_LABEL]": "y"})
    err_val = expr(_assign_value(_fn(erc, "gamma"), "error_value"),
                   {"total_fn_cost": "tfn", "total_fp_cost": "tfp", "self.total_samples": "n"})
    tfn = ast.unparse(_assign_value(_fn(erc, "gamma"), "total_fn_cost"))
    tfp = ast.unparse(_assign_value(_fn(erc, "gamma"), "total_fp_cost"))
    se = ast.unparse(_assign_value(_fn(erc, "gamma"), "signed_errors"))
    if (tfn, tfp, se) != ("np.sum(signed_errors[signed_errors > 0] * self.fn_cost)",
                          "np.sum(-signed_errors[signed_errors < 0] * self.fp_cost)",
                          "self.tags[_LABEL] - pred"):
        _bad(f"ErrorRate.gamma changed: {se!r}; {tfn!r}; {tfp!r}")
    clm = _cls(bg, "ConditionalLossMoment")
    adjust_nodes = [n for n in ast.walk(_fn(clm, "signed_weights")) if isinstance(n, ast.Assign)
                    and ast.unparse(n.targets[0]) == "adjust"]
    if len(adjust_nodes) != 2 or ast.unparse(adjust_nodes[0].value) != "pd.Series(1.0, index=self.index)":
        _bad("ConditionalLossMoment.signed_weights: adjust assignments changed")
    adjust = expr(adjust_nodes[1].value, {"lambda_vec": "l", "self.prob_attr": "p"})
    pa = ast.unparse(_assign_value(_fn(clm, "load_data"), "self.prob_attr"))
    if pa != "self.tags.groupby(_GROUP_ID).size() / self.total_samples":
        _bad(f"prob_attr changed: {pa!r}")
    env_l = {"y_true": "y", "y_pred": "p", "self.min_val": "lo", "self.max_val": "hi"}
    sq = expr(_return_value(_fn(_cls(bg, "SquareLoss"), "eval")), env_l)
    ab = expr(_return_value(_fn(_cls(bg, "AbsoluteLoss"), "eval")), env_l)
    zo = _cls(bg, "ZeroOneLoss")
    zo_init = ast.unparse(_fn(zo, "__init__").body[-1])
    if [ast.unparse(b) for b in zo.bases] != ["AbsoluteLoss"] or zo_init != "super().__init__(0, 1)":
        _bad(f"ZeroOneLoss changed: {zo_init!r}")

    lean = f"""/-
GENERATED by harness/lifters/moments.py from fairlearn/reductions/_moments/*.py — do not edit.
Closed arithmetic expressions and string constants of the reduction moments.
-/
namespace MomentsSrc

def absR (x : Rat) : Rat := if x < 0 then -x else x
/-- `np.clip(x, lo, hi)` = minimum(hi, maximum(x, lo)) -/
def clipR (x lo hi : Rat) : Rat := let m := if x < lo then lo else x; if hi < m then hi else m
/-- `np.clip(s, lo, hi)` of a pandas Series `s` dispatches to `Series.clip(lo, hi)`, which first swaps scalar
    bounds given in the wrong order (`lower, upper = min(lower, upper), max(lower, upper)`) -/
def clipS (x lo hi : Rat) : Rat := if hi < lo then clipR x hi lo else clipR x lo hi

/-- `_CTRL_EVENT_FORMAT.format(control, event)` -/
def ctrlFormat (control event : String) : String := {_lean_str(pre)} ++ control ++ {_lean_str(mid)} ++ event ++ {_lean_str(post)}
def allEvent : String := {_lean_str(all_ev)}
/-- `_LABEL + sep + str(v)` for an integer label `v` -/
def labelEvent (v : Int) : String := {_lean_str(label)} ++ {_lean_str(sep_e)} ++ toString v
def tprLabel : Int := {tpr_c}
def fprLabel : Int := {fpr_c}
def defaultDifferenceBound : Rat := {_lean_rat(default_eps)}

/-- `self.U["+", e, g]` for one row: es = 1[event = e], ges = es * 1[group = g], pe = P(e), pge = P(e, g), r = ratio -/
def uPlus (es ges pe pge r : Rat) : Rat := {u_plus}
/-- `self.U["-", e, g]` -/
def uMinus (es ges pe pge r : Rat) : Rat := {u_minus}
/-- `self.utility_diff` -/
def utilDiff (u0 u1 : Rat) : Rat := {ud}
def defaultU0 : Rat := {def_u0}
def defaultU1 : Rat := {def_u1}
/-- ErrorRateParity utilities `[y, 1 - y]` -/
def erpU0 (y : Rat) : Rat := {erp_u0}
def erpU1 (y : Rat) : Rat := {erp_u1}
/-- `pred` inside `UtilityParity.gamma` -/
def predOf (ud p u0 : Rat) : Rat := {pred}
/-- `g_signed` entry: utp = (U^T pred) entry, n = total_samples -/
def gammaOf (utp n : Rat) : Rat := {g_signed}
/-- `signed_weights` entry: ul = (U lambda) entry -/
def swOf (ud ul : Rat) : Rat := {sw}
/-- `ErrorRate.signed_weights` entry -/
def objWeight (fp fn y : Rat) : Rat := {obj_w}
/-- `ErrorRate.gamma`: error_value -/
def errorValue (tfn tfp n : Rat) : Rat := {err_val}
/-- `ConditionalLossMoment.signed_weights`: adjust entry, l = lambda_g, p = P(g) -/
def bglAdjust (l p : Rat) : Rat := {adjust}
/-- `SquareLoss.eval` / `AbsoluteLoss.eval` on numpy arrays … -/
def squareLoss (lo hi y p : Rat) : Rat := {sq}
def absoluteLoss (lo hi y p : Rat) : Rat := {ab}
/-- … and the same expressions on pandas Series (what `ConditionalLossMoment.gamma` passes) -/
def squareLossS (lo hi y p : Rat) : Rat := {sq.replace("(clipR ", "(clipS ")}
def absoluteLossS (lo hi y p : Rat) : Rat := {ab.replace("(clipR ", "(clipS ")}

end MomentsSrc
"""
    meta = {"source": [UP, MO, ER, BG], "uPlus": u_plus, "uMinus": u_minus, "gammaOf": g_signed, "swOf": sw,
            "ctrl_format": fmt, "objWeight": obj_w}
    return "MomentsSrc.lean", lean, meta
