"""Lifter for the closed arithmetic expressions and string constants of the reduction moments
(fairlearn/reductions/_moments/{moment,utility_parity,error_rate,bounded_group_loss}.py).

Generates lean/FairModel/Generated/MomentsSrc.lean.  `Model/Moments.lean` computes with these
definitions and the C06/C07 theorems unfold them, so that a change of a sign, a ratio factor, a
normalisation or a format string in the source either breaks a proof or changes what the compiled
model computes.  Also lifted: `_combine_event_and_control` with its notnull guard (`combineEvent`),
`_merge_event_and_control_columns` (`mergeEvent`) and the `self.ratio` of `UtilityParity.__init__` (`parityRatio`; the
slack and the accept / reject rule are `parityEps` / `parityCtor` of Generated/ValidationTables.lean).  Everything that is not of the expected shape is refused."""
import ast
import copy
import os
from fractions import Fraction

from .. import translate
from . import normalize

UP = "fairlearn/reductions/_moments/utility_parity.py"
MO = "fairlearn/reductions/_moments/moment.py"
ER = "fairlearn/reductions/_moments/error_rate.py"
BG = "fairlearn/reductions/_moments/bounded_group_loss.py"


def _bad(msg):
    raise translate.Untranslatable("moments lifter: " + msg)


def _parse(repo, rel):
    with open(os.path.join(repo, rel)) as f:
        return _prepare(normalize.parse(f.read()), rel)


# locals of the pinned source in order of first binding (normalize.binding_order), per anchored method
PINNED_LOCALS = {
    UP: {
        "UtilityParity.load_data": ["signed", "e", "g", "event_select", "group_event_select", "event_vals", "group_vals",
                                    "col_count", "i"],
        "UtilityParity.gamma": ["predictions", "pred", "g_signed"],
        "UtilityParity.bound": [],
        "UtilityParity.signed_weights": [],
        "DemographicParity.load_data": ["_", "y_train", "sf_train", "cf_train", "base_event", "event"],
        "TruePositiveRateParity.load_data": ["_", "y_train", "sf_train", "cf_train", "v", "base_event", "event"],
        "FalsePositiveRateParity.load_data": ["_", "y_train", "sf_train", "cf_train", "v", "base_event", "event"],
        "EqualizedOdds.load_data": ["_", "y_train", "sf_train", "cf_train", "v", "base_event", "event"],
        "ErrorRateParity.load_data": ["_", "y_train", "sf_train", "cf_train", "utilities", "base_event", "event"],
    },
    ER: {
        "ErrorRate.gamma": ["pred", "signed_errors", "total_fn_cost", "total_fp_cost", "error_value", "error"],
        "ErrorRate.signed_weights": ["weights"],
    },
    BG: {
        "ConditionalLossMoment.default_objective": [],
        "ConditionalLossMoment.gamma": ["expect_attr"],
        "ConditionalLossMoment.signed_weights": ["adjust", "row"],
        "SquareLoss.__init__": [], "SquareLoss.eval": [], "AbsoluteLoss.__init__": [], "AbsoluteLoss.eval": [],
    },
}
# numeric expressions / comparisons of the pinned source (commuted or mirrored spellings are brought back to these)
PINNED_ARITH = [
    "1 * (self.tags[_EVENT] == e)", "event_select * (self.tags[_GROUP_ID] == g)",
    "event_select / self.prob_event[e] + -self.ratio * group_event_select / self.prob_group_event[e, g]",
    "-self.ratio * event_select / self.prob_event[e] + group_event_select / self.prob_group_event[e, g]",
    "self.utility_diff.T * predictions + self.utilities[:, 0]", "self.utility_diff * self.U.dot(lambda_vec)",
    "-self.fp_cost + (self.fp_cost + self.fn_cost) * self.tags[_LABEL]", "(total_fn_cost + total_fp_cost) / self.total_samples",
    "signed_errors[signed_errors > 0] * self.fn_cost", "-signed_errors[signed_errors < 0] * self.fp_cost",
]
PINNED_TESTS = ["signed_errors > 0", "signed_errors < 0", "y_train == 1", "y_train == 0", "self.tags[_EVENT] == e",
                "self.tags[_GROUP_ID] == g"]
READS = {"groupby", "size", "clip", "abs", "sum", "dot", "zeros", "ones", "mean"}
SERIES = ["data", "index", "dtype", "name", "copy"]


class _VstackList(ast.NodeTransformer):
    """`np.vstack((a, b))` -> `np.vstack([a, b])` (any sequence of arrays is accepted)"""

    def visit_Call(self, node):
        self.generic_visit(node)
        if ast.unparse(node.func) == "np.vstack" and node.args and isinstance(node.args[0], ast.Tuple):
            node.args[0] = ast.copy_location(ast.List(elts=node.args[0].elts, ctx=ast.Load()), node.args[0])
        return node


U_LOOP_LOCALS = ["e", "g", "event_select", "group_event_select"]


def _prepare_u_loop(fn):
    """the `for e, g in self.prob_group_event.index:` loop of UtilityParity.load_data as a scope of its own: its locals
    are not read outside it (checked), so they may be renamed / its temporaries inlined independently of the later
    loops that reuse the names `e` and `g`"""
    for k, st in enumerate(fn.body):
        if isinstance(st, ast.For) and ast.unparse(st.iter) == "self.prob_group_event.index" and not st.orelse:
            shell = ast.FunctionDef(name="_u_loop", args=ast.arguments(posonlyargs=[], args=[], kwonlyargs=[], kw_defaults=[],
                                                                     defaults=[]), body=[st], decorator_list=[])
            mine = set(normalize.binding_order(shell))
            rest = fn.body[:k] + fn.body[k + 1:]
            outside = {n.id for s_ in rest for n in ast.walk(s_) if isinstance(n, ast.Name)}
            stores_after = {n.id for s_ in fn.body[k + 1:] for n in ast.walk(s_) if isinstance(n, ast.Name)
                            and isinstance(n.ctx, ast.Store)}
            before = {n.id for s_ in fn.body[:k] for n in ast.walk(s_) if isinstance(n, ast.Name)}
            # a loop local may reappear outside only as a name that is re-bound later (`for e in event_vals`), never before
            if (mine & before) or not (mine & outside) <= stores_after:
                return
            inline_temps(shell, U_LOOP_LOCALS, READS)
            new = normalize.rename_locals(shell, U_LOOP_LOCALS)
            if set(normalize.binding_order(new)) & before:
                return
            fn.body[k] = new.body[0]
            return


def _prepare(tree, rel):
    """undo, in the anchored methods, what a behaviour-preserving refactor may have introduced: temporaries the pinned
    source does not have, renamed locals, commuted numeric `+` / `*`, mirrored comparisons"""
    for cls in tree.body:
        if not isinstance(cls, ast.ClassDef):
            continue
        for k, fn in enumerate(cls.body):
            pinned = PINNED_LOCALS.get(rel, {}).get(f"{cls.name}.{getattr(fn, 'name', None)}")
            if pinned is None or not isinstance(fn, ast.FunctionDef):
                continue
            _VstackList().visit(fn)
            if f"{cls.name}.{fn.name}" == "UtilityParity.load_data":
                _prepare_u_loop(fn)
            inline_temps(fn, pinned, READS)
            fn = cls.body[k] = normalize.rename_locals(fn, pinned)
            respell(fn, arith=PINNED_ARITH, tests=PINNED_TESTS)
    return tree


def _cls(tree, name):
    for n in tree.body:
        if isinstance(n, ast.ClassDef) and n.name == name:
            return n
    _bad(f"class {name} not found")


def _fn(cls, name):
    for n in cls.body:
        if isinstance(n, ast.FunctionDef) and n.name == name:
            return n
    _bad(f"method {cls.name}.{name} not found")


def _module_const(tree, name):
    for n in tree.body:
        if isinstance(n, ast.Assign) and len(n.targets) == 1 and isinstance(n.targets[0], ast.Name) \
                and n.targets[0].id == name:
            if isinstance(n.value, ast.Constant):
                return n.value
            _bad(f"{name} is not a literal")
    _bad(f"constant {name} not found")


def _rat_of_const(node, src_seg=None):
    v = node.value
    if isinstance(v, bool):
        _bad("boolean where a number is expected")
    if isinstance(v, int):
        return Fraction(v)
    if isinstance(v, float):
        return Fraction(repr(v))  # the decimal literal, e.g. 0.01 -> 1/100
    _bad(f"unsupported constant {v!r}")


def _lean_rat(q):
    q = Fraction(q)
    if q.denominator == 1:
        return f"({q.numerator} : Rat)"
    return f"(({q.numerator} : Rat) / {q.denominator})"


def _lean_str(s):
    out = s.replace("\\", "\\\\").replace('"', '\\"')
    if any(ord(c) < 32 or ord(c) > 126 for c in s):
        _bad(f"non-ASCII string constant {s!r}")
    return '"' + out + '"'


def expr(node, env):
    """Python arithmetic expression -> fully parenthesised Lean term over Rat.
    `env` maps the *unparsed text* of a leaf sub-expression to a Lean variable."""
    txt = ast.unparse(node)
    if txt in env:
        return env[txt]
    if isinstance(node, ast.BinOp):
        a, b = expr(node.left, env), expr(node.right, env)
        if isinstance(node.op, ast.Add):
            return f"({a} + {b})"
        if isinstance(node.op, ast.Sub):
            return f"({a} - {b})"
        if isinstance(node.op, ast.Mult):
            return f"({a} * {b})"
        if isinstance(node.op, ast.Div):
            return f"({a} / {b})"
        if isinstance(node.op, ast.Pow) and isinstance(node.right, ast.Constant) and node.right.value == 2:
            return f"({a} * {a})"
        _bad(f"operator in {txt!r}")
    if isinstance(node, ast.UnaryOp) and isinstance(node.op, ast.USub):
        return f"(-{expr(node.operand, env)})"
    if isinstance(node, ast.Constant):
        return _lean_rat(_rat_of_const(node))
    if isinstance(node, ast.Call):
        f = ast.unparse(node.func)
        if f in ("np.abs", "abs", "np.absolute") and len(node.args) == 1 and not node.keywords:
            return f"(absR {expr(node.args[0], env)})"
        if f == "np.clip" and len(node.args) == 3 and not node.keywords:
            a, lo, hi = (expr(x, env) for x in node.args)
            return f"(clipR {a} {lo} {hi})"
    _bad(f"cannot translate {txt!r}")


# ---------------------------------------------------------------------------------------------------------------------
#  Behaviour-preserving re-spellings shared by the reductions lifters (oracle, lossrange, eg, egloop, egpredict).
#  They live here because normalize.py is owned elsewhere; nothing below widens what a lifter accepts semantically.
# ---------------------------------------------------------------------------------------------------------------------
_SCOPES = (ast.Lambda, ast.ListComp, ast.SetComp, ast.DictComp, ast.GeneratorExp, ast.FunctionDef, ast.AsyncFunctionDef,
           ast.ClassDef)


def _eager_children(node):
    """sub-expressions of `node` that are evaluated exactly once whenever `node` is (no lambda / comprehension bodies,
    no conditionally evaluated operands)"""
    if isinstance(node, _SCOPES):
        return
    if isinstance(node, ast.IfExp):
        kids = [node.test]
    elif isinstance(node, ast.BoolOp):
        kids = node.values[:1]
    else:
        kids = list(ast.iter_child_nodes(node))
    for k in kids:
        if isinstance(k, _SCOPES):
            continue
        yield k
        yield from _eager_children(k)


def _eager_roots(st):
    """the expressions a statement evaluates exactly once, before anything of a nested block"""
    if isinstance(st, (ast.Assign, ast.AugAssign, ast.Expr, ast.Return)):
        return [st]
    if isinstance(st, ast.If):
        return [st.test]
    if isinstance(st, ast.For):
        return [st.iter]
    return []


def _bound_bases(st):
    """names a statement (re)binds or mutates through an attribute / subscript store, anywhere inside it"""
    out = set()
    for n in ast.walk(st):
        if isinstance(n, (ast.Name, ast.Attribute, ast.Subscript)) and isinstance(n.ctx, (ast.Store, ast.Del)):
            b = n
            while isinstance(b, (ast.Attribute, ast.Subscript)):
                b = b.value
            if isinstance(b, ast.Name):
                out.add(b.id)
        elif isinstance(n, (ast.FunctionDef, ast.AsyncFunctionDef, ast.ClassDef)):
            out.add(n.name)
    return out


def _chain(node):
    """`a.b.c[...]...` -> ("a", "b", "c") (subscripts dropped); None when the base is not a plain name"""
    while isinstance(node, ast.Subscript):
        node = node.value
    parts = []
    while isinstance(node, ast.Attribute):
        parts.append(node.attr)
        node = node.value
        while isinstance(node, ast.Subscript):
            node = node.value
    if not isinstance(node, ast.Name):
        return None
    return tuple([node.id] + parts[::-1])


def _conflicts(st, e):
    """may executing `st` change the value of the expression `e`?  (rebinding of a name read by `e`, or a store through
    an attribute / subscript path that `e` reads, e.g. `self.U[k] = ...` against `self.U.dot(x)`; not against
    `self.prob_event[k]`)"""
    free = {m.id for m in ast.walk(e) if isinstance(m, ast.Name)}
    inner = {id(m.value) for m in ast.walk(e) if isinstance(m, ast.Attribute)}
    reads = {_chain(m) for m in ast.walk(e) if isinstance(m, (ast.Attribute, ast.Name)) and id(m) not in inner}
    reads.discard(None)
    for n in ast.walk(st):
        if isinstance(n, ast.Name) and isinstance(n.ctx, (ast.Store, ast.Del)) and n.id in free:
            return True
        if isinstance(n, (ast.FunctionDef, ast.AsyncFunctionDef, ast.ClassDef)) and n.name in free:
            return True
        if isinstance(n, (ast.Attribute, ast.Subscript)) and isinstance(n.ctx, (ast.Store, ast.Del)):
            w = _chain(n)
            if w is None:
                return True
            if len(w) == 1:
                if w[0] in free:
                    return True     # `x[k] = ...` mutates the object `x` that `e` reads
                continue
            for r in reads:
                k = min(len(r), len(w))
                if r[:k] == w[:k]:
                    return True
    return False


def _blocks(fn):
    for n in ast.walk(fn):
        for field in ("body", "orelse", "finalbody"):
            v = getattr(n, field, None)
            if isinstance(v, list) and v and isinstance(v[0], ast.stmt):
                yield v


def _reads_only(e, pure_calls):
    """no call in `e` other than builtins normalize knows to be pure and the methods / functions named in `pure_calls`"""
    for n in ast.walk(e):
        if isinstance(n, ast.Call):
            f = n.func
            nm = f.attr if isinstance(f, ast.Attribute) else f.id if isinstance(f, ast.Name) else None
            if nm in pure_calls or (isinstance(f, ast.Name) and nm in normalize.PURE_CALLS):
                continue
            return False
        if isinstance(n, (ast.Await, ast.Yield, ast.YieldFrom, ast.NamedExpr, ast.Lambda)):
            return False
    return True


def inline_temps(fn, keep, pure_calls=()):
    """Inline, in place, the temporaries of `fn` that the pinned source does not have:  `t = E` where the local `t` is
    not in `keep`, is bound exactly once in `fn`, and every read of it is evaluated exactly once by a LATER statement of
    the same block (not inside a lambda / comprehension / nested block / conditionally evaluated operand).
      * the statements between the definition and the last reader must be readers, temporaries of the same kind, or --
        when E only reads (no call except builtins and the methods named in `pure_calls`) -- plain assignments; none of them may bind, or store through, a name that occurs in E (the last reader may);
      * a temporary that is read more than once is only inlined when E only reads.
    Under these conditions `t` denotes the value of E at every reader (the calls the reductions lifters anchor in --
    `.sum()`, `.abs()`, `signed_weights()`, `gap()` ... -- are reads; the order in which the operands of ONE anchored
    expression are evaluated is not part of what is lifted).  Everything else is left alone, so the lifter still sees
    -- and refuses -- what it does not understand."""
    keep = set(keep)
    pure_calls = set(pure_calls)
    for _ in range(64):
        if len(normalize.binding_order(fn)) <= len(keep):
            return fn       # no more locals than the pinned source: nothing was introduced (a renamed local is not a temporary)
        stores, loads, banned = {}, {}, set()
        for n in ast.walk(fn):
            if isinstance(n, ast.Name):
                d = loads if isinstance(n.ctx, ast.Load) else stores
                d[n.id] = d.get(n.id, 0) + 1
            elif isinstance(n, (ast.Global, ast.Nonlocal)):
                banned.update(n.names)
            elif isinstance(n, ast.arg):
                banned.add(n.arg)
            elif isinstance(n, (ast.FunctionDef, ast.AsyncFunctionDef, ast.ClassDef)) and n is not fn:
                banned.add(n.name)
            elif isinstance(n, ast.ExceptHandler) and n.name:
                banned.add(n.name)
            elif isinstance(n, ast.alias):
                banned.add((n.asname or n.name).split(".")[0])

        def is_temp(st):
            return (isinstance(st, ast.Assign) and len(st.targets) == 1 and isinstance(st.targets[0], ast.Name)
                    and st.targets[0].id not in keep and st.targets[0].id not in banned
                    and stores.get(st.targets[0].id) == 1 and loads.get(st.targets[0].id, 0) >= 1
                    and not any(isinstance(m, (ast.Await, ast.Yield, ast.YieldFrom, ast.NamedExpr)) for m in ast.walk(st.value)))

        def try_inline(block, i):
            st = block[i]
            t, e = st.targets[0].id, st.value
            free = {m.id for m in ast.walk(e) if isinstance(m, ast.Name)}
            pure = _reads_only(e, pure_calls)
            want = loads[t]
            if want > 1 and not pure:
                return False
            sites = []
            for j in range(i + 1, len(block)):
                s = block[j]
                eager = [x for root in _eager_roots(s) for x in [root] + list(_eager_children(root))]
                eager_ids = {id(x) for x in eager}
                here = []
                for parent in eager:
                    for field, val in ast.iter_fields(parent):
                        for k, v in enumerate(val if isinstance(val, list) else [val]):
                            if isinstance(v, ast.Name) and v.id == t and isinstance(v.ctx, ast.Load) and id(v) in eager_ids:
                                here.append((parent, field, k if isinstance(val, list) else None))
                total_here = sum(1 for m in ast.walk(s) if isinstance(m, ast.Name) and m.id == t)
                if total_here != len(here):
                    return False        # read somewhere that is not evaluated exactly once
                sites += here
                if len(sites) == want:
                    break
                if t in _bound_bases(s) or _conflicts(s, e):
                    return False
                if here or is_temp(s):
                    continue
                if pure and isinstance(s, (ast.Assign, ast.AugAssign)):
                    continue
                return False
            if len(sites) != want:
                return False
            for n_, (parent, field, k) in enumerate(sites):
                v = e if n_ == 0 else copy.deepcopy(e)
                if k is None:
                    setattr(parent, field, v)
                else:
                    getattr(parent, field)[k] = v
            del block[i]
            return True

        done = False
        for block in _blocks(fn):
            for i, st in enumerate(block):
                if is_temp(st) and try_inline(block, i):
                    done = True
                    break
            if done:
                break
        if not done:
            return fn
    return fn


def call_like(node, params, pinned_src):
    """Re-spell the arguments of the call `node` the way the pinned call `pinned_src` spells them (which of the parameters
    `params` -- the documented signature, in order -- are positional and in which order the keywords come).  Binding
    arguments to parameters is what Python does, so the result is the same call.  Returned unchanged (so that the
    literal comparison fails and the lifter refuses) when the arguments cannot be bound unambiguously."""
    pin = ast.parse(pinned_src, mode="eval").body
    if not isinstance(node, ast.Call) or not isinstance(pin, ast.Call):
        return node
    if any(isinstance(a, ast.Starred) for a in node.args) or any(k.arg is None for k in node.keywords):
        return node
    if len(node.args) > len(params):
        return node
    bound = dict(zip(params, node.args))
    for k in node.keywords:
        if k.arg in bound:
            return node
        bound[k.arg] = k.value
    npos = len(pin.args)
    if any(p not in bound for p in params[:npos]):
        return node
    new_args = [bound.pop(p) for p in params[:npos]]
    order = [k.arg for k in pin.keywords]
    kws = [ast.keyword(arg=a, value=bound.pop(a)) for a in order if a in bound]
    kws += [ast.keyword(arg=a, value=v) for a, v in bound.items()]
    return ast.copy_location(ast.Call(func=node.func, args=new_args, keywords=kws), node)


_FLIP = {ast.Lt: ast.Gt, ast.Gt: ast.Lt, ast.LtE: ast.GtE, ast.GtE: ast.LtE, ast.Eq: ast.Eq, ast.NotEq: ast.NotEq}


def _order_like(node, pin):
    """`node` equals `pin` modulo commutativity: swap operands of `+` / `*` until it is spelled like `pin`"""
    ck = normalize.commutative_key
    if isinstance(node, ast.BinOp) and isinstance(pin, ast.BinOp) and type(node.op) is type(pin.op):
        if ck(node.left) == ck(pin.left) and ck(node.right) == ck(pin.right):
            pass
        elif isinstance(node.op, (ast.Add, ast.Mult)) and ck(node.left) == ck(pin.right) and ck(node.right) == ck(pin.left):
            node.left, node.right = node.right, node.left
        else:
            return node
        node.left, node.right = _order_like(node.left, pin.left), _order_like(node.right, pin.right)
    elif isinstance(node, ast.UnaryOp) and isinstance(pin, ast.UnaryOp):
        node.operand = _order_like(node.operand, pin.operand)
    return node


class Respell(ast.NodeTransformer):
    """Bring behaviour-preserving spellings back to the spelling of the pinned source (so that the literal
    `ast.unparse(...) == "..."` matchers and the emitted text do not depend on them):
      arith      numeric expressions that equal one of the pinned expressions up to swapping the operands of `+` / `*`
      tests      comparisons `b > a` / `b == a` whose mirrored form is a pinned test; `and` / `or` whose operands are a
                 permutation of the (side-effect free) operands of a pinned test
      `not (a in b)` -> `a not in b`, `not (a is b)` -> `a is not b`
      aug        `T = T <op> e` -> `T <op>= e` for the listed targets (rebinding vs in-place update of a local number /
                 an unaliased Series)
      calls      {method or function name: (parameter names, pinned call)}: keyword <-> positional (moments.call_like)
    Nothing else is touched."""

    def __init__(self, arith=(), tests=(), aug=(), calls=None):
        self.arith = [ast.parse(a, mode="eval").body for a in arith]
        self.arith_keys = {normalize.commutative_key(a): a for a in self.arith}
        self.tests = {ast.unparse(ast.parse(t, mode="eval").body): ast.parse(t, mode="eval").body for t in tests}
        self.aug = set(aug)
        self.calls = calls or {}

    def visit_BinOp(self, node):
        node = self.generic_visit(node)         # bottom-up: operands inside calls first
        pin = self.arith_keys.get(normalize.commutative_key(node))
        if pin is not None:
            return _order_like(node, pin)       # the source's own nodes (and source positions), operands in pinned order
        return node

    def visit_Compare(self, node):
        node = self.generic_visit(node)
        if len(node.ops) == 1 and type(node.ops[0]) in _FLIP and ast.unparse(node) not in self.tests:
            mirror = ast.Compare(left=node.comparators[0], ops=[_FLIP[type(node.ops[0])]()], comparators=[node.left])
            if ast.unparse(mirror) in self.tests:
                return ast.copy_location(mirror, node)
        return node

    def visit_BoolOp(self, node):
        node = self.generic_visit(node)
        txt = sorted(ast.unparse(v) for v in node.values)
        for pin in self.tests.values():
            if isinstance(pin, ast.BoolOp) and type(pin.op) is type(node.op) and len(set(txt)) == len(txt) \
                    and sorted(ast.unparse(v) for v in pin.values) == txt and all(normalize.is_pure(v) for v in node.values):
                by = {ast.unparse(v): v for v in node.values}
                node.values = [by[ast.unparse(v)] for v in pin.values]
                break
        return node

    def visit_UnaryOp(self, node):
        node = self.generic_visit(node)
        o = node.operand
        if isinstance(node.op, ast.Not) and isinstance(o, ast.Compare) and len(o.ops) == 1:
            neg = {ast.In: ast.NotIn, ast.Is: ast.IsNot}.get(type(o.ops[0]))
            if neg is not None:
                return ast.copy_location(ast.Compare(left=o.left, ops=[neg()], comparators=o.comparators), node)
        return node

    def visit_Assign(self, node):
        node = self.generic_visit(node)
        if len(node.targets) == 1 and isinstance(node.value, ast.BinOp) and ast.unparse(node.targets[0]) in self.aug \
                and ast.unparse(node.value.left) == ast.unparse(node.targets[0]):
            return ast.copy_location(ast.AugAssign(target=node.targets[0], op=node.value.op, value=node.value.right), node)
        return node

    def visit_Call(self, node):
        node = self.generic_visit(node)
        f = node.func
        nm = f.attr if isinstance(f, ast.Attribute) else f.id if isinstance(f, ast.Name) else None
        for key in (ast.unparse(f), nm):
            if key in self.calls:
                params, pin = self.calls[key]
                return call_like(node, params, pin)
        return node


def respell(fn, **kw):
    Respell(**kw).visit(fn)
    ast.fix_missing_locations(fn)
    return fn


def _assign_value(fn, target_text):
    hits = [n for n in ast.walk(fn) if isinstance(n, ast.Assign) and len(n.targets) == 1
            and ast.unparse(n.targets[0]) == target_text]
    if len(hits) != 1:
        _bad(f"expected exactly one assignment to {target_text} in {fn.name}, found {len(hits)}")
    return hits[0].value


def _return_value(fn):
    rets = [n for n in ast.walk(fn) if isinstance(n, ast.Return)]
    if len(rets) != 1 or rets[0].value is None:
        _bad(f"{fn.name}: expected a single return")
    return rets[0].value


def _vstack_T_pair(node):
    """np.vstack([a, b]).T  ->  (a, b)"""
    if not (isinstance(node, ast.Attribute) and node.attr == "T" and isinstance(node.value, ast.Call)
            and ast.unparse(node.value.func) == "np.vstack" and len(node.value.args) == 1
            and isinstance(node.value.args[0], ast.List) and len(node.value.args[0].elts) == 2):
        _bad(f"utilities are not np.vstack([g0, g1]).T: {ast.unparse(node)}")
    return node.value.args[0].elts


def _const_column(node):
    f = ast.unparse(node.func) if isinstance(node, ast.Call) else None
    if f == "np.zeros":
        return "(0 : Rat)"
    if f == "np.ones":
        return "(1 : Rat)"
    _bad(f"default utility column {ast.unparse(node)!r}")


def _label_event(lam_call):
    """y_train.apply(lambda v: _LABEL + '=' + str(v))  ->  the separator '='"""
    if not (isinstance(lam_call, ast.Call) and ast.unparse(lam_call.func) == "y_train.apply"
            and len(lam_call.args) == 1 and isinstance(lam_call.args[0], ast.Lambda)):
        _bad(f"label event: {ast.unparse(lam_call)}")
    body = lam_call.args[0].body
    if isinstance(body, ast.JoinedStr) and len(body.values) == 3 and isinstance(body.values[1], ast.Constant) \
            and [ast.unparse(v.value) if isinstance(v, ast.FormattedValue) and v.conversion == -1 and v.format_spec is None
                 else None for v in (body.values[0], body.values[2])] == ["_LABEL", "v"]:
        return body.values[1].value         # f"{_LABEL}={v}": the same string
    if not (isinstance(body, ast.BinOp) and isinstance(body.op, ast.Add) and ast.unparse(body.right) == "str(v)"
            and isinstance(body.left, ast.BinOp) and isinstance(body.left.op, ast.Add)
            and ast.unparse(body.left.left) == "_LABEL" and isinstance(body.left.right, ast.Constant)
            and isinstance(body.left.right.value, str)):
        _bad(f"label event lambda: {ast.unparse(body)}")
    return body.left.right.value


def _where_label(node):
    """<label event>.where(y_train == c) -> (separator, c)"""
    if not (isinstance(node, ast.Call) and isinstance(node.func, ast.Attribute) and node.func.attr == "where"
            and len(node.args) == 1 and isinstance(node.args[0], ast.Compare)
            and ast.unparse(node.args[0].left) == "y_train" and len(node.args[0].ops) == 1
            and isinstance(node.args[0].ops[0], ast.Eq) and isinstance(node.args[0].comparators[0], ast.Constant)
            and isinstance(node.args[0].comparators[0].value, int)):
        _bad(f"conditioned event: {ast.unparse(node)}")
    return _label_event(node.func.value), node.args[0].comparators[0].value


def _all_event(node):
    if ast.unparse(call_like(node, SERIES, "f(data=1, index=1)")) != "pd.Series(data=_ALL, index=y_train.index)":
        _bad(f"'all' event: {ast.unparse(node)}")


# ---------------------------------------------------------------------------------------------------------------------
#  `_combine_event_and_control` / `_merge_event_and_control_columns` / the `self.ratio` of `UtilityParity.__init__`
# ---------------------------------------------------------------------------------------------------------------------
def _top_fn(tree, name):
    hits = [n for n in tree.body if isinstance(n, ast.FunctionDef) and n.name == name]
    if len(hits) != 1:
        _bad(f"function {name} not found")
    return hits[0]


def _bool_term(node, atom):
    """and / or / not over the atoms `atom(node) -> Lean Bool term or None`"""
    a = atom(node)
    if a is not None:
        return a
    if isinstance(node, ast.BoolOp):
        op = " && " if isinstance(node.op, ast.And) else " || "
        return "(" + op.join(_bool_term(v, atom) for v in node.values) + ")"
    if isinstance(node, ast.UnaryOp) and isinstance(node.op, ast.Not):
        return f"(!{_bool_term(node.operand, atom)})"
    if isinstance(node, ast.Constant) and isinstance(node.value, bool):
        return "true" if node.value else "false"
    _bad(f"condition of unknown shape: {ast.unparse(node)}")


def _lift_combine(up):
    """`_combine_event_and_control(event, control)` -> Lean term over `event control : Option String` (none = NaN / None):
    an if / early-return chain whose tests are and / or / not of `pd.notnull(p)` / `pd.isnull(p)` / `p is None` and whose
    results are a parameter or `_CTRL_EVENT_FORMAT.format(control, event)` (a NaN argument is formatted as `nanText`)"""
    fn = _top_fn(up, "_combine_event_and_control")
    params = [a.arg for a in fn.args.args]
    if sorted(params) != ["control", "event"] or fn.args.vararg or fn.args.kwarg or fn.args.kwonlyargs or fn.args.defaults:
        _bad(f"_combine_event_and_control parameters changed: {params}")

    def atom(n):
        if isinstance(n, ast.Call) and len(n.args) == 1 and not n.keywords and isinstance(n.args[0], ast.Name) \
                and n.args[0].id in params:
            f = ast.unparse(n.func)
            if f in ("pd.notnull", "pd.notna"):
                return f"{n.args[0].id}.isSome"
            if f in ("pd.isnull", "pd.isna"):
                return f"(!{n.args[0].id}.isSome)"
        if isinstance(n, ast.Compare) and len(n.ops) == 1 and isinstance(n.left, ast.Name) and n.left.id in params \
                and isinstance(n.comparators[0], ast.Constant) and n.comparators[0].value is None:
            if isinstance(n.ops[0], ast.Is):
                return f"(!{n.left.id}.isSome)"
            if isinstance(n.ops[0], ast.IsNot):
                return f"{n.left.id}.isSome"
        return None

    def result(v):
        if isinstance(v, ast.Name) and v.id in params:
            return v.id
        if isinstance(v, ast.Call) and ast.unparse(v.func) == "_CTRL_EVENT_FORMAT.format" and not v.keywords \
                and len(v.args) == 2 and all(isinstance(a, ast.Name) and a.id in params for a in v.args):
            return f"some (ctrlFormat (txt {v.args[0].id}) (txt {v.args[1].id}))"
        _bad(f"_combine_event_and_control returns {ast.unparse(v)!r}")

    def block(stmts):
        stmts = normalize.fold_early_exits(stmts)
        if len(stmts) == 1 and isinstance(stmts[0], ast.Return) and stmts[0].value is not None:
            return result(stmts[0].value)
        if len(stmts) == 1 and isinstance(stmts[0], ast.If) and stmts[0].orelse:
            return f"(if {_bool_term(stmts[0].test, atom)} then {block(stmts[0].body)} else {block(stmts[0].orelse)})"
        _bad(f"_combine_event_and_control body of unknown shape: {[ast.unparse(s)[:60] for s in stmts]}")

    term = block(fn.body)
    if "ctrlFormat" not in term:
        _bad("_combine_event_and_control never formats")
    return term


def _lift_merge(up):
    """`_merge_event_and_control_columns(event_col, control_col)`:  `if control_col is None: return event_col` and otherwise
    `<a>.combine(<b>, _combine_event_and_control)` (pandas calls the function as f(a_i, b_i), row by row) -> Lean term over
    `hasControl : Bool`, `event control : Option String`"""
    fn = _top_fn(up, "_merge_event_and_control_columns")
    params = [a.arg for a in fn.args.args]
    if params != ["event_col", "control_col"]:
        _bad(f"_merge_event_and_control_columns parameters changed: {params}")
    comb = [a.arg for a in _top_fn(up, "_combine_event_and_control").args.args]
    row = {"event_col": "event", "control_col": "control"}

    def atom(n):
        if isinstance(n, ast.Compare) and len(n.ops) == 1 and ast.unparse(n.left) == "control_col" \
                and isinstance(n.comparators[0], ast.Constant) and n.comparators[0].value is None:
            if isinstance(n.ops[0], ast.Is):
                return "(!hasControl)"
            if isinstance(n.ops[0], ast.IsNot):
                return "hasControl"
        return None

    def result(v):
        if isinstance(v, ast.Name) and v.id == "event_col":
            return "event"
        if isinstance(v, ast.Call) and isinstance(v.func, ast.Attribute) and v.func.attr == "combine" \
                and isinstance(v.func.value, ast.Name) and v.func.value.id in row:
            c = call_like(v, ["other", "func", "fill_value"], "f(a, b)")
            if len(c.args) == 2 and not c.keywords and isinstance(c.args[0], ast.Name) and c.args[0].id in row \
                    and c.args[0].id != v.func.value.id and ast.unparse(c.args[1]) == "_combine_event_and_control":
                bound = dict(zip(comb, (row[v.func.value.id], row[c.args[0].id])))
                return f"(combineEvent {bound['event']} {bound['control']})"
        _bad(f"_merge_event_and_control_columns returns {ast.unparse(v)!r}")

    def block(stmts):
        stmts = normalize.fold_early_exits(stmts)
        if len(stmts) == 1 and isinstance(stmts[0], ast.Return) and stmts[0].value is not None:
            return result(stmts[0].value)
        if len(stmts) == 1 and isinstance(stmts[0], ast.If) and stmts[0].orelse:
            t, yes, no = stmts[0].test, stmts[0].body, stmts[0].orelse
            if isinstance(t, ast.Compare) and len(t.ops) == 1 and isinstance(t.ops[0], ast.IsNot):
                # `if x is not None: A else: B` == `if x is None: B else: A` (the pinned spelling)
                t = ast.Compare(left=t.left, ops=[ast.Is()], comparators=t.comparators)
                yes, no = no, yes
            return f"(if {_bool_term(t, atom)} then {block(yes)} else {block(no)})"
        _bad(f"_merge_event_and_control_columns body of unknown shape: {[ast.unparse(s)[:60] for s in stmts]}")

    return block(fn.body)


def _lift_parity_ratio(up):
    """the value `UtilityParity.__init__` stores in `self.ratio` along its if / elif chain (a raising branch gives 0, which
    `Generated.ValidationTables.parityCtor` -- lifted from the same statements -- makes unreachable)"""
    init = _fn(_cls(up, "UtilityParity"), "__init__")
    chains = [s for s in init.body if isinstance(s, ast.If) and any(
        isinstance(n, ast.Assign) and ast.unparse(n.targets[0]) == "self.ratio" for n in ast.walk(s))]
    outside = [n for s in init.body if s not in chains for n in ast.walk(s)
               if isinstance(n, (ast.Assign, ast.AugAssign)) and "self.ratio" in ast.unparse(n)]
    if len(chains) != 1 or outside:
        _bad("UtilityParity.__init__: self.ratio is not assigned by exactly one if / elif chain")
    given = {"difference_bound": "difference_bound_given", "ratio_bound": "ratio_bound_given"}

    def atom(n):
        if isinstance(n, ast.Compare) and len(n.ops) == 1 and isinstance(n.left, ast.Name) and n.left.id in given \
                and isinstance(n.comparators[0], ast.Constant) and n.comparators[0].value is None:
            if isinstance(n.ops[0], ast.Is):
                return f"(!{given[n.left.id]})"
            if isinstance(n.ops[0], ast.IsNot):
                return given[n.left.id]
        return None

    def value(stmts):
        if len(stmts) == 1 and isinstance(stmts[0], ast.If):
            return chain(stmts[0])
        hits = [n for s in stmts for n in ast.walk(s) if isinstance(n, (ast.Assign, ast.AugAssign))
                and "self.ratio" in ast.unparse(n.targets[0] if isinstance(n, ast.Assign) else n.target)]
        top = [s for s in stmts if isinstance(s, ast.Assign) and ast.unparse(s.targets[0]) == "self.ratio"]
        if not hits and stmts and isinstance(stmts[-1], ast.Raise):
            return "(0 : Rat)"
        if len(hits) != 1 or top != hits:
            _bad("UtilityParity.__init__: a branch does not assign self.ratio exactly once (unconditionally)")
        return expr(top[0].value, {"ratio_bound": "ratio_bound"})

    def chain(node):
        if not node.orelse:
            _bad("UtilityParity.__init__: the chain has no final else")
        return f"(if {_bool_term(node.test, atom)} then {value(node.body)} else {value(node.orelse)})"

    return chain(chains[0])


@translate.lifter
def lift_moments(repo):
    up, mo, er, bg = (_parse(repo, p) for p in (UP, MO, ER, BG))
    # ---- string constants ---------------------------------------------------------
    fmt = _module_const(up, "_CTRL_EVENT_FORMAT").value
    if not isinstance(fmt, str) or fmt.count("{0}") != 1 or fmt.count("{1}") != 1 or fmt.index("{0}") > fmt.index("{1}") \
            or "{" in fmt.replace("{0}", "").replace("{1}", ""):
        _bad(f"_CTRL_EVENT_FORMAT {fmt!r}")
    pre, rest = fmt.split("{0}")
    mid, post = rest.split("{1}")
    all_ev = _module_const(mo, "_ALL").value
    label = _module_const(mo, "_LABEL").value
    default_eps = _rat_of_const(_module_const(up, "_DEFAULT_DIFFERENCE_BOUND"))
    # ---- combine(event, control) / merge(event_col, control_col): lifted (the notnull guard included) ---
    combine_term = _lift_combine(up)
    merge_term = _lift_merge(up)
    parity_ratio = _lift_parity_ratio(up)
    # ---- U -------------------------------------------------------------------------
    load = _fn(_cls(up, "UtilityParity"), "load_data")
    env_u = {"event_select": "es", "group_event_select": "ges", "self.prob_event[e]": "pe",
             "self.prob_group_event[e, g]": "pge", "self.ratio": "r"}
    u_plus = expr(_assign_value(load, "self.U['+', e, g]"), env_u)
    u_minus = expr(_assign_value(load, "self.U['-', e, g]"), env_u)
    es_def = ast.unparse(_assign_value(load, "event_select"))
    ges_def = ast.unparse(_assign_value(load, "group_event_select"))
    if es_def != "1 * (self.tags[_EVENT] == e)" or ges_def != "event_select * (self.tags[_GROUP_ID] == g)":
        _bad(f"event/group selectors changed: {es_def!r} / {ges_def!r}")
    pe_def = ast.unparse(_assign_value(load, "self.prob_event"))
    pge_def = ast.unparse(_assign_value(load, "self.prob_group_event"))
    if pe_def != "self.tags.groupby(_EVENT).size() / self.total_samples" or \
            pge_def != "self.tags.groupby([_EVENT, _GROUP_ID]).size() / self.total_samples":
        _bad(f"prob_event / prob_group_event changed: {pe_def!r} / {pge_def!r}")
    ud = expr(_assign_value(load, "self.utility_diff"), {"self.utilities[:, 1]": "u1", "self.utilities[:, 0]": "u0"})
    d0, d1 = _vstack_T_pair(_assign_value(load, "utilities"))
    def_u0, def_u1 = _const_column(d0), _const_column(d1)
    # ---- gamma / signed_weights / bound ---------------------------------------------
    gam = _fn(_cls(up, "UtilityParity"), "gamma")
    pred = expr(_assign_value(gam, "pred"), {"self.utility_diff.T": "ud", "predictions": "p", "self.utilities[:, 0]": "u0"})
    g_signed = expr(_assign_value(gam, "g_signed"), {"self.U.T.dot(pred)": "utp", "self.total_samples": "n"})
    sw = expr(_return_value(_fn(_cls(up, "UtilityParity"), "signed_weights")),
              {"self.utility_diff": "ud", "self.U.dot(lambda_vec)": "ul"})
    bnd = ast.unparse(call_like(_return_value(_fn(_cls(up, "UtilityParity"), "bound")), SERIES, "f(a, index=1)"))
    if bnd != "pd.Series(self.eps, index=self.index)":
        _bad(f"bound(): {bnd!r}")
    # ---- events of the five moments -----------------------------------------------------
    def base_event(cname):
        return _assign_value(_fn(_cls(up, cname), "load_data"), "base_event")
    _all_event(base_event("DemographicParity"))
    _all_event(base_event("ErrorRateParity"))
    sep_t, tpr_c = _where_label(base_event("TruePositiveRateParity"))
    sep_f, fpr_c = _where_label(base_event("FalsePositiveRateParity"))
    sep_e = _label_event(base_event("EqualizedOdds"))
    if not (sep_t == sep_f == sep_e):
        _bad("label event separators differ between moments")
    e0, e1 = _vstack_T_pair(_assign_value(_fn(_cls(up, "ErrorRateParity"), "load_data"), "utilities"))
    erp_u0, erp_u1 = expr(e0, {"y_train": "y"}), expr(e1, {"y_train": "y"})
    for cname in ("DemographicParity", "TruePositiveRateParity", "FalsePositiveRateParity", "EqualizedOdds",
                  "ErrorRateParity"):
        ev = ast.unparse(_assign_value(_fn(_cls(up, cname), "load_data"), "event"))
        if ev != "_merge_event_and_control_columns(base_event, cf_train)":
            _bad(f"{cname}: event = {ev!r}")
    # ---- ErrorRate / BoundedGroupLoss ------------------------------------------------
    erc = _cls(er, "ErrorRate")
    obj_w = expr(_assign_value(_fn(erc, "signed_weights"), "weights"),
                 {"self.fp_cost": "fp", "self.fn_cost": "fn", "self.tags[_LABEL]": "y"})
    err_val = expr(_assign_value(_fn(erc, "gamma"), "error_value"),
                   {"total_fn_cost": "tfn", "total_fp_cost": "tfp", "self.total_samples": "n"})
    tfn = ast.unparse(_assign_value(_fn(erc, "gamma"), "total_fn_cost"))
    tfp = ast.unparse(_assign_value(_fn(erc, "gamma"), "total_fp_cost"))
    se = ast.unparse(_assign_value(_fn(erc, "gamma"), "signed_errors"))
    if (tfn, tfp, se) != ("np.sum(signed_errors[signed_errors > 0] * self.fn_cost)",
                          "np.sum(-signed_errors[signed_errors < 0] * self.fp_cost)",
                          "self.tags[_LABEL] - pred"):
        _bad(f"ErrorRate.gamma changed: {se!r}; {tfn!r}; {tfp!r}")
    clm = _cls(bg, "ConditionalLossMoment")
    adjust_nodes = [n for n in ast.walk(_fn(clm, "signed_weights")) if isinstance(n, ast.Assign)
                    and ast.unparse(n.targets[0]) == "adjust"]
    # which branch is taken without multipliers: `if lambda_vec is None: <ones> else: <lambda / p>` (or the mirrored
    # `if lambda_vec is not None:` with the branches exchanged)
    sel = [n for n in _fn(clm, "signed_weights").body if isinstance(n, ast.If)]
    if len(sel) != 1 or len(sel[0].body) != 1 or len(sel[0].orelse) != 1 or len(adjust_nodes) != 2:
        _bad("ConditionalLossMoment.signed_weights: adjust branches changed")
    tst = ast.unparse(sel[0].test)
    if tst == "lambda_vec is None" and sel[0].body[0] is adjust_nodes[0] and sel[0].orelse[0] is adjust_nodes[1]:
        pass
    elif tst == "lambda_vec is not None" and sel[0].orelse[0] is adjust_nodes[1] and sel[0].body[0] is adjust_nodes[0]:
        adjust_nodes.reverse()
    else:
        _bad(f"ConditionalLossMoment.signed_weights: adjust is not chosen by `lambda_vec is None`: {tst!r}")
    if len(adjust_nodes) != 2 or \
            ast.unparse(call_like(adjust_nodes[0].value, SERIES, "f(a, index=1)")) != "pd.Series(1.0, index=self.index)":
        _bad("ConditionalLossMoment.signed_weights: adjust assignments changed")
    adjust = expr(adjust_nodes[1].value, {"lambda_vec": "l", "self.prob_attr": "p"})
    pa = ast.unparse(_assign_value(_fn(clm, "load_data"), "self.prob_attr"))
    if pa != "self.tags.groupby(_GROUP_ID).size() / self.total_samples":
        _bad(f"prob_attr changed: {pa!r}")
    env_l = {"y_true": "y", "y_pred": "p", "self.min_val": "lo", "self.max_val": "hi"}
    sq = expr(_return_value(_fn(_cls(bg, "SquareLoss"), "eval")), env_l)
    ab = expr(_return_value(_fn(_cls(bg, "AbsoluteLoss"), "eval")), env_l)
    zo = _cls(bg, "ZeroOneLoss")
    zo_last = _fn(zo, "__init__").body[-1]
    if isinstance(zo_last, ast.Expr):
        zo_last = ast.Expr(value=call_like(zo_last.value, ["min_val", "max_val"], "f(a, b)"))
    zo_init = ast.unparse(zo_last)
    if [ast.unparse(b) for b in zo.bases] != ["AbsoluteLoss"] or zo_init != "super().__init__(0, 1)":
        _bad(f"ZeroOneLoss changed: {zo_init!r}")

    lean = f"""/-
GENERATED by harness/lifters/moments.py from fairlearn/reductions/_moments/*.py — do not edit.
Closed arithmetic expressions and string constants of the reduction moments.
-/
namespace MomentsSrc

def absR (x : Rat) : Rat := if x < 0 then -x else x
/-- `np.clip(x, lo, hi)` = minimum(hi, maximum(x, lo)) -/
def clipR (x lo hi : Rat) : Rat := let m := if x < lo then lo else x; if hi < m then hi else m
/-- `np.clip(s, lo, hi)` of a pandas Series `s` dispatches to `Series.clip(lo, hi)`, which first swaps scalar
    bounds given in the wrong order (`lower, upper = min(lower, upper), max(lower, upper)`) -/
def clipS (x lo hi : Rat) : Rat := if hi < lo then clipR x hi lo else clipR x lo hi

/-- `_CTRL_EVENT_FORMAT.format(control, event)` -/
def ctrlFormat (control event : String) : String := {_lean_str(pre)} ++ control ++ {_lean_str(mid)} ++ event ++ {_lean_str(post)}
/-- what `str.format` writes for an argument that is NaN (`none`) -/
def nanText : String := "nan"
def txt (o : Option String) : String := o.getD nanText
/-- `_combine_event_and_control(event, control)` on one row; `none` = NaN / None -/
def combineEvent (event control : Option String) : Option String := {combine_term}
/-- `_merge_event_and_control_columns(event_col, control_col)` on one row; hasControl = `control_col is not None` -/
def mergeEvent (hasControl : Bool) (event control : Option String) : Option String := {merge_term}
/-- the value `UtilityParity.__init__` stores in `self.ratio` (branches that raise: 0, unreachable) -/
def parityRatio (difference_bound_given ratio_bound_given : Bool) (ratio_bound : Rat) : Rat := {parity_ratio}
def allEvent : String := {_lean_str(all_ev)}
/-- `_LABEL + sep + str(v)` for an integer label `v` -/
def labelEvent (v : Int) : String := {_lean_str(label)} ++ {_lean_str(sep_e)} ++ toString v
def tprLabel : Int := {tpr_c}
def fprLabel : Int := {fpr_c}
def defaultDifferenceBound : Rat := {_lean_rat(default_eps)}

/-- `self.U["+", e, g]` for one row: es = 1[event = e], ges = es * 1[group = g], pe = P(e), pge = P(e, g), r = ratio -/
def uPlus (es ges pe pge r : Rat) : Rat := {u_plus}
/-- `self.U["-", e, g]` -/
def uMinus (es ges pe pge r : Rat) : Rat := {u_minus}
/-- `self.utility_diff` -/
def utilDiff (u0 u1 : Rat) : Rat := {ud}
def defaultU0 : Rat := {def_u0}
def defaultU1 : Rat := {def_u1}
/-- ErrorRateParity utilities `[y, 1 - y]` -/
def erpU0 (y : Rat) : Rat := {erp_u0}
def erpU1 (y : Rat) : Rat := {erp_u1}
/-- `pred` inside `UtilityParity.gamma` -/
def predOf (ud p u0 : Rat) : Rat := {pred}
/-- `g_signed` entry: utp = (U^T pred) entry, n = total_samples -/
def gammaOf (utp n : Rat) : Rat := {g_signed}
/-- `signed_weights` entry: ul = (U lambda) entry -/
def swOf (ud ul : Rat) : Rat := {sw}
/-- `ErrorRate.signed_weights` entry -/
def objWeight (fp fn y : Rat) : Rat := {obj_w}
/-- `ErrorRate.gamma`: error_value -/
def errorValue (tfn tfp n : Rat) : Rat := {err_val}
/-- `ConditionalLossMoment.signed_weights`: adjust entry, l = lambda_g, p = P(g) -/
def bglAdjust (l p : Rat) : Rat := {adjust}
/-- `SquareLoss.eval` / `AbsoluteLoss.eval` on numpy arrays … -/
def squareLoss (lo hi y p : Rat) : Rat := {sq}
def absoluteLoss (lo hi y p : Rat) : Rat := {ab}
/-- … and the same expressions on pandas Series (what `ConditionalLossMoment.gamma` passes) -/
def squareLossS (lo hi y p : Rat) : Rat := {sq.replace("(clipR ", "(clipS ")}
def absoluteLossS (lo hi y p : Rat) : Rat := {ab.replace("(clipR ", "(clipS ")}

end MomentsSrc
"""
    meta = {"source": [UP, MO, ER, BG], "uPlus": u_plus, "uMinus": u_minus, "gammaOf": g_signed, "swOf": sw,
            "ctrl_format": fmt, "objWeight": obj_w, "combineEvent": combine_term,
            "mergeEvent": merge_term, "parityRatio": parity_ratio}
    return "MomentsSrc.lean", lean, meta
