"""Lifter for the GEOMETRIC CORE of ThresholdOptimizer: fairlearn/postprocessing/_tradeoff_curve_utilities.py

    _filter_points_to_get_convex_hull   the turn test (expression AND comparison operator), the minimal stack length of the
                                        `while`, which stack entries are r1 / r0, which end `pop` removes
    _interpolate_curve                  p0 (numerator, denominator), p1, y, which hull vertex supplies operation0 / operation1,
                                        what the x column is
    _get_interpolation_indices          `searchsorted` side, the `- 1`, the start / step of the equality correction
    _calculate_tradeoff_points          degenerate-label guard, initial threshold, `-inf` sentinel, tie loop, count update,
                                        the midpoint expression, which metric feeds x / y, sort keys and direction
    _get_scores_labels_and_counts       sort direction of the scores;  _get_counts: n, n_positive, n_negative expressions
    _tradeoff_curve                     hull(filter) of the sorted points, arguments forwarded unchanged

and writes lean/FairModel/Generated/TradeoffSrc.lean.  `Model/Threshold.lean` is DEFINED over these definitions, the
lemmas `Threshold.src_*` (Lemmas/ThresholdSrc.lean) restate what every downstream theorem needs from them.
Local variable names are resolved through their (single) assignment, so renaming a local or re-ordering independent
statements does not matter; any other shape raises Untranslatable.
"""
import ast

from .. import translate
from . import normalize
from ..translate import Untranslatable
from .threshold import _expr, _find_func, _str_const, parse_tcu

TCU = "fairlearn/postprocessing/_tradeoff_curve_utilities.py"
CMP = {ast.LtE: "≤", ast.Lt: "<", ast.GtE: "≥", ast.Gt: ">"}
# the arithmetic terms this lifter emits for the pinned source: a term that differs from one of them only by the order of
# the two operands of a `+` / `*` (commutative in Rat and, bit for bit, in IEEE-754) is emitted in the pinned spelling
PINNED_TERMS = [
    "decide (((r1y - r0y) * (r2x - r0x)) ≤ ((r2y - r0y) * (r1x - r0x)))",
    "(((interpP0 xcur xnext g) * ycur) + ((interpP1 xcur xnext g) * ynext))",
    "((t + s) / (2 : Rat))",
]


def _pin(term):
    return normalize.lean_prefer(term, PINNED_TERMS)


def U(msg):
    return Untranslatable("tradeoff lifter: " + msg)


def _body(fn):
    """statements without the docstring"""
    b = list(fn.body)
    if b and isinstance(b[0], ast.Expr) and isinstance(b[0].value, ast.Constant) and isinstance(b[0].value.value, str):
        b = b[1:]
    return b


def _name(n, what):
    if isinstance(n, ast.Name):
        return n.id
    raise U(f"{what} is not a plain name: {ast.unparse(n)[:60]}")


def _int(n, what):
    if isinstance(n, ast.UnaryOp) and isinstance(n.op, ast.USub) and isinstance(n.operand, ast.Constant) \
            and isinstance(n.operand.value, int) and not isinstance(n.operand.value, bool):
        return -n.operand.value
    if isinstance(n, ast.Constant) and isinstance(n.value, int) and not isinstance(n.value, bool):
        return n.value
    raise U(f"{what} is not an integer literal: {ast.unparse(n)[:60]}")


def _single_assigns(stmts):
    """name -> value for plain `name = value` statements at this level; a name assigned twice is refused on use"""
    out, dup = {}, set()
    for s in stmts:
        if isinstance(s, ast.Assign) and len(s.targets) == 1 and isinstance(s.targets[0], ast.Name):
            k = s.targets[0].id
            if k in out:
                dup.add(k)
            out[k] = s.value
    return out, dup


def stmt_kinds(stmts):
    return [type(s).__name__ for s in stmts]


def only_statements(fn_name, stmts, allowed_expr_calls=(), **limits):
    """refuse statements of a kind (or in a number) the lifted shape does not have, at any nesting depth:
    limits = maximal count per statement kind, e.g. If=1, For=2; Expr statements must call one of allowed_expr_calls"""
    counts = {}

    def walk(ss):
        for s in ss:
            k = type(s).__name__
            counts[k] = counts.get(k, 0) + 1
            if isinstance(s, ast.Expr):
                c = s.value
                nm = ast.unparse(c.func) if isinstance(c, ast.Call) else None
                if nm not in allowed_expr_calls:
                    raise U(f"{fn_name}: unexpected statement `{ast.unparse(s)[:60]}`")
            for f in ("body", "orelse"):
                if hasattr(s, f):
                    walk(getattr(s, f))
            if hasattr(s, "finalbody") or hasattr(s, "handlers"):
                raise U(f"{fn_name}: try statement")
    walk(stmts)
    for k, n in counts.items():
        if k == "Expr":
            continue
        if n > limits.get(k, 0):
            raise U(f"{fn_name}: {n} `{k}` statements, the known shape has at most {limits.get(k, 0)}")


def _np_inf(n):
    """+1 for np.inf, -1 for -np.inf, None otherwise"""
    def is_inf(m):
        return (isinstance(m, ast.Attribute) and m.attr == "inf" and isinstance(m.value, ast.Name)
                and m.value.id in ("np", "numpy", "math"))
    if is_inf(n):
        return 1
    if isinstance(n, ast.UnaryOp) and isinstance(n.op, ast.USub) and is_inf(n.operand):
        return -1
    return None


# ------------------------------------------------------------------------------------------ convex hull
def _hull(tree):
    fn = _find_func(tree, "_filter_points_to_get_convex_hull")
    if len(fn.args.args) != 1:
        raise U("_filter_points_to_get_convex_hull signature changed")
    pts = fn.args.args[0].arg
    body = _body(fn)
    if len(body) != 3:
        raise U(f"_filter_points_to_get_convex_hull has {len(body)} statements, expected `sel = []`, `for`, `return`")
    init, loop, ret = body
    if not (isinstance(init, ast.Assign) and len(init.targets) == 1 and isinstance(init.value, ast.List) and not init.value.elts):
        raise U("hull: first statement is not `<stack> = []`")
    sel = _name(init.targets[0], "hull stack")
    # for r2 in points_sorted.itertuples():
    if not (isinstance(loop, ast.For) and not loop.orelse and isinstance(loop.iter, ast.Call)
            and isinstance(loop.iter.func, ast.Attribute) and loop.iter.func.attr == "itertuples"
            and isinstance(loop.iter.func.value, ast.Name) and loop.iter.func.value.id == pts
            and not loop.iter.args and not loop.iter.keywords):
        raise U("hull: loop is not `for <r2> in <points>.itertuples():` (forward iteration over the sorted points)")
    r2 = _name(loop.target, "hull loop variable")
    if len(loop.body) != 2:
        raise U("hull: loop body is not `while ...` followed by `<stack>.append(<r2>)`")
    wh, app = loop.body
    ok_app = (isinstance(app, ast.Expr) and isinstance(app.value, ast.Call) and isinstance(app.value.func, ast.Attribute)
              and app.value.func.attr == "append" and isinstance(app.value.func.value, ast.Name)
              and app.value.func.value.id == sel and len(app.value.args) == 1 and isinstance(app.value.args[0], ast.Name)
              and app.value.args[0].id == r2)
    if not ok_app:
        raise U("hull: the point is not appended to the stack after the while loop")
    # while len(selected) >= K:
    t = wh.test if isinstance(wh, ast.While) else None
    if not (t is not None and not wh.orelse and isinstance(t, ast.Compare) and len(t.ops) == 1
            and isinstance(t.left, ast.Call) and isinstance(t.left.func, ast.Name) and t.left.func.id == "len"
            and len(t.left.args) == 1 and isinstance(t.left.args[0], ast.Name) and t.left.args[0].id == sel):
        raise U("hull: inner loop is not `while len(<stack>) <cmp> <k>:`")
    k = _int(t.comparators[0], "hull while bound")
    if isinstance(t.ops[0], ast.GtE):
        min_len = k
    elif isinstance(t.ops[0], ast.Gt):
        min_len = k + 1
    else:
        raise U("hull: while condition is neither `>=` nor `>`")
    # r1 = selected[-1]; r0 = selected[-2]; if TEST: selected.pop() else: break
    roles = {r2: "r2"}
    back = {}
    cond = None
    for s in wh.body:
        if isinstance(s, ast.Assign) and len(s.targets) == 1 and isinstance(s.targets[0], ast.Name) \
                and isinstance(s.value, ast.Subscript) and isinstance(s.value.value, ast.Name) and s.value.value.id == sel:
            idx = _int(s.value.slice, "hull stack index")
            if idx >= 0:
                raise U("hull: stack entries are not addressed from the end")
            if s.targets[0].id in back:
                raise U("hull: stack variable assigned twice")
            back[s.targets[0].id] = -idx
        elif isinstance(s, ast.If) and cond is None:
            cond = s
        else:
            raise U(f"hull: unexpected statement in the while body: {ast.unparse(s)[:60]}")
    if cond is None or len(back) != 2 or sorted(back.values()) != sorted(set(back.values())):
        raise U("hull: while body is not two stack reads and one `if`")
    lo, hi = sorted(back.values())
    for nm, b in back.items():
        roles[nm] = "r1" if b == lo else "r0"
    pop_ok = (len(cond.body) == 1 and isinstance(cond.body[0], ast.Expr) and isinstance(cond.body[0].value, ast.Call)
              and isinstance(cond.body[0].value.func, ast.Attribute) and cond.body[0].value.func.attr == "pop"
              and isinstance(cond.body[0].value.func.value, ast.Name) and cond.body[0].value.func.value.id == sel
              and not cond.body[0].value.keywords and len(cond.body[0].value.args) <= 1)
    if not pop_ok or not (len(cond.orelse) == 1 and isinstance(cond.orelse[0], ast.Break)):
        raise U("hull: `if <test>: <stack>.pop() else: break` shape changed")
    pargs = cond.body[0].value.args
    pop_idx = _int(pargs[0], "pop index") if pargs else -1
    if pop_idx not in (-1, 0):
        raise U("hull: pop index is neither the last nor the first entry")
    test = cond.test
    if not (isinstance(test, ast.Compare) and len(test.ops) == 1 and type(test.ops[0]) in CMP):
        raise U("hull: the turn test is not a single comparison with <=, <, >= or >")

    def atom(node):
        if isinstance(node, ast.Attribute) and isinstance(node.value, ast.Name):
            if node.value.id not in roles or node.attr not in ("x", "y"):
                raise U(f"hull: unknown term {ast.unparse(node)} in the turn test")
            return roles[node.value.id] + node.attr
        if isinstance(node, ast.Name):
            raise U(f"hull: unknown name {node.id} in the turn test")
        return None
    lhs, rhs = _expr(test.left, atom), _expr(test.comparators[0], atom)
    cmp_op = type(test.ops[0])
    if cmp_op in (ast.GtE, ast.Gt):        # `b >= a` is `a <= b`
        lhs, rhs, cmp_op = rhs, lhs, {ast.GtE: ast.LtE, ast.Gt: ast.Lt}[cmp_op]
    # return pd.DataFrame(selected)[["x", "y", "operation"]]
    rv = ret.value if isinstance(ret, ast.Return) else None
    if not (isinstance(rv, ast.Subscript) and isinstance(rv.value, ast.Call) and len(rv.value.args) == 1
            and isinstance(rv.value.args[0], ast.Name) and rv.value.args[0].id == sel and isinstance(rv.slice, ast.List)):
        raise U("hull: return value is not `pd.DataFrame(<stack>)[[...]]`")
    cols = [_str_const(e, "hull column") for e in rv.slice.elts]
    if cols != ["x", "y", "operation"]:
        raise U(f"hull: returned columns {cols}")
    return {"min_len": min_len, "r1_back": lo, "r0_back": hi, "pops_last": pop_idx == -1,
            "test": _pin(f"decide ({lhs} {CMP[cmp_op]} {rhs})"), "test_src": ast.unparse(test)}


# ------------------------------------------------------------------------------------------ interpolation
def _interp(tree):
    fn = _find_func(tree, "_interpolate_curve")
    params = [a.arg for a in fn.args.args]
    if len(params) != 5:
        raise U("_interpolate_curve signature changed")
    data, x_col, y_col, c_col, grid = params
    body = _body(fn)
    assigns, dup = _single_assigns(body)
    if dup:
        raise U(f"_interpolate_curve: {sorted(dup)} assigned more than once")
    extra = [s for s in body if not isinstance(s, (ast.Assign, ast.Return))]
    if extra:
        raise U(f"_interpolate_curve: unexpected statement {ast.unparse(extra[0])[:60]}")
    # which local holds which column
    arrays = {}
    idx_name = None
    c_names = {}
    for nm, v in assigns.items():
        if isinstance(v, ast.Attribute) and v.attr == "values" and isinstance(v.value, ast.Subscript) \
                and isinstance(v.value.value, ast.Name) and v.value.value.id == data and isinstance(v.value.slice, ast.Name):
            col = v.value.slice.id
            if col not in (x_col, y_col, c_col):
                raise U(f"_interpolate_curve: column {col}")
            arrays[nm] = {x_col: "x", y_col: "y", c_col: "c"}[col]
        elif isinstance(v, ast.Call) and isinstance(v.func, ast.Name) and v.func.id == "_get_interpolation_indices":
            if not (len(v.args) == 2 and not v.keywords and isinstance(v.args[0], ast.Name) and v.args[0].id == grid
                    and isinstance(v.args[1], ast.Name) and arrays.get(v.args[1].id) == "x"):
                raise U("_interpolate_curve: _get_interpolation_indices is not called with (x_grid, x_values)")
            idx_name = nm
        elif isinstance(v, ast.BinOp) and isinstance(v.op, ast.Add) and isinstance(v.left, ast.Name) and v.left.id == c_col \
                and isinstance(v.right, ast.Constant) and v.right.value in ("0", "1"):
            c_names[nm] = v.right.value
    if idx_name is None or sorted(arrays.values()) != ["c", "x", "y"] or sorted(c_names.values()) != ["0", "1"]:
        raise U("_interpolate_curve: value arrays / interpolation indices / content column names not found")

    def vertex(node):
        """<array>[idx] -> (kind, 'cur'), <array>[idx + 1] -> (kind, 'next')"""
        if isinstance(node, ast.Subscript) and isinstance(node.value, ast.Name) and node.value.id in arrays:
            s = node.slice
            if isinstance(s, ast.Name) and s.id == idx_name:
                return arrays[node.value.id], "cur"
            if isinstance(s, ast.BinOp) and isinstance(s.op, ast.Add):
                a, b = s.left, s.right
                if isinstance(b, ast.Name):
                    a, b = b, a
                if isinstance(a, ast.Name) and a.id == idx_name and isinstance(b, ast.Constant) and b.value == 1:
                    return arrays[node.value.id], "next"
            raise U(f"_interpolate_curve: unsupported index {ast.unparse(node)}")
        return None

    exported = {}

    def mk_atom(stack):
        def atom(node):
            v = vertex(node)
            if v is not None:
                if v[0] == "c":
                    raise U("_interpolate_curve: content column inside arithmetic")
                return v[0] + v[1]
            if isinstance(node, ast.Name):
                if node.id == grid:
                    return "g"
                if node.id in exported:
                    return exported[node.id]
                if node.id in assigns and node.id not in stack and node.id not in arrays and node.id != idx_name:
                    return _expr(assigns[node.id], mk_atom(stack + [node.id]))
                raise U(f"_interpolate_curve: unknown name {node.id}")
            return None
        return atom
    # the returned DataFrame
    rets = [s for s in body if isinstance(s, ast.Return)]
    if len(rets) != 1 or body[-1] is not rets[0]:
        raise U("_interpolate_curve: not exactly one final return")
    rv = rets[0].value
    if not (isinstance(rv, ast.Call) and len(rv.args) == 1 and isinstance(rv.args[0], ast.Dict) and not rv.keywords):
        raise U("_interpolate_curve: return value is not pd.DataFrame({...})")
    cols = {}
    for k, v in zip(rv.args[0].keys, rv.args[0].values):
        if isinstance(k, ast.Constant) and k.value in ("p0", "p1"):
            cols[k.value] = v
        elif isinstance(k, ast.Name) and k.id == x_col:
            cols["x"] = v
        elif isinstance(k, ast.Name) and k.id == y_col:
            cols["y"] = v
        elif isinstance(k, ast.Name) and k.id in c_names:
            cols["op" + c_names[k.id]] = v
        else:
            raise U(f"_interpolate_curve: unknown result column {ast.unparse(k)}")
    if sorted(cols) != ["op0", "op1", "p0", "p1", "x", "y"]:
        raise U(f"_interpolate_curve: result columns {sorted(cols)}")
    if not (isinstance(cols["x"], ast.Name) and cols["x"].id == grid):
        raise U("_interpolate_curve: the x column is not the grid")
    ops = {}
    for key in ("op0", "op1"):
        v = vertex(cols[key])
        if v is None or v[0] != "c":
            raise U(f"_interpolate_curve: {key} is not content_values[<index>]")
        ops[key] = v[1] == "next"
    # p0 must be a division: its denominator decides nan
    p0n = cols["p0"]
    while isinstance(p0n, ast.Name) and p0n.id in assigns:
        p0_name = p0n.id
        p0n = assigns[p0n.id]
    if not (isinstance(p0n, ast.BinOp) and isinstance(p0n.op, ast.Div)):
        raise U("_interpolate_curve: p0 is not a quotient")
    num = _expr(p0n.left, mk_atom([]))
    den = _expr(p0n.right, mk_atom([]))
    if isinstance(cols["p0"], ast.Name):
        exported[cols["p0"].id] = "(interpP0 xcur xnext g)"
    p1 = _expr(cols["p1"] if not isinstance(cols["p1"], ast.Name) else assigns[cols["p1"].id], mk_atom([]))
    if isinstance(cols["p1"], ast.Name):
        exported[cols["p1"].id] = "(interpP1 xcur xnext g)"
    y = _expr(cols["y"] if not isinstance(cols["y"], ast.Name) else assigns[cols["y"].id], mk_atom([]))
    for e in (num, den, p1):
        if "ycur" in e or "ynext" in e:
            raise U("_interpolate_curve: the weights depend on y values")
    return {"num": num, "den": den, "p1": p1, "y": _pin(y), "op0_next": ops["op0"], "op1_next": ops["op1"]}


def _indices(tree):
    fn = _find_func(tree, "_get_interpolation_indices")
    params = [a.arg for a in fn.args.args]
    if len(params) != 2:
        raise U("_get_interpolation_indices signature changed")
    grid, xs = params
    body = _body(fn)
    if len(body) != 3 or not isinstance(body[2], ast.Return):
        raise U("_get_interpolation_indices: expected searchsorted assignment, correction, return")
    a, corr, ret = body
    # indices = np.searchsorted(x_values, x_grid, side="right") - 1
    if not (isinstance(a, ast.Assign) and len(a.targets) == 1 and isinstance(a.value, ast.BinOp)
            and isinstance(a.value.op, ast.Sub) and isinstance(a.value.left, ast.Call)):
        raise U("_get_interpolation_indices: first statement is not `<idx> = np.searchsorted(...) - <k>`")
    idx = _name(a.targets[0], "indices")
    minus = _int(a.value.right, "searchsorted offset")
    call = a.value.left
    if not (isinstance(call.func, ast.Attribute) and call.func.attr == "searchsorted" and len(call.args) == 2
            and isinstance(call.args[0], ast.Name) and call.args[0].id == xs
            and isinstance(call.args[1], ast.Name) and call.args[1].id == grid):
        raise U("_get_interpolation_indices: not np.searchsorted(x_values, x_grid, ...)")
    side = "left"
    for kw in call.keywords:
        if kw.arg != "side":
            raise U(f"_get_interpolation_indices: searchsorted keyword {kw.arg}")
        side = _str_const(kw.value, "searchsorted side")
    if side not in ("left", "right") or minus < 0:
        raise U(f"_get_interpolation_indices: side={side!r} minus={minus}")
    if not (isinstance(ret.value, ast.Name) and ret.value.id == idx):
        raise U("_get_interpolation_indices: does not return the index array")

    # indices[s:] = np.where(x_grid[s:] == x_values[indices[s:]], indices[s:] - d, indices[s:])
    def tail(node, base):
        """<base>[s:] -> s"""
        if isinstance(node, ast.Subscript) and isinstance(node.value, ast.Name) and node.value.id == base \
                and isinstance(node.slice, ast.Slice) and node.slice.upper is None and node.slice.step is None \
                and node.slice.lower is not None:
            return _int(node.slice.lower, "slice start")
        return None
    if not (isinstance(corr, ast.Assign) and len(corr.targets) == 1):
        raise U("_get_interpolation_indices: correction statement missing")
    s0 = tail(corr.targets[0], idx)
    w = corr.value
    if s0 is None or not (isinstance(w, ast.Call) and isinstance(w.func, ast.Attribute) and w.func.attr == "where"
                          and len(w.args) == 3 and not w.keywords):
        raise U("_get_interpolation_indices: correction is not `<idx>[s:] = np.where(cond, a, b)`")
    cond, then, other = w.args
    if not (isinstance(cond, ast.Compare) and len(cond.ops) == 1 and isinstance(cond.ops[0], ast.Eq)):
        raise U("_get_interpolation_indices: correction condition is not an equality")
    sides = [cond.left, cond.comparators[0]]
    g_side = [n for n in sides if tail(n, grid) is not None]
    v_side = [n for n in sides if isinstance(n, ast.Subscript) and isinstance(n.value, ast.Name) and n.value.id == xs
              and tail(n.slice, idx) is not None]
    if len(g_side) != 1 or len(v_side) != 1 or tail(g_side[0], grid) != s0 or tail(v_side[0].slice, idx) != s0:
        raise U("_get_interpolation_indices: correction does not compare x_grid[s:] with x_values[indices[s:]]")
    if not (isinstance(then, ast.BinOp) and isinstance(then.op, ast.Sub) and tail(then.left, idx) == s0
            and tail(other, idx) == s0):
        raise U("_get_interpolation_indices: correction branches are not `indices[s:] - d` / `indices[s:]`")
    step = _int(then.right, "correction step")
    if s0 < 0 or step < 0:
        raise U("_get_interpolation_indices: negative correction start / step")
    return {"side_right": side == "right", "minus": minus, "corr_start": s0, "corr_step": step}


# ------------------------------------------------------------------------------------------ the sweep
def _sweep(tree):
    fn = _find_func(tree, "_calculate_tradeoff_points")
    body = _body(fn)
    only_statements("_calculate_tradeoff_points", body, allowed_expr_calls=("scores.append", "labels.append", "x_list.append",
                    "y_list.append", "operation_list.append"), Assign=14, AugAssign=2, If=3, While=2, For=1, Raise=1, Return=1)
    names = {}
    # scores, labels, n, n_positive, n_negative = _get_scores_labels_and_counts(data)
    first = body[0]
    if not (isinstance(first, ast.Assign) and isinstance(first.targets[0], ast.Tuple) and len(first.targets[0].elts) == 5
            and isinstance(first.value, ast.Call) and isinstance(first.value.func, ast.Name)
            and first.value.func.id == "_get_scores_labels_and_counts"):
        raise U("sweep: first statement is not the 5-tuple from _get_scores_labels_and_counts")
    scores, labels, n, npos, nneg = [_name(e, "sweep tuple") for e in first.targets[0].elts]
    if (n, npos, nneg) != ("n", "n_positive", "n_negative"):
        # the existing threshold lifter resolves these names literally
        raise U("sweep: count names changed")
    # degenerate guard
    guard = [s for s in body if isinstance(s, ast.If) and any(isinstance(x, ast.Raise) for x in s.body)]
    if len(guard) != 1:
        raise U("sweep: degenerate-label guard not found")
    gt = guard[0].test
    if not (isinstance(gt, ast.BoolOp) and len(gt.values) == 2):
        raise U("sweep: degenerate-label guard is not a two-term boolean")
    terms = []
    for v in gt.values:
        if not (isinstance(v, ast.Compare) and len(v.ops) == 1 and isinstance(v.ops[0], ast.Eq) and isinstance(v.left, ast.Name)
                and v.left.id in (npos, nneg) and isinstance(v.comparators[0], ast.Constant) and v.comparators[0].value == 0):
            raise U("sweep: degenerate-label guard term is not `<count> == 0`")
        terms.append(v.left.id)
    if sorted(terms) != sorted([npos, nneg]):
        raise U("sweep: degenerate-label guard does not test both counts")
    guard_or = isinstance(gt.op, ast.Or)
    # scores.append(-np.inf)
    sentinel = None
    for s in body:
        if isinstance(s, ast.Expr) and isinstance(s.value, ast.Call) and isinstance(s.value.func, ast.Attribute) \
                and s.value.func.attr == "append" and isinstance(s.value.func.value, ast.Name) \
                and s.value.func.value.id == scores:
            if sentinel is not None:
                raise U("sweep: two sentinels")
            sentinel = _np_inf(s.value.args[0])
    if sentinel is None:
        raise U("sweep: `scores.append(±np.inf)` sentinel not found")
    # the while loop
    loops = [s for s in body if isinstance(s, ast.While)]
    if len(loops) != 1:
        raise U("sweep: expected exactly one outer while loop")
    wh = loops[0]
    if not (isinstance(wh.test, ast.Compare) and len(wh.test.ops) == 1 and isinstance(wh.test.ops[0], ast.Lt)
            and isinstance(wh.test.left, ast.Name) and isinstance(wh.test.comparators[0], ast.Name)
            and wh.test.comparators[0].id == n):
        raise U("sweep: outer loop is not `while i < n:`")
    i = wh.test.left.id
    branch = wh.body[0]
    if not (isinstance(branch, ast.If) and isinstance(branch.test, ast.Compare) and len(branch.test.ops) == 1
            and isinstance(branch.test.ops[0], ast.Eq) and isinstance(branch.test.comparators[0], ast.List)
            and not branch.test.comparators[0].elts and len(branch.body) == 1):
        raise U("sweep: the special handling of the initial point changed")
    ini = branch.body[0]
    if not (isinstance(ini, ast.Assign) and len(ini.targets) == 1):
        raise U("sweep: initial threshold assignment changed")
    thr = _name(ini.targets[0], "threshold variable")
    init_sign = _np_inf(ini.value)
    if init_sign is None:
        raise U("sweep: initial threshold is not ±np.inf")
    els = branch.orelse
    if len(els) != 3:
        raise U("sweep: else branch is not `threshold = scores[i]`, tie loop, midpoint")
    e0, e1, e2 = els

    def is_score_i(node):
        return (isinstance(node, ast.Subscript) and isinstance(node.value, ast.Name) and node.value.id == scores
                and isinstance(node.slice, ast.Name) and node.slice.id == i)
    if not (isinstance(e0, ast.Assign) and isinstance(e0.targets[0], ast.Name) and e0.targets[0].id == thr and is_score_i(e0.value)):
        raise U("sweep: `threshold = scores[i]` changed")
    tl = e1
    if not (isinstance(tl, ast.While) and isinstance(tl.test, ast.Compare) and len(tl.test.ops) == 1
            and isinstance(tl.test.ops[0], ast.Eq)):
        raise U("sweep: tie loop is not `while scores[i] == threshold:`")
    sides = [tl.test.left, tl.test.comparators[0]]
    if not (any(is_score_i(s) for s in sides) and any(isinstance(s, ast.Name) and s.id == thr for s in sides)):
        raise U("sweep: tie loop does not compare scores[i] with threshold")
    cnt = None
    inc_ok = False
    for s in tl.body:
        if isinstance(s, ast.AugAssign) and isinstance(s.op, ast.Add) and isinstance(s.value, ast.Constant) and s.value.value == 1:
            if isinstance(s.target, ast.Name) and s.target.id == i:
                inc_ok = True
                continue
            t = s.target
            if isinstance(t, ast.Subscript) and isinstance(t.value, ast.Name) and isinstance(t.slice, ast.Subscript) \
                    and isinstance(t.slice.value, ast.Name) and t.slice.value.id == labels \
                    and isinstance(t.slice.slice, ast.Name) and t.slice.slice.id == i and cnt is None:
                cnt = t.value.id
                continue
        raise U(f"sweep: unexpected statement in the tie loop: {ast.unparse(s)[:60]}")
    if cnt != "count" or not inc_ok or len(tl.body) != 2:
        raise U("sweep: tie loop is not `count[labels[i]] += 1; i += 1`")
    # the count update must precede the index increment
    if not isinstance(tl.body[0].target, ast.Subscript):
        raise U("sweep: index incremented before the count update")
    if not (isinstance(e2, ast.Assign) and isinstance(e2.targets[0], ast.Name) and e2.targets[0].id == thr):
        raise U("sweep: midpoint assignment changed")

    def atom(node):
        if is_score_i(node):
            return "s"
        if isinstance(node, ast.Name):
            if node.id == thr:
                return "t"
            raise U(f"sweep: unknown name {node.id} in the midpoint")
        if isinstance(node, ast.Subscript):
            raise U(f"sweep: unknown term {ast.unparse(node)} in the midpoint")
        return None
    mid = _pin(_expr(e2.value, atom))
    # count = [0, 0]; i = 0
    assigns, _ = _single_assigns(body)
    c0 = assigns.get(cnt)
    if not (isinstance(c0, ast.List) and [getattr(e, "value", None) for e in c0.elts] == [0, 0]):
        raise U("sweep: `count = [0, 0]` changed")
    if not (isinstance(assigns.get(i), ast.Constant) and assigns[i].value == 0):
        raise U("sweep: `i = 0` changed")
    # for operation_string, counts in operations: x = METRIC_DICT[x_metric](counts) ...
    fors = [s for s in wh.body if isinstance(s, ast.For)]
    if len(fors) != 1 or not (isinstance(fors[0].target, ast.Tuple) and len(fors[0].target.elts) == 2):
        raise U("sweep: `for operation_string, counts in operations` changed")
    opstr, cvar = [_name(e, "for target") for e in fors[0].target.elts]
    fa, fdup = _single_assigns(fors[0].body)
    if fdup:
        raise U("sweep: a variable is assigned twice in the operations loop")
    appended = {}
    for s in fors[0].body:
        if isinstance(s, ast.Expr) and isinstance(s.value, ast.Call) and isinstance(s.value.func, ast.Attribute) \
                and s.value.func.attr == "append" and len(s.value.args) == 1 and not s.value.keywords:
            lst = _name(s.value.func.value, "list")
            if lst in appended:
                raise U(f"sweep: two appends to {lst} in the operations loop")
            appended[lst] = s.value.args[0]

    def value_of(node):
        """the appended value: a local of the loop body (resolved through its single assignment) or the expression itself"""
        if isinstance(node, ast.Name) and node.id in fa:
            return fa[node.id]
        return node

    def metric_of(var):
        v = value_of(var)
        if isinstance(v, ast.Call) and isinstance(v.func, ast.Subscript) and isinstance(v.func.value, ast.Name) \
                and v.func.value.id == "METRIC_DICT" and isinstance(v.func.slice, ast.Name) and len(v.args) == 1 \
                and isinstance(v.args[0], ast.Name) and v.args[0].id == cvar:
            return v.func.slice.id
        raise U(f"sweep: {ast.unparse(var) if var is not None else None} is not METRIC_DICT[<metric>](counts)")

    def op_ok(var):
        v = value_of(var)
        return (isinstance(v, ast.Call) and isinstance(v.func, ast.Name) and v.func.id == "ThresholdOperation"
                and len(v.args) == 2 and not v.keywords and isinstance(v.args[0], ast.Name) and v.args[0].id == opstr
                and isinstance(v.args[1], ast.Name) and v.args[1].id == thr)
    # the returned frame
    rets = [s for s in body if isinstance(s, ast.Return)]
    if len(rets) != 1:
        raise U("sweep: not exactly one return")
    rv = rets[0].value
    chain = []
    while isinstance(rv, ast.Call) and isinstance(rv.func, ast.Attribute):
        chain.append((rv.func.attr, rv))
        rv = rv.func.value
    chain = chain[::-1]
    if [c for c, _ in chain] != ["DataFrame", "sort_values", "reset_index"]:
        raise U(f"sweep: return chain {[c for c, _ in chain]}")
    frame = chain[0][1]
    if not (len(frame.args) == 1 and isinstance(frame.args[0], ast.Dict)):
        raise U("sweep: DataFrame argument is not a dict literal")
    cols = {_str_const(k, "column"): _name(v, "column list") for k, v in zip(frame.args[0].keys, frame.args[0].values)}
    if sorted(cols) != ["operation", "x", "y"]:
        raise U(f"sweep: columns {sorted(cols)}")
    xm, ym = metric_of(appended.get(cols["x"])), metric_of(appended.get(cols["y"]))
    if (xm, ym) != ("x_metric", "y_metric"):
        raise U(f"sweep: column x is fed by {xm}, column y by {ym}")
    if not op_ok(appended.get(cols["operation"])):
        raise U("sweep: operation column is not ThresholdOperation(operation_string, threshold)")
    sv = chain[1][1]
    by, asc = None, True
    if sv.args:
        raise U("sweep: positional arguments to sort_values")
    for kw in sv.keywords:
        if kw.arg == "by":
            if not isinstance(kw.value, ast.List):
                raise U("sweep: sort_values(by=...) is not a list literal")
            by = [_str_const(e, "sort key") for e in kw.value.elts]
        elif kw.arg == "ascending":
            if not (isinstance(kw.value, ast.Constant) and isinstance(kw.value.value, bool)):
                raise U("sweep: sort_values(ascending=...) is not a boolean literal")
            asc = kw.value.value
        else:
            raise U(f"sweep: sort_values keyword {kw.arg}")
    if not by or any(k not in ("x", "y") for k in by) or len(set(by)) != len(by):
        raise U(f"sweep: sort keys {by}")
    return {"guard_or": guard_or, "sentinel_neg": sentinel < 0, "init_pos": init_sign > 0, "mid": mid,
            "sort_keys": by, "sort_asc": asc}


def _scores(tree):
    fn = _find_func(tree, "_get_scores_labels_and_counts")
    desc = None
    for n in ast.walk(fn):
        if isinstance(n, ast.Call) and isinstance(n.func, ast.Attribute) and n.func.attr == "sort_values":
            if desc is not None:
                raise U("_get_scores_labels_and_counts: two sorts")
            kw = {k.arg: k.value for k in n.keywords}
            if n.args or sorted(kw) not in (["ascending", "by"], ["by"]):
                raise U("_get_scores_labels_and_counts: sort_values arguments changed")
            if not (isinstance(kw["by"], ast.Name) and kw["by"].id == "SCORE_KEY"):
                raise U("_get_scores_labels_and_counts: not sorted by SCORE_KEY")
            a = kw.get("ascending")
            if a is not None and not (isinstance(a, ast.Constant) and isinstance(a.value, bool)):
                raise U("_get_scores_labels_and_counts: ascending is not a literal")
            desc = (a is not None and a.value is False)
    if desc is None:
        raise U("_get_scores_labels_and_counts: sort not found")
    # scores = list(data_sorted[SCORE_KEY]); labels = list(data_sorted[LABEL_KEY])
    a, _ = _single_assigns(_body(fn))
    keys = {}
    for nm, v in a.items():
        if isinstance(v, ast.Call) and isinstance(v.func, ast.Name) and v.func.id == "list" and len(v.args) == 1 \
                and isinstance(v.args[0], ast.Subscript) and isinstance(v.args[0].slice, ast.Name):
            keys[nm] = v.args[0].slice.id
    ret = [s for s in _body(fn) if isinstance(s, ast.Return)]
    if len(ret) != 1 or not isinstance(ret[0].value, ast.Tuple) or len(ret[0].value.elts) != 5:
        raise U("_get_scores_labels_and_counts: return shape changed")
    r = [_name(e, "return element") for e in ret[0].value.elts]
    if keys.get(r[0]) != "SCORE_KEY" or keys.get(r[1]) != "LABEL_KEY":
        raise U("_get_scores_labels_and_counts: scores / labels are not the SCORE_KEY / LABEL_KEY columns")
    # _get_counts
    gc = _find_func(tree, "_get_counts")
    lab = gc.args.args[0].arg
    ca, cdup = _single_assigns(_body(gc))
    cret = [s for s in _body(gc) if isinstance(s, ast.Return)]
    if cdup or len(cret) != 1 or not isinstance(cret[0].value, ast.Tuple) or len(cret[0].value.elts) != 3:
        raise U("_get_counts: shape changed")
    rn, rp, rg = cret[0].value.elts
    if lab in ca or any(not isinstance(x, (ast.Assign, ast.Return)) for x in _body(gc)) or len(_body(gc)) != len(ca) + 1:
        raise U("_get_counts: statements other than single assignments of locals and the return")

    def atom(node):
        if isinstance(node, ast.Call) and isinstance(node.func, ast.Name) and len(node.args) == 1 \
                and isinstance(node.args[0], ast.Name) and node.args[0].id == lab and not node.keywords:
            if node.func.id == "len":
                return "len"
            if node.func.id == "sum":
                return "sum"
            raise U(f"_get_counts: call {node.func.id}")
        if isinstance(node, ast.Name):
            if node.id in ca:
                return _expr(ca[node.id], atom)
            raise U(f"_get_counts: unknown name {node.id}")
        return None
    counts = {"n": _expr(rn, atom), "npos": _expr(rp, atom), "nneg": _expr(rg, atom)}
    # the caller unpacks (n, n_positive, n_negative) in this order
    call = [v for v in a.values() if isinstance(v, ast.Call) and isinstance(v.func, ast.Name) and v.func.id == "_get_counts"]
    tup = [s for s in _body(fn) if isinstance(s, ast.Assign) and isinstance(s.targets[0], ast.Tuple)
           and isinstance(s.value, ast.Call) and isinstance(s.value.func, ast.Name) and s.value.func.id == "_get_counts"]
    if call or len(tup) != 1 or [_name(e, "count") for e in tup[0].targets[0].elts] != r[2:]:
        raise U("_get_scores_labels_and_counts: counts are not forwarded in order")
    if not (len(tup[0].value.args) == 1 and isinstance(tup[0].value.args[0], ast.Name) and tup[0].value.args[0].id == r[1]):
        raise U("_get_scores_labels_and_counts: _get_counts is not applied to the labels")
    return desc, counts


def _curve(tree):
    fn = _find_func(tree, "_tradeoff_curve")
    body = _body(fn)
    a, dup = _single_assigns(body)
    ret = [s for s in body if isinstance(s, ast.Return)]
    if dup or len(ret) != 1 or len(body) != len(a) + 1:
        raise U("_tradeoff_curve: shape changed")
    v = ret[0].value
    while isinstance(v, ast.Name) and v.id in a:
        v = a[v.id]
    if not (isinstance(v, ast.Call) and isinstance(v.func, ast.Name) and v.func.id == "_filter_points_to_get_convex_hull"
            and len(v.args) == 1 and not v.keywords):
        raise U("_tradeoff_curve: result is not _filter_points_to_get_convex_hull(<points>)")
    p = v.args[0]
    while isinstance(p, ast.Name) and p.id in a:
        p = a[p.id]
    if not (isinstance(p, ast.Call) and isinstance(p.func, ast.Name) and p.func.id == "_calculate_tradeoff_points"):
        raise U("_tradeoff_curve: the hull is not taken of _calculate_tradeoff_points(...)")
    params = [x.arg for x in fn.args.args]
    pos = [_name(x, "argument") for x in p.args]
    if pos != params[:len(pos)]:
        raise U("_tradeoff_curve: positional arguments are not forwarded in order")
    for kw in p.keywords:
        if not (isinstance(kw.value, ast.Name) and kw.value.id == kw.arg):
            raise U(f"_tradeoff_curve: keyword {kw.arg} is not forwarded unchanged")
    if sorted(pos + [k.arg for k in p.keywords]) != sorted(params):
        raise U("_tradeoff_curve: not every parameter is forwarded")
    return True


def _b(v):
    return "true" if v else "false"


@translate.lifter
def lift_tradeoff(repo):
    tree = parse_tcu(repo)
    h = _hull(tree)
    ip = _interp(tree)
    ix = _indices(tree)
    sw = _sweep(tree)
    desc, counts = _scores(tree)
    _curve(tree)
    L = ["/-\nGENERATED by harness/lifters/tradeoff.py from\n  " + TCU +
         "\nDo not edit: rewritten on every run from the tree under check.\n-/\nset_option linter.unusedVariables false\n", "namespace TradeoffSrc\n"]
    L.append("/-! ### `_filter_points_to_get_convex_hull` -/")
    L.append(f"/-- the turn test (r1 = stack[-{h['r1_back']}], r0 = stack[-{h['r0_back']}], r2 = the new point); true = drop r1 -/")
    L.append(f"def hullDrop (r0x r0y r1x r1y r2x r2y : Rat) : Bool :=\n  {h['test']}")
    L.append(f"/-- `while len(selected) >= {h['min_len']}` -/\ndef hullMinLen : Nat := {h['min_len']}")
    L.append(f"def hullR1Back : Nat := {h['r1_back']}\ndef hullR0Back : Nat := {h['r0_back']}")
    L.append(f"/-- `selected.pop()` removes the last entry (= r1) -/\ndef hullPopsLast : Bool := {_b(h['pops_last'])}\n")
    L.append("/-! ### `_interpolate_curve` (xcur / xnext = x_values[index] / x_values[index + 1], g = the grid value) -/")
    L.append(f"def interpP0Num (xcur xnext g : Rat) : Rat := {ip['num']}")
    L.append(f"def interpP0Den (xcur xnext g : Rat) : Rat := {ip['den']}")
    L.append("def interpP0 (xcur xnext g : Rat) : Rat := interpP0Num xcur xnext g / interpP0Den xcur xnext g")
    L.append(f"def interpP1 (xcur xnext g : Rat) : Rat := {ip['p1']}")
    L.append(f"def interpY (xcur xnext ycur ynext g : Rat) : Rat := {ip['y']}")
    L.append(f"/-- operation0 / operation1 come from content_values[index + 1] (true) or content_values[index] (false) -/")
    L.append(f"def op0FromNext : Bool := {_b(ip['op0_next'])}\ndef op1FromNext : Bool := {_b(ip['op1_next'])}\n")
    L.append("/-! ### `_get_interpolation_indices` -/")
    L.append(f"def searchSideRight : Bool := {_b(ix['side_right'])}\ndef searchMinus : Nat := {ix['minus']}")
    L.append(f"/-- `indices[s:] = np.where(x_grid[s:] == x_values[indices[s:]], indices[s:] - d, indices[s:])` -/")
    L.append(f"def corrStart : Nat := {ix['corr_start']}\ndef corrStep : Nat := {ix['corr_step']}\n")
    L.append("/-! ### `_calculate_tradeoff_points`, `_get_scores_labels_and_counts`, `_get_counts` -/")
    L.append("inductive Col where\n  | x\n  | y\nderiving Repr, DecidableEq")
    L.append("/-- `.sort_values(by=[...])` of the tradeoff points -/")
    L.append("def pointSortKeys : List Col := [" + ", ".join("." + k for k in sw["sort_keys"]) + "]")
    L.append(f"def pointSortAscending : Bool := {_b(sw['sort_asc'])}")
    L.append(f"/-- scores sorted with `ascending=False` -/\ndef scoreSortDescending : Bool := {_b(desc)}")
    L.append(f"/-- the special initial point uses `np.inf` -/\ndef initialThresholdPosInf : Bool := {_b(sw['init_pos'])}")
    L.append(f"/-- `scores.append(-np.inf)` -/\ndef sentinelNegInf : Bool := {_b(sw['sentinel_neg'])}")
    L.append(f"/-- `threshold = ...` after a block of tied scores (t = the block's score, s = the next score) -/")
    L.append(f"def midThreshold (t s : Rat) : Rat := {sw['mid']}")
    L.append(f"/-- `n_positive == 0 or n_negative == 0` raises -/\ndef degenerateGuardIsOr : Bool := {_b(sw['guard_or'])}")
    L.append("/-- `_get_counts` (len = len(labels), sum = sum(labels)) -/")
    L.append(f"def countN (len sum : Rat) : Rat := {counts['n']}")
    L.append(f"def countPos (len sum : Rat) : Rat := {counts['npos']}")
    L.append(f"def countNeg (len sum : Rat) : Rat := {counts['nneg']}")
    L.append("\nend TradeoffSrc\n")
    meta = {"hull_test": h["test_src"], "searchsorted": "right" if ix["side_right"] else "left",
            "sort_keys": sw["sort_keys"]}
    return "TradeoffSrc.lean", "\n".join(L), meta
