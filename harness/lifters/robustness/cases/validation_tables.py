"""validation_tables.py (ValidationTables.lean) -- argument-checking decision logic of several estimators"""
TO = "fairlearn/postprocessing/_threshold_optimizer.py"
TCU = "fairlearn/postprocessing/_tradeoff_curve_utilities.py"
IT = "fairlearn/postprocessing/_interpolated_thresholder.py"
UP = "fairlearn/reductions/_moments/utility_parity.py"
ER = "fairlearn/reductions/_moments/error_rate.py"
GS = "fairlearn/reductions/_grid_search/grid_search.py"
MF = "fairlearn/metrics/_metric_frame.py"


def R(id, f, what, *edits, **kw):
    return dict(id="validation-" + id, kind="R", file=f, edits=list(edits), what=what, **kw)


def S(id, f, what, *edits, **kw):
    return dict(id="validation-" + id, kind="S", file=f, edits=list(edits), what=what, **kw)


TO_CHECKS = ("        if self.constraints in SIMPLE_CONSTRAINTS:\n            if self.objective not in OBJECTIVES_FOR_SIMPLE_CONSTRAINTS:\n"
             "                raise ValueError(\n                    NOT_SUPPORTED_OBJECTIVES_FOR_SIMPLE_CONSTRAINTS_ERROR_MESSAGE.format(\n"
             "                        self.constraints\n                    )\n                )\n"
             "        elif self.constraints == \"equalized_odds\":\n            if self.objective not in OBJECTIVES_FOR_EQUALIZED_ODDS:\n"
             "                raise ValueError(NOT_SUPPORTED_OBJECTIVES_FOR_EQUALIZED_ODDS_ERROR_MESSAGE)\n"
             "        else:\n            raise ValueError(NOT_SUPPORTED_CONSTRAINTS_ERROR_MESSAGE)\n")
DEGEN = "    if n_positive == 0 or n_negative == 0:\n"
PARITY = ("        if (difference_bound is None) and (ratio_bound is None):\n            self.eps = _DEFAULT_DIFFERENCE_BOUND\n            self.ratio = 1.0\n"
          "        elif (difference_bound is not None) and (ratio_bound is None):\n            self.eps = difference_bound\n            self.ratio = 1.0\n")
RATIO = "            if not (0 < ratio_bound <= 1):\n"
COSTS = ("        if costs is None:\n            self.fp_cost = 1.0\n            self.fn_cost = 1.0\n        elif (\n            isinstance(costs, dict)\n"
         "            and costs.keys() == {\"fp\", \"fn\"}\n            and costs[\"fp\"] >= 0.0\n            and costs[\"fn\"] >= 0.0\n"
         "            and costs[\"fp\"] + costs[\"fn\"] > 0.0\n        ):\n            self.fp_cost = costs[\"fp\"]\n            self.fn_cost = costs[\"fn\"]\n"
         "        else:\n            raise ValueError(_MESSAGE_BAD_COSTS)\n")
GRID = ("        if selection_rule == TRADEOFF_OPTIMIZATION:\n            if not (0.0 <= constraint_weight <= 1.0):\n"
        "                raise RuntimeError(\"Must specify constraint_weight between 0.0 and 1.0\")\n        else:\n"
        "            raise RuntimeError(\"Unsupported selection rule\")\n")
FRAME1 = "        if sample_params is not None and not isinstance(sample_params, dict):\n            raise ValueError(_SAMPLE_PARAMS_NOT_DICT)\n\n        annotated_functions = {}\n"
SUBSET = ("        sample_params_keys = set(sample_params.keys())\n        metric_functions_keys = set(metric.keys())\n"
          "        if not sample_params_keys.issubset(metric_functions_keys):\n            raise ValueError(_SAMPLE_PARAM_KEYS_NOT_IN_FUNC_DICT)\n")
TOPRED = ("        check_is_fitted(self)\n        return self.interpolated_thresholder_.predict(\n            X, sensitive_features=sensitive_features, random_state=random_state\n        )\n")

CASES = [
    # ------------------------------------------------------------------ refactors
    R("r-to-unsupported-first", TO, "fit: the unsupported-constraints case tested first, the objective checks as two flat guards; literal on the left of ==",
      (TO_CHECKS,
       "        simple = self.constraints in SIMPLE_CONSTRAINTS\n"
       "        if not simple and \"equalized_odds\" != self.constraints:\n            raise ValueError(NOT_SUPPORTED_CONSTRAINTS_ERROR_MESSAGE)\n"
       "        if self.constraints in SIMPLE_CONSTRAINTS and self.objective not in OBJECTIVES_FOR_SIMPLE_CONSTRAINTS:\n"
       "            raise ValueError(\n                NOT_SUPPORTED_OBJECTIVES_FOR_SIMPLE_CONSTRAINTS_ERROR_MESSAGE.format(self.constraints)\n            )\n"
       "        if self.constraints == \"equalized_odds\" and not (self.objective in OBJECTIVES_FOR_EQUALIZED_ODDS):\n"
       "            raise ValueError(NOT_SUPPORTED_OBJECTIVES_FOR_EQUALIZED_ODDS_ERROR_MESSAGE)\n"),
      expect="refused", why="the local boolean `simple` is not an atom of the fit context (see r-to-flat-guards for the same without it)"),
    R("r-to-flat-guards", TO, "fit: the unsupported-constraints case tested first, the objective checks as two flat guards; literal on the left of ==",
      (TO_CHECKS,
       "        if self.constraints not in SIMPLE_CONSTRAINTS and \"equalized_odds\" != self.constraints:\n            raise ValueError(NOT_SUPPORTED_CONSTRAINTS_ERROR_MESSAGE)\n"
       "        if self.constraints in SIMPLE_CONSTRAINTS and self.objective not in OBJECTIVES_FOR_SIMPLE_CONSTRAINTS:\n"
       "            msg = NOT_SUPPORTED_OBJECTIVES_FOR_SIMPLE_CONSTRAINTS_ERROR_MESSAGE.format(self.constraints)\n            raise ValueError(msg)\n"
       "        if self.constraints not in SIMPLE_CONSTRAINTS and not (self.objective in OBJECTIVES_FOR_EQUALIZED_ODDS):\n"
       "            raise ValueError(NOT_SUPPORTED_OBJECTIVES_FOR_EQUALIZED_ODDS_ERROR_MESSAGE)\n")),
    R("r-to-flat-guards-dependent", TO, "the same, the third guard written `constraints == \"equalized_odds\" and ..` (equal only because the two constraint tests exclude each other)",
      (TO_CHECKS,
       "        if self.constraints not in SIMPLE_CONSTRAINTS and \"equalized_odds\" != self.constraints:\n            raise ValueError(NOT_SUPPORTED_CONSTRAINTS_ERROR_MESSAGE)\n"
       "        if self.constraints in SIMPLE_CONSTRAINTS and self.objective not in OBJECTIVES_FOR_SIMPLE_CONSTRAINTS:\n"
       "            raise ValueError(NOT_SUPPORTED_OBJECTIVES_FOR_SIMPLE_CONSTRAINTS_ERROR_MESSAGE.format(self.constraints))\n"
       "        if self.constraints == \"equalized_odds\" and not (self.objective in OBJECTIVES_FOR_EQUALIZED_ODDS):\n"
       "            raise ValueError(NOT_SUPPORTED_OBJECTIVES_FOR_EQUALIZED_ODDS_ERROR_MESSAGE)\n"),
      expect="changed", why="equal to the pinned logic only on the assignments where `constraints in SIMPLE_CONSTRAINTS` excludes "
                            "`constraints == 'equalized_odds'`; the lifter compares on all assignments of the atoms, so the term is emitted as written"),
    R("r-to-estimator-guard", TO, "fit: `if self.estimator is not None: pass else: raise`, logger.debug, comment",
      ("        if self.estimator is None:\n            raise ValueError(BASE_ESTIMATOR_NONE_ERROR_MESSAGE)\n",
       "        logger.debug(\"fit\")\n        # an estimator is required\n        if self.estimator is not None:\n            pass\n        else:\n            raise ValueError(BASE_ESTIMATOR_NONE_ERROR_MESSAGE)\n")),
    R("r-to-tables-reordered", TO, "elements of the two objective sets written in another order",
      ("OBJECTIVES_FOR_SIMPLE_CONSTRAINTS = {\n    \"selection_rate\",\n    \"true_positive_rate\",\n", "OBJECTIVES_FOR_SIMPLE_CONSTRAINTS = {\n    \"true_positive_rate\",\n    \"selection_rate\",\n"),
      ("OBJECTIVES_FOR_EQUALIZED_ODDS = {\n    \"accuracy_score\",\n    \"balanced_accuracy_score\",\n}", "OBJECTIVES_FOR_EQUALIZED_ODDS = {\"balanced_accuracy_score\", \"accuracy_score\"}")),
    R("r-to-dict-reordered", TO, "two entries of SIMPLE_CONSTRAINTS swapped",
      ("    \"selection_rate_parity\": \"selection_rate\",\n    \"demographic_parity\": \"selection_rate\",\n",
       "    \"demographic_parity\": \"selection_rate\",\n    \"selection_rate_parity\": \"selection_rate\",\n")),
    R("r-degenerate-spellings", TCU, "degenerate guard: De Morgan, constants on the left, message through a temporary",
      (DEGEN + "        raise ValueError(DEGENERATE_LABELS_ERROR_MESSAGE.format(sensitive_feature_value))\n",
       "    if not (0 != n_positive and 0 != n_negative):\n        msg = DEGENERATE_LABELS_ERROR_MESSAGE.format(sensitive_feature_value)\n        raise ValueError(msg)\n"),
      expect="refused", why="validation_tables.py alone: same; tradeoff.py (other group) wants a two-term `or` of comparisons"),
    R("r-degenerate-flipped", TCU, "degenerate guard: disjuncts swapped, constants on the left, message through a temporary",
      (DEGEN + "        raise ValueError(DEGENERATE_LABELS_ERROR_MESSAGE.format(sensitive_feature_value))\n",
       "    if 0 == n_negative or 0 == n_positive:\n        msg = DEGENERATE_LABELS_ERROR_MESSAGE.format(sensitive_feature_value)\n        raise ValueError(msg)\n")),
    R("r-parity-branches-swapped", UP, "UtilityParity.__init__: first two (exclusive) branches swapped, chain split, parentheses dropped",
      (PARITY, "        if difference_bound is not None and ratio_bound is None:\n            self.eps = difference_bound\n            self.ratio = 1.0\n"
               "        elif difference_bound is None and ratio_bound is None:\n            self.eps = _DEFAULT_DIFFERENCE_BOUND\n            self.ratio = 1.0\n"),
      (RATIO, "            if not (ratio_bound > 0 and ratio_bound <= 1):\n"),
      expect="changed", why="regressed by the `parityEps` lifting merged from upstream after this work package's base (fix c80f72a: "
      "`if self.eps < 0: raise`): the value of self.eps is emitted as a nested if in SOURCE order of the branches; parityCtor itself is unchanged"),
    R("r-parity-nested", UP, "UtilityParity.__init__: dispatch nested on ratio_bound first",
      (PARITY + "        elif (difference_bound is None) and (ratio_bound is not None):\n            self.eps = ratio_bound_slack\n" + RATIO +
       "                raise ValueError(_MESSAGE_RATIO_NOT_IN_RANGE)\n            self.ratio = ratio_bound\n        else:\n"
       "            # both difference_bound and ratio_bound specified\n            raise ValueError(_MESSAGE_INVALID_BOUNDS)\n",
       "        if ratio_bound is None:\n            self.eps = _DEFAULT_DIFFERENCE_BOUND if difference_bound is None else difference_bound\n            self.ratio = 1.0\n"
       "        elif difference_bound is None:\n            self.eps = ratio_bound_slack\n" + RATIO +
       "                raise ValueError(_MESSAGE_RATIO_NOT_IN_RANGE)\n            self.ratio = ratio_bound\n        else:\n"
       "            raise ValueError(_MESSAGE_INVALID_BOUNDS)\n"),
      expect="refused", why="regressed by the `parityEps` lifting merged from upstream after this work package's base: its eps_of() "
      "reads one flat if/elif chain and no conditional expression"),
    R("r-costs-inverted", ER, "ErrorRate.__init__: `if costs is not None` first, comparisons read from the other side, key set reordered",
      (COSTS, "        if costs is not None:\n            if (\n                isinstance(costs, dict)\n                and costs.keys() == {\"fn\", \"fp\"}\n"
              "                and 0.0 <= costs[\"fp\"]\n                and 0.0 <= costs[\"fn\"]\n                and 0.0 < costs[\"fp\"] + costs[\"fn\"]\n            ):\n"
              "                self.fp_cost = costs[\"fp\"]\n                self.fn_cost = costs[\"fn\"]\n            else:\n                raise ValueError(_MESSAGE_BAD_COSTS)\n"
              "        else:\n            self.fp_cost = 1.0\n            self.fn_cost = 1.0\n")),
    R("r-costs-commuted-sum", ER, "ErrorRate.__init__: the sum of the two costs commuted",
      ("            and costs[\"fp\"] + costs[\"fn\"] > 0.0\n", "            and costs[\"fn\"] + costs[\"fp\"] > 0.0\n")),
    R("r-grid-early-raise", GS, "GridSearch.__init__: `!=` guard first, then the weight check",
      (GRID, "        if TRADEOFF_OPTIMIZATION != selection_rule:\n            raise RuntimeError(\"Unsupported selection rule\")\n"
             "        if not (0.0 <= constraint_weight <= 1.0):\n            raise RuntimeError(\"Must specify constraint_weight between 0.0 and 1.0\")\n")),
    R("r-grid-predict-noise", GS, "GridSearch.predict: logger.debug before check_is_fitted, result through a temporary",
      ("        check_is_fitted(self)\n        return self.predictors_[self.best_idx_].predict(X)\n",
       "        logger.debug(\"predict\")\n        check_is_fitted(self)\n        best = self.predictors_[self.best_idx_]\n        return best.predict(X)\n"),
      expect="refused", why="validation_tables.py itself emits identical text; the refusal comes from grid.py (C09, not in this package), which compares "
                             "the body of GridSearch.predict textually and does not inline the temporary"),
    R("r-frame-demorgan-rename", MF, "_get_annotated_metric_functions: De Morgan in the first guard, the two key sets renamed",
      (FRAME1, "        if not (sample_params is None or isinstance(sample_params, dict)):\n            raise ValueError(_SAMPLE_PARAMS_NOT_DICT)\n\n        annotated_functions = {}\n"),
      (SUBSET, "        given = set(sample_params.keys())\n        known = set(metric.keys())\n"
               "        if not given.issubset(known):\n            raise ValueError(_SAMPLE_PARAM_KEYS_NOT_IN_FUNC_DICT)\n")),
    R("r-to-predict-temp", TO, "ThresholdOptimizer.predict: the fitted thresholder through a temporary",
      (TOPRED, "        check_is_fitted(self)\n        thresholder = self.interpolated_thresholder_\n        return thresholder.predict(\n"
               "            X, sensitive_features=sensitive_features, random_state=random_state\n        )\n")),
    R("r-it-rename-base-predictions", IT, "InterpolatedThresholder._pmf_predict: rename base_predictions",
      ("        base_predictions = np.array(\n", "        soft = np.array(\n"),
      ("            y=base_predictions,\n", "            y=soft,\n")),
    # ------------------------------------------------------------------ semantic edits
    S("s-to-estimator-inverted", TO, "estimator guard inverted", ("        if self.estimator is None:\n            raise ValueError(BASE", "        if self.estimator is not None:\n            raise ValueError(BASE")),
    S("s-to-objective-in", TO, "`not in` -> `in` for the simple objectives",
      ("            if self.objective not in OBJECTIVES_FOR_SIMPLE_CONSTRAINTS:", "            if self.objective in OBJECTIVES_FOR_SIMPLE_CONSTRAINTS:")),
    S("s-to-eo-literal", TO, "another constraint name accepted", ("        elif self.constraints == \"equalized_odds\":\n            if self.objective not in", "        elif self.constraints == \"equalised_odds\":\n            if self.objective not in")),
    S("s-to-eo-table", TO, "equalized odds checks the simple objectives",
      ("            if self.objective not in OBJECTIVES_FOR_EQUALIZED_ODDS:", "            if self.objective not in OBJECTIVES_FOR_SIMPLE_CONSTRAINTS:  # eo")),
    S("s-to-control-guard-dropped", TO, "control features no longer refused",
      ("        if kwargs.get(_KW_CONTROL_FEATURES) is not None:\n            raise ValueError(NO_CONTROL_FEATURES)\n", "")),
    S("s-to-binary-not-enforced", TO, "enforce_binary_labels=False in fit", ("            enforce_binary_labels=True,\n", "            enforce_binary_labels=False,\n")),
    S("s-to-table-entry", TO, "an objective removed from OBJECTIVES_FOR_EQUALIZED_ODDS",
      ("OBJECTIVES_FOR_EQUALIZED_ODDS = {\n    \"accuracy_score\",\n    \"balanced_accuracy_score\",\n}", "OBJECTIVES_FOR_EQUALIZED_ODDS = {\n    \"accuracy_score\",\n}")),
    S("s-to-dict-value", TO, "demographic_parity equalises another metric",
      ("    \"demographic_parity\": \"selection_rate\",\n", "    \"demographic_parity\": \"true_positive_rate\",\n")),
    S("s-degenerate-and", TCU, "degenerate guard `and`", (DEGEN, "    if n_positive == 0 and n_negative == 0:\n")),
    S("s-degenerate-const", TCU, "degenerate guard compares with 1", (DEGEN, "    if n_positive == 1 or n_negative == 0:\n")),
    S("s-degenerate-one-side", TCU, "degenerate guard tests n_positive twice", (DEGEN, "    if n_positive == 0 or n_positive == 0:\n")),
    S("s-degenerate-demorgan-wrong", TCU, "wrong De Morgan", (DEGEN, "    if not (n_positive != 0 or n_negative != 0):\n")),
    S("s-parity-lower-closed", UP, "ratio bound 0 accepted", (RATIO, "            if not (0 <= ratio_bound <= 1):\n")),
    S("s-parity-upper-open", UP, "ratio bound 1 refused", (RATIO, "            if not (0 < ratio_bound < 1):\n")),
    S("s-parity-both-accepted", UP, "both bounds accepted",
      ("            # both difference_bound and ratio_bound specified\n            raise ValueError(_MESSAGE_INVALID_BOUNDS)\n",
       "            # both difference_bound and ratio_bound specified\n            self.eps = difference_bound\n")),
    S("s-parity-chain-swapped", UP, "chain operands swapped", (RATIO, "            if not (ratio_bound < 0 <= 1):\n")),
    S("s-costs-strict", ER, "zero false-positive cost refused", ("            and costs[\"fp\"] >= 0.0\n", "            and costs[\"fp\"] > 0.0\n")),
    S("s-costs-difference", ER, "difference of the costs instead of their sum", ("            and costs[\"fp\"] + costs[\"fn\"] > 0.0\n", "            and costs[\"fp\"] - costs[\"fn\"] > 0.0\n")),
    S("s-costs-or", ER, "one conjunct became a disjunct", ("            and costs[\"fn\"] >= 0.0\n", "            or costs[\"fn\"] >= 0.0\n")),
    S("s-costs-keys", ER, "a third key demanded", ("            and costs.keys() == {\"fp\", \"fn\"}\n", "            and costs.keys() == {\"fp\", \"fn\", \"tp\"}\n")),
    S("s-grid-open", GS, "constraint_weight 0 refused", ("            if not (0.0 <= constraint_weight <= 1.0):", "            if not (0.0 < constraint_weight <= 1.0):")),
    S("s-grid-upper", GS, "constraint_weight up to 2", ("            if not (0.0 <= constraint_weight <= 1.0):", "            if not (0.0 <= constraint_weight <= 2.0):")),
    S("s-grid-moment-dropped", GS, "constraints type check dropped",
      ("        if not isinstance(constraints, Moment):\n            raise RuntimeError(\"Unsupported disparity metric\")\n", "")),
    S("s-grid-neq-wrong", GS, "early guard with `==` instead of `!=`",
      (GRID, "        if TRADEOFF_OPTIMIZATION == selection_rule:\n            raise RuntimeError(\"Unsupported selection rule\")\n"
             "        if not (0.0 <= constraint_weight <= 1.0):\n            raise RuntimeError(\"Must specify constraint_weight between 0.0 and 1.0\")\n")),
    S("s-grid-predict-unguarded", GS, "GridSearch.predict without check_is_fitted",
      ("        check_is_fitted(self)\n        return self.predictors_[self.best_idx_].predict(X)\n", "        return self.predictors_[self.best_idx_].predict(X)\n")),
    S("s-grid-predict-late-guard", GS, "GridSearch.predict reads the fitted state before check_is_fitted",
      ("        check_is_fitted(self)\n        return self.predictors_[self.best_idx_].predict(X)\n",
       "        best = self.predictors_[self.best_idx_]\n        check_is_fitted(self)\n        return best.predict(X)\n")),
    S("s-frame-subset-dropped", MF, "unknown sample_params keys accepted",
      ("        if not sample_params_keys.issubset(metric_functions_keys):\n            raise ValueError(_SAMPLE_PARAM_KEYS_NOT_IN_FUNC_DICT)\n", "")),
    S("s-frame-superset", MF, "issubset the other way round",
      ("        if not sample_params_keys.issubset(metric_functions_keys):", "        if not metric_functions_keys.issubset(sample_params_keys):")),
    S("s-frame-first-or", MF, "first guard `or`", ("        if sample_params is not None and not isinstance(sample_params, dict):", "        if sample_params is not None or not isinstance(sample_params, dict):")),
    S("s-frame-inner-dropped", MF, "per-metric type check dropped",
      ("        if not isinstance(sample_params, dict):\n            raise ValueError(_SAMPLE_PARAMS_NOT_DICT)\n\n        kw_argument_mapping = {}\n", "        kw_argument_mapping = {}\n")),
    S("s-frame-keys-of-metric", MF, "sample_params_keys computed from the metric dict",
      ("        sample_params_keys = set(sample_params.keys())\n", "        sample_params_keys = set(metric.keys())\n")),
    S("s-it-expect-y", IT, "expect_y=False at prediction time", ("            expect_y=True,\n            enforce_binary_labels=False,\n", "            expect_y=False,\n            enforce_binary_labels=False,\n")),
    S("s-it-binary", IT, "binary labels enforced on the base predictions", ("            expect_y=True,\n            enforce_binary_labels=False,\n", "            expect_y=True,\n            enforce_binary_labels=True,\n")),
    S("s-it-y-labels", IT, "another vector passed as y", ("            y=base_predictions,\n", "            y=None,\n")),
    S("s-to-predict-unguarded", TO, "ThresholdOptimizer.predict without check_is_fitted", (TOPRED, TOPRED.replace("        check_is_fitted(self)\n", ""))),
]

# ---- gap L2/7a: an assignment that re-binds something a LATER lifted condition reads is refused; other assignments are not
EST_GUARD = "        if self.estimator is None:\n            raise ValueError(BASE_ESTIMATOR_NONE_ERROR_MESSAGE)\n"
CF_GUARD = "        if kwargs.get(_KW_CONTROL_FEATURES) is not None:\n"
COSTS_HEAD = "        super(ErrorRate, self).__init__()\n        if costs is None:\n"
GRID_HEAD = "        if selection_rule == TRADEOFF_OPTIMIZATION:\n            if not (0.0 <= constraint_weight <= 1.0):\n"
PARITY_HEAD = "        if (difference_bound is None) and (ratio_bound is None):\n            self.eps = _DEFAULT_DIFFERENCE_BOUND\n"
FRAME_OR = "        annotated_functions = {}\n        sample_params = sample_params or {}\n"
CASES += [
    R("r-rebind-to-unread-local", TO, "fit: a local no check reads is assigned (from what the checks read) before the guards",
      (EST_GUARD, "        requested = (self.constraints, self.objective)\n" + EST_GUARD)),
    R("r-rebind-parity-after-check", UP, "UtilityParity.__init__: ratio_bound converted AFTER its range check",
      ("            self.ratio = ratio_bound\n", "            ratio_bound = float(ratio_bound)\n            self.ratio = ratio_bound\n")),
    R("r-rebind-costs-copy-kept", ER, "ErrorRate.__init__: the argument is stored (read, not re-bound) before the checks",
      (COSTS_HEAD, "        super(ErrorRate, self).__init__()\n        self._costs_arg = costs\n        if costs is None:\n")),
    R("r-rebind-grid-after-check", GS, "GridSearch.__init__: constraint_weight converted after the range check",
      ("        self.constraint_weight = float(constraint_weight)\n        self.objective_weight = 1.0 - constraint_weight\n",
       "        constraint_weight = float(constraint_weight)\n        self.constraint_weight = constraint_weight\n"
       "        self.objective_weight = 1.0 - constraint_weight\n")),
    S("s-rebind-to-estimator", TO, "fit: the estimator defaulted before the None guard",
      (EST_GUARD, "        self.estimator = self.estimator or object()\n" + EST_GUARD)),
    S("s-rebind-to-kwargs", TO, "fit: kwargs emptied before the control-features guard", (CF_GUARD, "        kwargs = {}\n" + CF_GUARD)),
    S("s-rebind-to-objective", TO, "fit: the objective overwritten before the table lookup",
      (EST_GUARD, EST_GUARD + "        self.objective = \"accuracy_score\"\n")),
    S("s-rebind-costs", ER, "ErrorRate.__init__: costs replaced by its absolute values before the checks",
      (COSTS_HEAD, "        super(ErrorRate, self).__init__()\n        costs = None if costs is None else {k: abs(v) for k, v in costs.items()}\n"
                   "        if costs is None:\n")),
    S("s-rebind-grid-weight-clipped", GS, "GridSearch.__init__: constraint_weight clipped into [0,1] before the range check",
      (GRID_HEAD, "        constraint_weight = min(max(constraint_weight, 0.0), 1.0)\n" + GRID_HEAD)),
    S("s-rebind-parity-ratio", UP, "UtilityParity.__init__: ratio_bound clipped before the chain",
      (PARITY_HEAD, "        ratio_bound = None if ratio_bound is None else min(abs(ratio_bound), 1.0)\n" + PARITY_HEAD)),
    S("s-rebind-parity-slack", UP, "UtilityParity.__init__: ratio_bound_slack replaced by its absolute value (F24 through the back door)",
      (PARITY_HEAD, "        ratio_bound_slack = abs(ratio_bound_slack)\n" + PARITY_HEAD)),
    S("s-rebind-frame-params-emptied", MF, "_get_annotated_metric_functions: sample_params emptied before its keys are read",
      (FRAME_OR, FRAME_OR + "        sample_params = {}\n")),
    S("s-rebind-frame-default-first", MF, "_get_annotated_metric_functions: `sample_params or {}` moved before the type check (a falsy non-dict passes)",
      (FRAME_OR, "        annotated_functions = {}\n"),
      ("        if sample_params is not None and not isinstance(sample_params, dict):\n",
       "        sample_params = sample_params or {}\n        if sample_params is not None and not isinstance(sample_params, dict):\n")),
    S("s-rebind-degenerate-count", TCU, "_calculate_tradeoff_points: n_negative forced positive before the degenerate-label guard",
      (DEGEN, "    n_negative = max(n_negative, 1)\n" + DEGEN)),
]
