"""corr_remover.py (CorrRemoverSrc.lean) -- CorrelationRemover.fit / transform / _split_X / _create_lookup"""
F = "fairlearn/preprocessing/_correlation_remover.py"


def R(id, what, *edits, **kw):
    return dict(id="corr_remover-" + id, kind="R", file=F, edits=list(edits), what=what, **kw)


def S(id, what, *edits, **kw):
    return dict(id="corr_remover-" + id, kind="S", file=F, edits=list(edits), what=what, **kw)


FIT = ("        X_use, X_sensitive = self._split_X(X)\n\n        # correctly handle zero provided sensitive features\n"
       "        self.sensitive_mean_ = (\n            np.array([]) if X_sensitive.shape[1] == 0 else X_sensitive.mean(axis=0)\n        )\n\n"
       "        X_s_center = X_sensitive - self.sensitive_mean_\n        self.beta_, _, _, _ = np.linalg.lstsq(X_s_center, X_use, rcond=None)\n")
MEAN = ("        self.sensitive_mean_ = (\n            np.array([]) if X_sensitive.shape[1] == 0 else X_sensitive.mean(axis=0)\n        )\n")
TRANS = ("        X_use, X_sensitive = self._split_X(X)\n        X_s_center = X_sensitive - self.sensitive_mean_\n"
         "        X_filtered = X_use - X_s_center.dot(self.beta_)\n        X_use = np.atleast_2d(X_use)\n"
         "        X_filtered = np.atleast_2d(X_filtered)\n        return self.alpha * X_filtered + (1 - self.alpha) * X_use\n")
SPLIT = ("        sensitive = [self.lookup_[i] for i in self.sensitive_feature_ids]\n"
         "        non_sensitive = [i for i in range(X.shape[1]) if i not in sensitive]\n"
         "        return X[:, non_sensitive], X[:, sensitive]\n")

CASES = [
    # ------------------------------------------------------------------ refactors
    R("r-rename-fit-transform", "fit / transform: rename X_use, X_sensitive, X_s_center, X_filtered",
      (FIT, "        kept, sens = self._split_X(X)\n\n        self.sensitive_mean_ = (\n            np.array([]) if sens.shape[1] == 0 else sens.mean(axis=0)\n        )\n\n"
       "        centred = sens - self.sensitive_mean_\n        self.beta_, _, _, _ = np.linalg.lstsq(centred, kept, rcond=None)\n"),
      (TRANS, "        kept, sens = self._split_X(X)\n        centred = sens - self.sensitive_mean_\n"
       "        residual = kept - centred.dot(self.beta_)\n        kept = np.atleast_2d(kept)\n"
       "        residual = np.atleast_2d(residual)\n        return self.alpha * residual + (1 - self.alpha) * kept\n")),
    R("r-inline-center", "fit: centred block inlined into lstsq, beta_ = lstsq(...)[0]",
      ("        X_s_center = X_sensitive - self.sensitive_mean_\n        self.beta_, _, _, _ = np.linalg.lstsq(X_s_center, X_use, rcond=None)\n",
       "        self.beta_ = np.linalg.lstsq(X_sensitive - self.sensitive_mean_, X_use, rcond=None)[0]\n")),
    R("r-mean-temp", "fit: temporary for the column means, np.mean spelling",
      (MEAN, "        col_means = np.mean(X_sensitive, axis=0)\n        self.sensitive_mean_ = np.array([]) if X_sensitive.shape[1] == 0 else col_means\n")),
    R("r-mean-if-statement", "fit: the conditional expression as an if-statement",
      (MEAN, "        if X_sensitive.shape[1] == 0:\n            self.sensitive_mean_ = np.array([])\n        else:\n            self.sensitive_mean_ = X_sensitive.mean(axis=0)\n")),
    R("r-mean-test-flipped", "fit: `!= 0` with the branches swapped",
      (MEAN, "        self.sensitive_mean_ = X_sensitive.mean(axis=0) if X_sensitive.shape[1] != 0 else np.array([])\n")),
    R("r-noise", "fit / transform: logger.debug, comments, annotations, blank lines",
      ("        X_s_center = X_sensitive - self.sensitive_mean_\n        self.beta_, _, _, _",
       "        logger.debug(\"fitting on %d sensitive columns\", X_sensitive.shape[1])\n\n        # centre\n"
       "        X_s_center: np.ndarray = X_sensitive - self.sensitive_mean_\n        self.beta_, _, _, _"),
      ("import numpy as np\n", "import logging\n\nimport numpy as np\n\nlogger = logging.getLogger(__name__)\n")),
    R("r-reorder", "transform: the two atleast_2d statements swapped; fit: _n_features_in_ set before the split",
      ("        X_use = np.atleast_2d(X_use)\n        X_filtered = np.atleast_2d(X_filtered)\n", "        X_filtered = np.atleast_2d(X_filtered)\n        X_use = np.atleast_2d(X_use)\n"),
      ("        self._n_features_in_ = X.shape[1]\n        return self\n", "        return self\n"),
      ("        X_use, X_sensitive = self._split_X(X)\n\n        # correctly", "        self._n_features_in_ = X.shape[1]\n        X_use, X_sensitive = self._split_X(X)\n\n        # correctly")),
    R("r-out-commuted", "transform: summands and factors of the output commuted",
      ("        return self.alpha * X_filtered + (1 - self.alpha) * X_use\n", "        return (1 - self.alpha) * X_use + X_filtered * self.alpha\n")),
    R("r-out-temps", "transform: temporaries for alpha and the two summands, matmul operator",
      ("        X_filtered = X_use - X_s_center.dot(self.beta_)\n", "        X_filtered = X_use - X_s_center @ self.beta_\n"),
      ("        return self.alpha * X_filtered + (1 - self.alpha) * X_use\n",
       "        alpha = self.alpha\n        removed = alpha * X_filtered\n        original = (1 - alpha) * X_use\n        return removed + original\n")),
    R("r-split-rename", "_split_X: rename the lists and the comprehension variables",
      (SPLIT, "        sens_idx = [self.lookup_[f] for f in self.sensitive_feature_ids]\n"
       "        other_idx = [j for j in range(0, X.shape[1]) if j not in sens_idx]\n        return X[:, other_idx], X[:, sens_idx]\n")),
    R("r-split-temps", "_split_X: temporaries for the two returned blocks",
      ("        return X[:, non_sensitive], X[:, sensitive]\n",
       "        X_other = X[:, non_sensitive]\n        X_sens = X[:, sensitive]\n        return X_other, X_sens\n")),
    R("r-split-order", "_split_X returns (sensitive, other) and both callers unpack in that order",
      ("        return X[:, non_sensitive], X[:, sensitive]\n", "        return X[:, sensitive], X[:, non_sensitive]\n"),
      ("        X_use, X_sensitive = self._split_X(X)\n\n", "        X_sensitive, X_use = self._split_X(X)\n\n"),
      ("        X_use, X_sensitive = self._split_X(X)\n        X_s_center", "        X_sensitive, X_use = self._split_X(X)\n        X_s_center")),
    R("r-lookup-rename", "_create_lookup: rename the comprehension variables, .values -> .to_numpy()",
      ("            self.lookup_ = {c: i for i, c in enumerate(X.columns)}\n            return X.values\n",
       "            self.lookup_ = {name: pos for pos, name in enumerate(X.columns)}\n            return X.to_numpy()\n"),
      ("        self.lookup_ = {i: i for i in range(X.shape[1])}\n", "        self.lookup_ = {k: k for k in range(X.shape[1])}\n")),
    # ------------------------------------------------------------------ semantic edits
    S("s-grand-mean", "fit: mean() over all entries", ("else X_sensitive.mean(axis=0)\n", "else X_sensitive.mean()\n")),
    S("s-center-swapped", "fit: mean - X_sensitive",
      ("        X_s_center = X_sensitive - self.sensitive_mean_\n        self.beta_", "        X_s_center = self.sensitive_mean_ - X_sensitive\n        self.beta_")),
    S("s-center-dropped", "fit: regress on the uncentred block",
      ("        X_s_center = X_sensitive - self.sensitive_mean_\n        self.beta_", "        X_s_center = X_sensitive\n        self.beta_")),
    S("s-lstsq-swapped", "fit: lstsq operands swapped", ("np.linalg.lstsq(X_s_center, X_use, rcond=None)", "np.linalg.lstsq(X_use, X_s_center, rcond=None)")),
    S("s-lstsq-second", "fit: beta_ is the second result", ("        self.beta_, _, _, _ = np.linalg.lstsq", "        _, self.beta_, _, _ = np.linalg.lstsq")),
    S("s-lstsq-rcond", "fit: rcond=0.1 (truncated least squares)", ("X_use, rcond=None)", "X_use, rcond=0.1)")),
    S("s-center-before-mean", "fit: centring statement moved before the mean is stored (dependent statements)",
      ("        X_s_center = X_sensitive - self.sensitive_mean_\n        self.beta_", "        self.beta_"),
      ("        # correctly handle zero provided sensitive features\n", "        X_s_center = X_sensitive - self.sensitive_mean_\n")),
    S("s-transform-recompute", "transform: centres with the mean of its own input",
      ("        X_s_center = X_sensitive - self.sensitive_mean_\n        X_filtered", "        X_s_center = X_sensitive - X_sensitive.mean(axis=0)\n        X_filtered")),
    S("s-transform-plus", "transform: adds the projection", ("        X_filtered = X_use - X_s_center.dot(self.beta_)", "        X_filtered = X_use + X_s_center.dot(self.beta_)")),
    S("s-transform-dot-swapped", "transform: self.beta_.dot(X_s_center)", ("X_s_center.dot(self.beta_)", "self.beta_.dot(X_s_center)")),
    S("s-alpha-swapped", "transform: alpha weights exchanged",
      ("        return self.alpha * X_filtered + (1 - self.alpha) * X_use", "        return (1 - self.alpha) * X_filtered + self.alpha * X_use")),
    S("s-one-plus-alpha", "transform: (1 + alpha)", ("(1 - self.alpha) * X_use", "(1 + self.alpha) * X_use")),
    S("s-split-return-only", "_split_X returns (sensitive, other) but the callers are unchanged",
      ("        return X[:, non_sensitive], X[:, sensitive]\n", "        return X[:, sensitive], X[:, non_sensitive]\n")),
    S("s-split-temps-crossed", "_split_X: temporaries for the two blocks, filled the wrong way round",
      ("        return X[:, non_sensitive], X[:, sensitive]\n",
       "        X_other = X[:, sensitive]\n        X_sens = X[:, non_sensitive]\n        return X_other, X_sens\n")),
    S("s-split-in", "_split_X: `if i in sensitive`", ("if i not in sensitive]", "if i in sensitive]")),
    S("s-split-no-lookup", "_split_X: ids used without the lookup", ("[self.lookup_[i] for i in self.sensitive_feature_ids]", "[i for i in self.sensitive_feature_ids]")),
    S("s-split-rows", "_split_X: cuts rows", ("        return X[:, non_sensitive], X[:, sensitive]\n", "        return X[non_sensitive, :], X[:, sensitive]\n")),
    S("s-lookup-swapped", "_create_lookup: {i: c ...}", ("{c: i for i, c in enumerate(X.columns)}", "{i: c for i, c in enumerate(X.columns)}")),
    S("s-lookup-shape0", "_create_lookup: array positions from shape[0]", ("{i: i for i in range(X.shape[1])}", "{i: i for i in range(X.shape[0])}")),
]

# ---------------------------------------------------------------------- the rcond of the lstsq call (L2)
LSQ = "np.linalg.lstsq(X_s_center, X_use, rcond=None)"
CASES += [
    R("r-rcond-omitted", "fit: rcond omitted (numpy >= 2.0: the default IS None)", (LSQ, "np.linalg.lstsq(X_s_center, X_use)")),
    R("r-rcond-positional", "fit: rcond=None passed positionally", (LSQ, "np.linalg.lstsq(X_s_center, X_use, None)")),
    R("r-rcond-temp", "fit: the lstsq result bound to one local and indexed; comment and logger.debug",
      ("        self.beta_, _, _, _ = " + LSQ + "\n",
       "        # least-squares coefficients of the other columns on the centred sensitive block\n        solution = " + LSQ + "\n"
       "        logger.debug(\"rank %s\", solution[2])\n        self.beta_ = solution[0]\n")),
    R("r-rcond-numpy-name", "fit: called as numpy.linalg.lstsq after `import numpy`",
      ("import numpy as np\n", "import numpy\nimport numpy as np\n"), (LSQ, "numpy.linalg.lstsq(X_s_center, X_use, rcond=None)")),
    S("s-rcond-1e-3", "fit: rcond=1e-3 (the reviewers' mutant: nearly collinear blocks are truncated)", (LSQ, "np.linalg.lstsq(X_s_center, X_use, rcond=1e-3)"),
      expect="changed"),
    S("s-rcond-positional-number", "fit: a cut-off passed positionally", (LSQ, "np.linalg.lstsq(X_s_center, X_use, 0.05)"), expect="changed"),
    S("s-rcond-minus-one", "fit: rcond=-1 (the pre-1.14 default: eps without the max(M, N) factor)", (LSQ, "np.linalg.lstsq(X_s_center, X_use, rcond=-1)"),
      expect="changed"),
    S("s-rcond-zero-int", "fit: rcond=0 (nothing is ever truncated, not even exact rank deficiency)", (LSQ, "np.linalg.lstsq(X_s_center, X_use, rcond=0)"),
      expect="changed"),
    S("s-rcond-attribute", "fit: rcond read from a new constructor-independent attribute", (LSQ, "np.linalg.lstsq(X_s_center, X_use, rcond=self.alpha * 1e-3)"),
      expect="refused"),
    S("s-rcond-name", "fit: rcond is a module-level name", ("class CorrelationRemover(", "_RCOND = 1e-2\n\n\nclass CorrelationRemover("), (LSQ, "np.linalg.lstsq(X_s_center, X_use, rcond=_RCOND)"),
      expect="refused"),
    S("s-rcond-finfo", "fit: rcond=np.finfo(float).eps * 100", (LSQ, "np.linalg.lstsq(X_s_center, X_use, rcond=np.finfo(float).eps * 100)"), expect="refused"),
    S("s-rcond-twice", "fit: a cut-off positionally AND rcond=None", (LSQ, "np.linalg.lstsq(X_s_center, X_use, 1e-3, rcond=None)"), expect="refused"),
]
