"""merge_callers.py (MergeCallers.lean) -- _validate_and_reformat_input's feature blocks and the call sites that reach _merge_columns"""
IV = "fairlearn/utils/_input_validation.py"
TO = "fairlearn/postprocessing/_threshold_optimizer.py"
IT = "fairlearn/postprocessing/_interpolated_thresholder.py"
UP = "fairlearn/reductions/_moments/utility_parity.py"
ER = "fairlearn/reductions/_moments/error_rate.py"


def R(id, f, what, *edits, **kw):
    return dict(id="mergecallers-" + id, kind="R", file=f, edits=list(edits), what=what, **kw)


def S(id, f, what, *edits, **kw):
    return dict(id="mergecallers-" + id, kind="S", file=f, edits=list(edits), what=what, **kw)


SF_TEST = "        if len(sensitive_features.shape) > 1 and sensitive_features.shape[1] > 1:\n"
CF_TEST = "        if len(control_features.shape) > 1 and control_features.shape[1] > 1:\n"
SF_BLOCK = ("    sensitive_features = kwargs.get(_KW_SENSITIVE_FEATURES)\n    if sensitive_features is not None:\n"
            "        check_consistent_length(X, sensitive_features)\n        sensitive_features = check_array(sensitive_features, ensure_2d=False, dtype=None)\n\n"
            "        # compress multiple sensitive features into a single column\n" + SF_TEST +
            "            sensitive_features = _merge_columns(sensitive_features)\n\n        sensitive_features = pd.Series(sensitive_features.squeeze())\n")
DP_TAIL = ("        base_event = pd.Series(data=_ALL, index=y_train.index)\n        event = _merge_event_and_control_columns(base_event, cf_train)\n"
           "        super().load_data(X, y_train, event=event, sensitive_features=sf_train)\n")
ER_CALL = ("        _, y_train, sf_train, _ = _validate_and_reformat_input(\n            X,\n            y,\n            enforce_binary_labels=True,\n"
           "            sensitive_features=sensitive_features,\n            control_features=control_features,\n        )\n"
           "        # The following uses X  so that the estimators get X untouched\n        super().load_data(X, y_train, sensitive_features=sf_train)\n")
TOPRED = ("        check_is_fitted(self)\n        return self.interpolated_thresholder_.predict(\n            X, sensitive_features=sensitive_features, random_state=random_state\n        )\n")
ITPRED = "        positive_probs = self._pmf_predict(X, sensitive_features=sensitive_features)[:, 1]\n"

CASES = [
    # ------------------------------------------------------------------ refactors
    R("r-iv-rename-locals", IV, "_validate_and_reformat_input: rename the locals sensitive_features / result_X, logger.debug, comment",
      ("    result_X = check_array(X, dtype=None, ensure_all_finite=False, allow_nd=True)\n    if isinstance(X, pd.DataFrame):\n        result_X = pd.DataFrame(result_X)\n\n"
       "    if (y is not None) and y.shape[0] != result_X.shape[0]:",
       "    out_X = check_array(X, dtype=None, ensure_all_finite=False, allow_nd=True)\n    if isinstance(X, pd.DataFrame):\n        out_X = pd.DataFrame(out_X)\n\n"
       "    if (y is not None) and y.shape[0] != out_X.shape[0]:"),
      (SF_BLOCK, "    sf = kwargs.get(_KW_SENSITIVE_FEATURES)\n    if sf is not None:\n        logger.debug(\"validating sensitive features\")\n"
                 "        check_consistent_length(X, sf)\n        sf = check_array(sf, ensure_2d=False, dtype=None)\n"
                 "        # more than one column: merge\n        if len(sf.shape) > 1 and sf.shape[1] > 1:\n            sf = _merge_columns(sf)\n        sf = pd.Series(sf.squeeze())\n"),
      ("    return (result_X, result_y, sensitive_features, control_features)\n", "    return out_X, result_y, sf, control_features\n")),
    R("r-iv-ndim-flipped", IV, "merge test written `x.ndim > 1 and 1 < x.shape[1]` / `.. >= 2`",
      (SF_TEST, "        if sensitive_features.ndim > 1 and 1 < sensitive_features.shape[1]:\n"),
      (CF_TEST, "        if 2 <= len(control_features.shape) and control_features.shape[1] >= 2:\n")),
    R("r-iv-merge-temp", IV, "the merged column through a temporary",
      ("            sensitive_features = _merge_columns(sensitive_features)\n",
       "            merged = _merge_columns(sensitive_features)\n            sensitive_features = merged\n")),
    R("r-up-rename-unpacked", UP, "DemographicParity.load_data: rename the unpacked vectors, annotation",
      ("        _, y_train, sf_train, cf_train = _validate_and_reformat_input(\n            X,\n            y,\n            enforce_binary_labels=True,\n"
       "            sensitive_features=sensitive_features,\n            control_features=control_features,\n        )\n\n" + DP_TAIL,
       "        _, y_train, groups, controls = _validate_and_reformat_input(\n            X,\n            y,\n            enforce_binary_labels=True,\n"
       "            control_features=control_features,\n            sensitive_features=sensitive_features,\n        )\n\n"
       "        base_event: pd.Series = pd.Series(data=_ALL, index=y_train.index)\n        event = _merge_event_and_control_columns(base_event, controls)\n"
       "        super().load_data(X, y_train, event=event, sensitive_features=groups)\n")),
    R("r-to-predict-temp", TO, "ThresholdOptimizer._pmf_predict: thresholder through a temporary",
      ("        check_is_fitted(self)\n        return self.interpolated_thresholder_._pmf_predict(\n            X, sensitive_features=sensitive_features\n        )\n",
       "        check_is_fitted(self)\n        fitted = self.interpolated_thresholder_\n        return fitted._pmf_predict(X, sensitive_features=sensitive_features)\n")),
    R("r-to-predict-x-keyword", TO, "ThresholdOptimizer.predict: X passed by keyword",
      (TOPRED, "        check_is_fitted(self)\n        return self.interpolated_thresholder_.predict(\n"
               "            X=X, sensitive_features=sensitive_features, random_state=random_state\n        )\n"),
      expect="refused", why="merge_callers.py / validation_tables.py alone: same; thresholder.py (other group) pins `predict(X, ...)` with X positional"),
    R("r-it-predict-rename", IT, "InterpolatedThresholder.predict: rename positive_probs, pmf through a temporary",
      (ITPRED + "        return (positive_probs >= random_state.rand(len(positive_probs))) * 1\n",
       "        pmf = self._pmf_predict(X, sensitive_features=sensitive_features)\n        p1 = pmf[:, 1]\n"
       "        return (p1 >= random_state.rand(len(p1))) * 1\n")),
    R("r-er-positional-free", ER, "ErrorRate.load_data: keywords reordered, docstring dropped, comment",
      (ER_CALL, "        # validate first\n        _, y_train, sf_train, _ = _validate_and_reformat_input(\n            X,\n            y,\n"
                "            control_features=control_features,\n            sensitive_features=sensitive_features,\n            enforce_binary_labels=True,\n        )\n"
                "        super().load_data(X, y_train, sensitive_features=sf_train)\n")),
    # ------------------------------------------------------------------ semantic edits
    S("s-iv-threshold", IV, "sensitive features merged only from 3 columns", (SF_TEST, "        if len(sensitive_features.shape) > 1 and sensitive_features.shape[1] > 2:\n")),
    S("s-iv-threshold-flipped", IV, "flipped comparison with the wrong direction", (SF_TEST, "        if len(sensitive_features.shape) > 1 and 1 > sensitive_features.shape[1]:\n")),
    S("s-iv-conjuncts-swapped", IV, "shape[1] read before the dimension test (IndexError for 1-d input)",
      (SF_TEST, "        if sensitive_features.shape[1] > 1 and len(sensitive_features.shape) > 1:\n")),
    S("s-iv-or", IV, "merge test `or`", (CF_TEST, "        if len(control_features.shape) > 1 or control_features.shape[1] > 1:\n")),
    S("s-iv-astype", IV, "single column stringified", ("        sensitive_features = pd.Series(sensitive_features.squeeze())\n", "        sensitive_features = pd.Series(sensitive_features.squeeze()).astype(str)\n")),
    S("s-iv-dtype", IV, "check_array converts to str", ("        control_features = check_array(control_features, ensure_2d=False, dtype=None)\n", "        control_features = check_array(control_features, ensure_2d=False, dtype=str)\n")),
    S("s-iv-other-merger", IV, "control features merged by another function",
      ("            control_features = _merge_columns(control_features)\n", "            control_features = _compress_columns(control_features)\n")),
    S("s-iv-merge-other-table", IV, "the sensitive table replaced by the merged control table",
      ("            sensitive_features = _merge_columns(sensitive_features)\n", "            sensitive_features = _merge_columns(control_features)\n")),
    S("s-iv-return-order", IV, "return tuple reordered",
      ("    return (result_X, result_y, sensitive_features, control_features)\n", "    return (result_X, result_y, control_features, sensitive_features)\n")),
    S("s-iv-kw-name", IV, "keyword name of the sensitive features changed", ("_KW_SENSITIVE_FEATURES = \"sensitive_features\"", "_KW_SENSITIVE_FEATURES = \"sensitive_feature\"")),
    S("s-up-position", UP, "DemographicParity takes the group vector from position 3",
      ("        _, y_train, sf_train, cf_train = _validate_and_reformat_input(\n            X,\n            y,\n            enforce_binary_labels=True,\n"
       "            sensitive_features=sensitive_features,\n            control_features=control_features,\n        )\n\n" + DP_TAIL,
       "        _, y_train, cf_train, sf_train = _validate_and_reformat_input(\n            X,\n            y,\n            enforce_binary_labels=True,\n"
       "            sensitive_features=sensitive_features,\n            control_features=control_features,\n        )\n\n" + DP_TAIL)),
    S("s-er-wrong-argument", ER, "ErrorRate validates the control features as sensitive features",
      (ER_CALL, ER_CALL.replace("            sensitive_features=sensitive_features,\n", "            sensitive_features=control_features,\n"))),
    S("s-er-reassigned", ER, "sensitive_features overwritten before validation",
      (ER_CALL, "        sensitive_features = sensitive_features[::-1]\n" + ER_CALL)),
    S("s-to-predict-other-features", TO, "ThresholdOptimizer.predict forwards other features",
      (TOPRED, TOPRED.replace("X, sensitive_features=sensitive_features, random_state", "X, sensitive_features=None, random_state"))),
    S("s-it-predict-other-X", IT, "InterpolatedThresholder.predict forwards another X", (ITPRED, ITPRED.replace("self._pmf_predict(X,", "self._pmf_predict(X[::-1],"))),
]
