"""eg.py (EGGen.lean) -- _constants.py, the closed fragments of ExponentiatedGradient.fit and _lagrangian.py"""
EG = "fairlearn/reductions/_exponentiated_gradient/exponentiated_gradient.py"
LG = "fairlearn/reductions/_exponentiated_gradient/_lagrangian.py"
CO = "fairlearn/reductions/_exponentiated_gradient/_constants.py"


def R(id, what, *edits, file=EG, **kw):
    return dict(id="eg-" + id, kind="R", file=file, edits=list(edits), what=what, **kw)


def S(id, what, *edits, file=EG, **kw):
    return dict(id="eg-" + id, kind="S", file=file, edits=list(edits), what=what, **kw)


BRK = "            if (gaps[t] < self.nu) and (t >= _MIN_ITER):\n"
KEEP = "        gaps_best = gaps_series[gaps_series <= gaps_series.min() + _PRECISION]\n"
GAP = "        return max(self.L - self.L_low, self.L_high - self.L)\n"
LH = "        if max_constraint > 0:\n            L_high += self.B * max_constraint\n"

CASES = [
    R("r-break-swapped", "swap the conjuncts of the break test and mirror one comparison",
      (BRK, "            if (t >= _MIN_ITER) and (self.nu > gaps[t]):\n")),
    R("r-break-temp", "temporary for the break test", (BRK, "            converged = gaps[t] < self.nu\n            if converged and (t >= _MIN_ITER):\n")),
    R("r-keep-temp-commute", "temporary for the keep threshold, commuted sum",
      (KEEP, "        threshold = _PRECISION + gaps_series.min()\n        gaps_best = gaps_series[gaps_series <= threshold]\n")),
    R("r-post-rename", "rename gaps_series / gaps_best",
      ("        gaps_series = pd.Series(gaps)\n" + KEEP + "        self.best_iter_ = gaps_best.index[-1]",
       "        gs = pd.Series(gaps)\n        best = gs[gs <= gs.min() + _PRECISION]\n        self.best_iter_ = best.index[-1]")),
    R("r-prefer-mirrored", "`if gap_LP > gap_EG:`", ("            if gap_EG < gap_LP:", "            if gap_LP > gap_EG:")),
    R("r-choice-if-not", "`if not gap_EG < gap_LP` with exchanged branches",
      ("            if gap_EG < gap_LP:\n                Qs.append(Q_EG)\n                gaps.append(gap_EG)\n            else:\n                Qs.append(Q_LP)\n                gaps.append(gap_LP)\n",
       "            if not gap_EG < gap_LP:\n                Qs.append(Q_LP)\n                gaps.append(gap_LP)\n            else:\n                Qs.append(Q_EG)\n                gaps.append(gap_EG)\n")),
    R("r-b-annot-logger", "annotation and logger.debug around B", ("        B = 1 / self.eps\n", "        B: float = 1 / self.eps\n        logger.debug(\"B=%f\", B)\n")),
    R("r-const-annot", "annotations / comment in _constants.py; 1e-8 spelled 0.00000001",
      ("_PRECISION = 1e-8", "# numerical slack\n_PRECISION: float = 0.00000001"), ("_MIN_ITER = 5", "_MIN_ITER: int = 5"), file=CO),
    R("r-gap-swapped", "arguments of max(...) in _GapResult.gap exchanged", (GAP, "        return max(self.L_high - self.L, self.L - self.L_low)\n"), file=LG),
    R("r-gap-temps", "temporaries in _GapResult.gap", (GAP, "        below = self.L - self.L_low\n        above = self.L_high - self.L\n        return max(below, above)\n"), file=LG),
    R("r-lhigh-spellings", "`0 < max_constraint`, `L_high = L_high + max_constraint * self.B`",
      (LH, "        if 0 < max_constraint:\n            L_high = L_high + max_constraint * self.B\n"), file=LG),
    R("r-eval-rename", "rename max_constraint / error in _eval",
      ("            error = self.obj.gamma(Q).iloc[0]\n", "            err = self.obj.gamma(Q).iloc[0]\n"),
      ("            error = self.errors[Q.index].dot(Q)\n", "            err = self.errors[Q.index].dot(Q)\n"),
      ("        L = error + np.sum(lambda_vec * (gamma - self.constraints.bound()))\n\n        max_constraint = (gamma - self.constraints.bound()).max()\n\n        L_high = error\n"
       "        if max_constraint > 0:\n            L_high += self.B * max_constraint\n        return L, L_high, gamma, error",
       "        L = err + np.sum(lambda_vec * (gamma - self.constraints.bound()))\n\n        worst = (gamma - self.constraints.bound()).max()\n\n        L_high = err\n"
       "        if worst > 0:\n            L_high += self.B * worst\n        return L, L_high, gamma, err"), file=LG),
    R("r-muls-tuple", "multipliers of eval_gap as a tuple", ("        for mul in [1.0, 2.0, 5.0, 10.0]:", "        for mul in (1.0, 2.0, 5.0, 10.0):"), file=LG),
    R("r-improves-temp", "temporary for the improvement threshold; mirrored comparison in the L_low update",
      ("        if h_value < best_value - _PRECISION:", "        needed = best_value - _PRECISION\n        if h_value < needed:"),
      ("            if L_low_mul < result.L_low:", "            if result.L_low > L_low_mul:"), file=LG),
    # ------------------------------------------------------------------ semantic edits
    S("s-break-or", "break test with `or`", (BRK, BRK.replace(") and (", ") or ("))),
    S("s-break-le", "break test `<=`", (BRK, BRK.replace("gaps[t] < self.nu", "gaps[t] <= self.nu"))),
    S("s-break-swapped-operands", "break test `self.nu < gaps[t]`", (BRK, BRK.replace("gaps[t] < self.nu", "self.nu < gaps[t]"))),
    S("s-keep-lt", "keep test `<`", (KEEP, KEEP.replace("<=", "<"))),
    S("s-keep-minus", "keep threshold min - _PRECISION", (KEEP, KEEP.replace("+ _PRECISION", "- _PRECISION"))),
    S("s-pick-first", "best_iter_ = first kept index", ("        self.best_iter_ = gaps_best.index[-1]", "        self.best_iter_ = gaps_best.index[0]")),
    S("s-best-gap", "best_gap_ read at index 0", ("        self.best_gap_ = gaps[self.best_iter_]", "        self.best_gap_ = gaps[0]")),
    S("s-prefer-le", "EG kept on ties", ("            if gap_EG < gap_LP:", "            if gap_EG <= gap_LP:")),
    S("s-prefer-swapped", "`if gap_LP < gap_EG` (operands swapped, operator kept)", ("            if gap_EG < gap_LP:", "            if gap_LP < gap_EG:")),
    S("s-choice-crossed", "LP weights stored with the EG gap", ("                Qs.append(Q_LP)\n                gaps.append(gap_LP)", "                Qs.append(Q_LP)\n                gaps.append(gap_EG)")),
    S("s-b", "B = 2 / eps", ("        B = 1 / self.eps\n", "        B = 2 / self.eps\n")),
    S("s-const", "_SHRINK_ETA = 0.9", ("_SHRINK_ETA = 0.8", "_SHRINK_ETA = 0.9"), file=CO),
    S("s-const-miniter", "_MIN_ITER = 0", ("_MIN_ITER = 5", "_MIN_ITER = 0"), file=CO),
    S("s-gap-min", "gap = min(...)", (GAP, GAP.replace("max(", "min(")), file=LG),
    S("s-gap-operands", "gap: L_low - L", (GAP, GAP.replace("self.L - self.L_low", "self.L_low - self.L")), file=LG),
    S("s-lhigh-ge", "L_high bump when max_constraint >= 0", (LH, LH.replace("> 0", ">= 0")), file=LG),
    S("s-lhigh-nob", "L_high += max_constraint", (LH, LH.replace("self.B * max_constraint", "max_constraint")), file=LG),
    S("s-lhigh-init", "L_high starts at L", ("        L_high = error\n", "        L_high = L\n"), file=LG),
    S("s-muls", "multipliers [1, 2, 5]", ("        for mul in [1.0, 2.0, 5.0, 10.0]:", "        for mul in [1.0, 2.0, 5.0]:"), file=LG),
    S("s-llow-gt", "L_low update `>`", ("            if L_low_mul < result.L_low:", "            if L_low_mul > result.L_low:"), file=LG),
    S("s-result-init", "_GapResult(L, L_high, L, ...)", ("        result = _GapResult(L, L, L_high, gamma, error)", "        result = _GapResult(L, L_high, L, gamma, error)"), file=LG),
    S("s-improves-le", "improvement test `<=`", ("        if h_value < best_value - _PRECISION:", "        if h_value <= best_value - _PRECISION:"), file=LG),
    S("s-improves-plus", "improvement test + _PRECISION", ("        if h_value < best_value - _PRECISION:", "        if h_value < best_value + _PRECISION:"), file=LG),
]

LEXP = "        L = error + np.sum(lambda_vec * (gamma - self.constraints.bound()))\n"
MAXC = "        max_constraint = (gamma - self.constraints.bound()).max()\n"
LOW = "            if L_low_mul < result.L_low:\n"
WTS = "        self.weights_ = Qs[self.best_iter_]\n"

CASES += [
    # ---- lifted since L1: the L expression, max_constraint, the L_low test, the weights_ index --------------- refactors
    R("r-L-commuted", "L: sum first, factors of the summand exchanged", (LEXP, "        L = np.sum((gamma - self.constraints.bound()) * lambda_vec) + error\n"), file=LG),
    R("r-L-temp", "L: temporary for the penalty", (LEXP, "        penalty = np.sum(lambda_vec * (gamma - self.constraints.bound()))\n        L = error + penalty\n"), file=LG),
    R("r-maxc-reorder", "max_constraint computed before L (independent statements)", (LEXP + "\n" + MAXC, MAXC + "\n" + LEXP), file=LG),
    R("r-weights-reorder", "weights_ assigned before best_gap_ (independent statements)",
      ("        self.best_gap_ = gaps[self.best_iter_]\n" + WTS, WTS + "        self.best_gap_ = gaps[self.best_iter_]\n")),
    R("r-weights-temp", "weights_ through a temporary index", (WTS, "        chosen = self.best_iter_\n        self.weights_ = Qs[chosen]\n")),
    # ------------------------------------------------------------------ semantic edits
    S("s-L-plus-bound", "L with gamma + bound", (LEXP, LEXP.replace("gamma - self", "gamma + self")), file=LG),
    S("s-L-minus", "L = error - sum", (LEXP, LEXP.replace("error + np.sum", "error - np.sum")), file=LG),
    S("s-L-nosum-bound", "L without the bound", (LEXP, "        L = error + np.sum(lambda_vec * gamma)\n"), file=LG),
    S("s-maxc-min", "max_constraint = (...).min()", (MAXC, MAXC.replace(".max()", ".min()")), file=LG),
    S("s-maxc-nobound", "max_constraint = gamma.max()", (MAXC, "        max_constraint = gamma.max()\n"), file=LG),
    S("s-maxc-abs", "max_constraint of |violation|", (MAXC, "        max_constraint = (gamma - self.constraints.bound()).abs().max()\n"), file=LG),
    S("s-llow-le", "L_low update `<=` (same function, other text)", (LOW, LOW.replace("<", "<=")), file=LG),
    S("s-llow-flipped", "L_low update compares the other way round", (LOW, "            if result.L_low < L_low_mul:\n"), file=LG),
    S("s-weights-last", "weights_ = Qs[-1]", (WTS, "        self.weights_ = Qs[-1]\n")),
    S("s-weights-first", "weights_ = Qs[0]", (WTS, "        self.weights_ = Qs[0]\n")),
    S("s-weights-last-len", "weights_ = Qs[len(Qs) - 1]", (WTS, "        self.weights_ = Qs[len(Qs) - 1]\n")),
]
