"""containers.py (ContainerSites.lean): the sinks inside Moment.load_data / UtilityParity.load_data
-- fairlearn/reductions/_moments/moment.py, utility_parity.py, error_rate.py"""
MO = "fairlearn/reductions/_moments/moment.py"
UP = "fairlearn/reductions/_moments/utility_parity.py"
ER = "fairlearn/reductions/_moments/error_rate.py"


def R(id, what, *edits, file=MO, **kw):
    return dict(id="containers-" + id, kind="R", file=file, edits=list(edits), what=what, **kw)


def S(id, what, *edits, file=MO, **kw):
    return dict(id="containers-" + id, kind="S", file=file, edits=list(edits), what=what, **kw)


CASES = [
    R("r-moment-order", "Moment.load_data: independent statements reordered",
      ("        self.X = X\n        self._y = y\n", "        self._y = y\n        self.X = X\n")),
    R("r-up-kw", "UtilityParity.load_data: y passed to super().load_data by keyword",
      ("        super().load_data(X, y, sensitive_features=sensitive_features)\n        self.tags[_EVENT] = event\n",
       "        super().load_data(X, y=y, sensitive_features=sensitive_features)\n        self.tags[_EVENT] = event\n"), file=UP),
    # ------------------------------------------------------------------ semantic edits
    S("s-dp-raw-sf", "DemographicParity.load_data hands the RAW sensitive features to super().load_data (joined by label in Moment.load_data)",
      ("        super().load_data(X, y_train, event=event, sensitive_features=sf_train)\n\n\nclass TruePositiveRateParity",
       "        super().load_data(X, y_train, event=event, sensitive_features=sensitive_features)\n\n\nclass TruePositiveRateParity"), file=UP),
    S("s-moment-raw-x-index", "Moment.load_data re-indexes the labels by X's index",
      ("        self.tags = pd.DataFrame({_LABEL: y})\n", "        self.tags = pd.DataFrame({_LABEL: pd.Series(y.values, index=X.index)})\n")),
    S("s-moment-group-from-x", "Moment.load_data takes the group column from a column of X",
      ("            self.tags[_GROUP_ID] = sensitive_features\n", "            self.tags[_GROUP_ID] = X[sensitive_features.name]\n")),
    S("s-up-event-raw", "UtilityParity.load_data: a new parameter stored raw in tags",
      ("        self.tags[_EVENT] = event\n", "        self.tags[_EVENT] = event\n        self.tags[\"x0\"] = X\n"), file=UP),
]
