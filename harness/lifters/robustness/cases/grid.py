"""grid.py (GridSrc.lean): the regression branch of the relabelling, `is_classification_reduction`, the clip of the estimate
-- fairlearn/reductions/_grid_search/grid_search.py, _grid_generator.py"""
GS = "fairlearn/reductions/_grid_search/grid_search.py"
GG = "fairlearn/reductions/_grid_search/_grid_generator.py"


def R(id, what, *edits, file=GS, **kw):
    return dict(id="grid-" + id, kind="R", file=file, edits=list(edits), what=what, **kw)


def S(id, what, *edits, file=GS, **kw):
    return dict(id="grid-" + id, kind="S", file=file, edits=list(edits), what=what, **kw)


ELSE = "            else:\n                y_reduction = self.constraints._y_as_series\n"
ICR = ("            is_classification_reduction = True\n        else:\n            logger.debug(\"Regression problem detected\")\n"
       "            is_classification_reduction = False\n")

CASES = [
    R("r-else-logger", "a logger call in the regression branch",
      (ELSE, "            else:\n                logger.debug(\"Regression: labels unchanged\")\n                y_reduction = self.constraints._y_as_series\n")),
    R("r-icr-no-logger", "the logger call of the regression detection dropped",
      (ICR, "            is_classification_reduction = True\n        else:\n            is_classification_reduction = False\n")),
    # ------------------------------------------------------------------ semantic edits
    S("s-else-relabelled", "regression data relabelled like classification data",
      (ELSE, "            else:\n                y_reduction = 1 * (weights > 0)\n")),
    S("s-else-abs", "regression weights made absolute", (ELSE, ELSE + "                weights = weights.abs()\n")),
    S("s-else-halved", "regression weights halved", (ELSE, ELSE + "                weights = weights / 2.0\n")),
    S("s-else-other-labels", "regression labels taken from the objective", (ELSE, "            else:\n                y_reduction = objective._y_as_series\n")),
    S("s-icr-always", "every moment is treated as a classification moment",
      (ICR, "            is_classification_reduction = True\n        else:\n            logger.debug(\"Regression problem detected\")\n"
       "            is_classification_reduction = True\n")),
    S("s-icr-other-class", "the test is for LossMoment", ("        if isinstance(self.constraints, ClassificationMoment):\n", "        if not isinstance(self.constraints, LossMoment):\n"),
      ("from fairlearn.reductions._moments import ClassificationMoment, Moment", "from fairlearn.reductions._moments import ClassificationMoment, LossMoment, Moment")),
    S("s-clip-at-one", "the initial estimate is clipped at 1", ("        if n_units < 0:\n            n_units = 0\n", "        if n_units < 1:\n            n_units = 1\n"), file=GG),
    S("s-ctor-range", "constraint_weight up to 2 accepted", ("            if not (0.0 <= constraint_weight <= 1.0):\n", "            if not (0.0 <= constraint_weight <= 2.0):\n")),
]
