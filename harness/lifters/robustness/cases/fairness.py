"""fairness.py (FairnessSpec.lean) -- METRICS_SPEC / generating loop, transform dispatch of _DerivedMetric.__call__
(the parts anchored in _fairness_metrics.py are exercised by cases/fairness_named.py: both lifters read that file)"""
G = "fairlearn/metrics/_generated_metrics.py"
M = "fairlearn/metrics/_make_derived_metric.py"


def R(id, what, *edits, **kw):
    return dict(id="fairness-" + id, kind="R", file=kw.pop("file", G), edits=list(edits), what=what, **kw)


def S(id, what, *edits, **kw):
    return dict(id="fairness-" + id, kind="S", file=kw.pop("file", G), edits=list(edits), what=what, **kw)


LOOP = ("for base_metric, variants in METRICS_SPEC:\n    for variant in variants:\n        name = \"{0}_{1}\".format(base_metric.__name__, variant)\n"
        "        fn = make_derived_metric(\n            metric=base_metric, transform=variant, sample_param_names=[\"sample_weight\"]\n        )\n"
        "        fn.__name__ = name\n        _generated_metric_dict[name] = fn\n")

CASES = [
    # ------------------------------------------------------------------ refactors
    R("r-loop-rename", "generating loop: rename base_metric, variants, variant, name, fn",
      (LOOP, "for metric_fn, kinds in METRICS_SPEC:\n    for kind in kinds:\n        label = \"{0}_{1}\".format(metric_fn.__name__, kind)\n"
       "        derived = make_derived_metric(\n            metric=metric_fn, transform=kind, sample_param_names=[\"sample_weight\"]\n        )\n"
       "        derived.__name__ = label\n        _generated_metric_dict[label] = derived\n")),
    R("r-loop-fstring", "generating loop: f-string for the name, keywords reordered, stores reordered",
      (LOOP, "for base_metric, variants in METRICS_SPEC:\n    for variant in variants:\n        name = f\"{base_metric.__name__}_{variant}\"\n"
       "        fn = make_derived_metric(\n            transform=variant, sample_param_names=[\"sample_weight\"], metric=base_metric\n        )\n"
       "        _generated_metric_dict[name] = fn\n        fn.__name__ = name\n")),
    R("r-loop-noise", "generating loop: comment, logger.debug, annotation",
      ("        fn.__name__ = name\n", "        # give the function its public name\n        logger.debug(\"generated %s\", name)\n        fn.__name__ = name\n"),
      ("_generated_metric_dict = dict()\n", "import logging\n\nlogger = logging.getLogger(__name__)\n_generated_metric_dict: dict = dict()\n")),
    R("r-spec-layout", "METRICS_SPEC: entry split over several lines, trailing comma",
      ("    (skm.accuracy_score, [\"difference\", \"ratio\", \"group_min\"]),\n", "    (\n        skm.accuracy_score,\n        [\"difference\", \"ratio\", \"group_min\",],\n    ),\n")),
    R("r-dispatch-rename", "__call__: rename result -> value, all_metrics -> frame, dispatch_fn -> fn, transform_parameters -> tp",
      ("        transform_parameters = dict()\n", "        tp = dict()\n"), ("                transform_parameters[k] = v\n", "                tp[k] = v\n"),
      ("        dispatch_fn = functools.partial(self._metric_fn, **params)\n", "        fn = functools.partial(self._metric_fn, **params)\n"),
      ("        dispatch_fn.__name__ = bound_fn_name\n", "        fn.__name__ = bound_fn_name\n"),
      ("        all_metrics = MetricFrame(\n            metrics=dispatch_fn,", "        frame = MetricFrame(\n            metrics=fn,"),
      ("            result = all_metrics.difference(**transform_parameters)\n", "            value = frame.difference(**tp)\n"),
      ("            result = all_metrics.ratio(**transform_parameters)\n", "            value = frame.ratio(**tp)\n"),
      ("            result = all_metrics.group_min()\n", "            value = frame.group_min()\n"),
      ("            result = all_metrics.group_max()\n", "            value = frame.group_max()\n"),
      ("        return result\n", "        return value\n"), file=M),
    R("r-options-layout", "transform_options / parameters_for_transforms: annotation and one-line layout",
      ("parameters_for_transforms = [\"method\"]", "parameters_for_transforms: list[str] = [\n    \"method\",\n]"), file=M),
    # ------------------------------------------------------------------ semantic edits
    S("s-spec-variant", "METRICS_SPEC: selection_rate gets group_min", ("    (selection_rate, [\"difference\", \"ratio\"]),", "    (selection_rate, [\"difference\", \"ratio\", \"group_min\"]),")),
    S("s-spec-base", "METRICS_SPEC: recall_score replaced by precision_score twice", ("    (skm.recall_score, [\"group_min\"]),", "    (skm.precision_score, [\"group_min\"]),")),
    S("s-loop-spn", "generating loop: sample_param_names=[]", ("sample_param_names=[\"sample_weight\"]", "sample_param_names=[]")),
    S("s-loop-transform", "generating loop: transform=\"difference\" for every variant", ("transform=variant,", "transform=\"difference\",")),
    S("s-loop-name", "generating loop: name pattern variant_metric", ("\"{0}_{1}\".format(base_metric.__name__, variant)", "\"{1}_{0}\".format(base_metric.__name__, variant)")),
    S("s-loop-iter", "generating loop: inner loop over a fixed list", ("    for variant in variants:\n", "    for variant in [\"difference\"]:\n")),
    S("s-dispatch-swapped", "__call__: difference / ratio methods exchanged",
      ("            result = all_metrics.difference(**transform_parameters)\n", "            result = all_metrics.ratio(**transform_parameters)\n"),
      ("            result = all_metrics.ratio(**transform_parameters)\n        elif self._transform == \"group_min\"", "            result = all_metrics.difference(**transform_parameters)\n        elif self._transform == \"group_min\""), file=M),
    S("s-dispatch-no-params", "__call__: difference() without the transform parameters",
      ("            result = all_metrics.difference(**transform_parameters)\n", "            result = all_metrics.difference()\n"), file=M),
    S("s-dispatch-minmax", "__call__: group_min dispatches to group_max", ("            result = all_metrics.group_min()\n", "            result = all_metrics.group_max()\n"), file=M),
    S("s-options", "transform_options loses group_max", ("    \"group_max\",\n", ""), file=M),
    S("s-tparams", "parameters_for_transforms = [\"method\", \"errors\"]", ("parameters_for_transforms = [\"method\"]", "parameters_for_transforms = [\"method\", \"errors\"]"), file=M),
    S("s-frame-metrics", "__call__: MetricFrame built from the unbound metric", ("            metrics=dispatch_fn,\n", "            metrics=self._metric_fn,\n"), file=M),
]
