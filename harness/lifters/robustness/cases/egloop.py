"""egloop.py (EGLoopGen.lean, LinProgGen.lean) -- ExponentiatedGradient.fit main loop, _Lagrangian.eval_gap / _eval /
best_h / solve_linprog"""
EG = "fairlearn/reductions/_exponentiated_gradient/exponentiated_gradient.py"
LG = "fairlearn/reductions/_exponentiated_gradient/_lagrangian.py"


def R(id, what, *edits, file=EG, **kw):
    return dict(id="egloop-" + id, kind="R", file=file, edits=list(edits), what=what, **kw)


def S(id, what, *edits, file=EG, **kw):
    return dict(id="egloop-" + id, kind="S", file=file, edits=list(edits), what=what, **kw)


LAM = "            lambda_vec = B * np.exp(theta) / (1 + np.exp(theta).sum())\n"
THETA = "            theta += eta * (gamma - self.constraints.bound())\n"
LP1 = "        result = opt.linprog(c, A_ub=A_ub, b_ub=b_ub, A_eq=A_eq, b_eq=b_eq, method=\"highs-ds\")\n"

CASES = [
    # ------------------------------------------------------------------ refactors: fit
    R("r-rename-t", "rename the loop variable t -> it",
      ("        for t in range(0, self.max_iter):\n            logger.debug(\"...iter=%03d\", t)", "        for it in range(self.max_iter):\n            logger.debug(\"...iter=%03d\", it)"),
      ("            self.lambda_vecs_EG_[t] = lambda_vec", "            self.lambda_vecs_EG_[it] = lambda_vec"),
      ("            if t == 0:\n                if self.nu is None:", "            if it == 0:\n                if self.nu is None:"),
      ("            if t == 0 or not self.run_linprog_step:", "            if it == 0 or not self.run_linprog_step:"),
      ("                Q_LP, self.lambda_vecs_LP_[t], result_LP", "                Q_LP, self.lambda_vecs_LP_[it], result_LP"),
      ("            if (gaps[t] < self.nu) and (t >= _MIN_ITER):", "            if (gaps[it] < self.nu) and (it >= _MIN_ITER):"),
      ("            if t >= last_regret_checked * _REGRET_CHECK_INCREASE_T:", "            if it >= last_regret_checked * _REGRET_CHECK_INCREASE_T:"),
      ("                last_regret_checked = t\n", "                last_regret_checked = it\n")),
    R("r-rename-locals", "rename theta / Qsum / gamma / h_idx / eta / best_gap / last_gap",
      ("        theta = pd.Series(0, lagrangian.constraints.index)", "        th = pd.Series(0, lagrangian.constraints.index)"),
      ("        Qsum = pd.Series(dtype=\"float64\")", "        counts = pd.Series(dtype=\"float64\")"),
      ("        last_gap = np.inf\n", "        prev_gap = np.inf\n"),
      (LAM, "            lambda_vec = B * np.exp(th) / (1 + np.exp(th).sum())\n"),
      ("            h, h_idx = lagrangian.best_h(lambda_vec)", "            h, k = lagrangian.best_h(lambda_vec)"),
      ("                eta = self.eta0 / B\n", "                lr = self.eta0 / B\n"),
      ("            if h_idx not in Qsum.index:\n                Qsum.at[h_idx] = 0.0\n            Qsum[h_idx] += 1.0\n"
       "            gamma = lagrangian.gammas[h_idx]\n            Q_EG = Qsum / Qsum.sum()",
       "            if k not in counts.index:\n                counts.at[k] = 0.0\n            counts[k] += 1.0\n"
       "            viol = lagrangian.gammas[k]\n            Q_EG = counts / counts.sum()"),
      ("                _INDENTATION,\n                eta,", "                _INDENTATION,\n                lr,"),
      ("                best_gap = min(gaps_EG)\n\n                if best_gap > last_gap * _SHRINK_REGRET:\n                    eta *= _SHRINK_ETA\n"
       "                last_regret_checked = t\n                last_gap = best_gap",
       "                cur = min(gaps_EG)\n\n                if cur > prev_gap * _SHRINK_REGRET:\n                    lr *= _SHRINK_ETA\n"
       "                last_regret_checked = t\n                prev_gap = cur"),
      (THETA, "            th += lr * (viol - self.constraints.bound())\n")),
    R("r-reorder-independent", "move the gamma read before the Qsum bookkeeping and the column store after best_h",
      ("            self.lambda_vecs_EG_[t] = lambda_vec\n            lambda_EG = self.lambda_vecs_EG_.mean(axis=1)\n\n"
       "            # select classifier according to best_h method\n            h, h_idx = lagrangian.best_h(lambda_vec)\n",
       "            h, h_idx = lagrangian.best_h(lambda_vec)\n            self.lambda_vecs_EG_[t] = lambda_vec\n"
       "            lambda_EG = self.lambda_vecs_EG_.mean(axis=1)\n"),
      ("            if h_idx not in Qsum.index:\n                Qsum.at[h_idx] = 0.0\n            Qsum[h_idx] += 1.0\n            gamma = lagrangian.gammas[h_idx]\n",
       "            gamma = lagrangian.gammas[h_idx]\n            if h_idx not in Qsum.index:\n                Qsum.at[h_idx] = 0.0\n            Qsum[h_idx] += 1.0\n")),
    R("r-logger-annot", "logger.debug / comments / annotations in the loop",
      (LAM, "            logger.debug(\"theta max %f\", theta.max())\n" + LAM),
      ("            Q_EG = Qsum / Qsum.sum()", "            # normalise\n            Q_EG: pd.Series = Qsum / Qsum.sum()"),
      ("        last_gap = np.inf\n", "        last_gap: float = np.inf\n")),
    R("r-temp-exp", "temporary for np.exp(theta) (used twice) and for its sum",
      (LAM, "            exp_theta = np.exp(theta)\n            lambda_vec = B * exp_theta / (1 + exp_theta.sum())\n")),
    R("r-temp-bound", "temporary for the violation in the theta update; temporaries in Q_EG and the regret test",
      (THETA, "            violation = gamma - self.constraints.bound()\n            theta += eta * violation\n"),
      ("            Q_EG = Qsum / Qsum.sum()", "            total = Qsum.sum()\n            Q_EG = Qsum / total"),
      ("            if t >= last_regret_checked * _REGRET_CHECK_INCREASE_T:", "            next_check = last_regret_checked * _REGRET_CHECK_INCREASE_T\n            if t >= next_check:")),
    R("r-commute", "commute `1 + sum`, `last_gap * _SHRINK_REGRET`, `eta * (...)`",
      (LAM, "            lambda_vec = B * np.exp(theta) / (np.exp(theta).sum() + 1)\n"),
      ("                if best_gap > last_gap * _SHRINK_REGRET:", "                if best_gap > _SHRINK_REGRET * last_gap:"),
      (THETA, "            theta += (gamma - self.constraints.bound()) * eta\n")),
    R("r-augassign", "`x += e` spelled `x = x + e` for theta, eta and the Qsum bump",
      (THETA, "            theta = theta + eta * (gamma - self.constraints.bound())\n"),
      ("                    eta *= _SHRINK_ETA", "                    eta = eta * _SHRINK_ETA"),
      ("            Qsum[h_idx] += 1.0", "            Qsum[h_idx] = Qsum[h_idx] + 1.0")),
    R("r-skiplp-swapped", "swap the disjuncts of the LP-skip test; `not (h_idx in ...)`",
      ("            if t == 0 or not self.run_linprog_step:", "            if not self.run_linprog_step or t == 0:"),
      ("            if h_idx not in Qsum.index:", "            if not (h_idx in Qsum.index):")),
    R("r-lp-if-not", "LP step written `if not (...): solve else: gap_LP = inf`",
      ("            if t == 0 or not self.run_linprog_step:\n                gap_LP = np.inf\n            else:\n"
       "                # saddle point optimization over the convex hull of\n                # classifiers returned so far\n"
       "                Q_LP, self.lambda_vecs_LP_[t], result_LP = lagrangian.solve_linprog(self.nu)\n                gap_LP = result_LP.gap()\n",
       "            if not (t == 0 or not self.run_linprog_step):\n"
       "                Q_LP, self.lambda_vecs_LP_[t], result_LP = lagrangian.solve_linprog(self.nu)\n                gap_LP = result_LP.gap()\n"
       "            else:\n                gap_LP = np.inf\n")),
    R("r-keywords", "keyword / positional spellings: pd.Series(0, index=...), mean(1), eval_gap(nu=...)",
      ("        theta = pd.Series(0, lagrangian.constraints.index)", "        theta = pd.Series(0, index=lagrangian.constraints.index)"),
      ("            lambda_EG = self.lambda_vecs_EG_.mean(axis=1)", "            lambda_EG = self.lambda_vecs_EG_.mean(1)"),
      ("            result_EG = lagrangian.eval_gap(Q_EG, lambda_EG, self.nu)", "            result_EG = lagrangian.eval_gap(Q_EG, lambda_EG, nu=self.nu)")),
    R("r-inline-result", "inline result_EG / result_LP is NOT done; reorder the post-loop bookkeeping instead",
      ("        self.last_iter_ = len(Qs) - 1\n        self.predictors_ = lagrangian.predictors\n        self.n_oracle_calls_ = lagrangian.n_oracle_calls\n",
       "        self.predictors_ = lagrangian.predictors\n        self.n_oracle_calls_ = lagrangian.n_oracle_calls\n        self.last_iter_ = len(Qs) - 1\n")),
    R("r-pad-if-not", "padding loop with a temporary for the index",
      ("        for h_idx in self._hs.index:\n            if h_idx not in self.weights_.index:",
       "        for h_idx in self._hs.index:\n            if not (h_idx in self.weights_.index):")),
    # ------------------------------------------------------------------ refactors: _lagrangian.py
    R("r-evalgap-rename", "rename mul / h_hat_idx / L_low_mul in eval_gap",
      ("        for mul in [1.0, 2.0, 5.0, 10.0]:\n            _, h_hat_idx = self.best_h(mul * lambda_hat)\n"
       "            logger.debug(\"%smul=%.0f\", _INDENTATION, mul)\n"
       "            L_low_mul, _, _, _ = self._eval(pd.Series({h_hat_idx: 1.0}), lambda_hat)\n"
       "            if L_low_mul < result.L_low:\n                result.L_low = L_low_mul",
       "        for m in [1.0, 2.0, 5.0, 10.0]:\n            _, idx = self.best_h(m * lambda_hat)\n"
       "            logger.debug(\"%smul=%.0f\", _INDENTATION, m)\n"
       "            low, _, _, _ = self._eval(pd.Series({idx: 1.0}), lambda_hat)\n"
       "            if low < result.L_low:\n                result.L_low = low"), file=LG),
    R("r-evalgap-commute", "`_PRECISION + nu`, `lambda_hat * mul`",
      ("            if result.gap() > nu + _PRECISION:", "            if result.gap() > _PRECISION + nu:"),
      ("self.best_h(mul * lambda_hat)", "self.best_h(lambda_hat * mul)"), file=LG),
    R("r-evalgap-temp", "temporary for the point-mass mixture and for the gap",
      ("            L_low_mul, _, _, _ = self._eval(pd.Series({h_hat_idx: 1.0}), lambda_hat)",
       "            point_mass = pd.Series({h_hat_idx: 1.0})\n            L_low_mul, _, _, _ = self._eval(point_mass, lambda_hat)"),
      ("            if result.gap() > nu + _PRECISION:", "            gap = result.gap()\n            if gap > nu + _PRECISION:"), file=LG),
    R("r-besth-rename", "rename classifier / values / h_value in best_h",
      ("        classifier = self._call_oracle(lambda_vec)\n\n        h = _PredictorAsCallable(classifier)", "        clf = self._call_oracle(lambda_vec)\n\n        h = _PredictorAsCallable(clf)"),
      ("        h_value = h_error + h_gamma.dot(lambda_vec)", "        val = h_error + h_gamma.dot(lambda_vec)"),
      ("            values = self.errors + self.gammas.transpose().dot(lambda_vec)\n            best_idx = values.idxmin()\n            best_value = values[best_idx]",
       "            vals = self.errors + self.gammas.transpose().dot(lambda_vec)\n            best_idx = vals.idxmin()\n            best_value = vals[best_idx]"),
      ("        if h_value < best_value - _PRECISION:\n            logger.debug(\"%sbest_h: val improvement %f\", _LINE, best_value - h_value)",
       "        if val < best_value - _PRECISION:\n            logger.debug(\"%sbest_h: val improvement %f\", _LINE, best_value - val)"),
      ("            self.predictors.at[h_idx] = classifier", "            self.predictors.at[h_idx] = clf"), file=LG),
    R("r-besth-commute", "commute h_value's summands; reorder independent stores; temporaries",
      ("        h_value = h_error + h_gamma.dot(lambda_vec)", "        h_value = h_gamma.dot(lambda_vec) + h_error"),
      ("            self.errors.at[h_idx] = h_error\n            self.gammas[h_idx] = h_gamma\n", "            self.gammas[h_idx] = h_gamma\n            self.errors.at[h_idx] = h_error\n"),
      ("        return self.hs[best_idx], best_idx", "        best = self.hs[best_idx]\n        return best, best_idx"), file=LG),
    R("r-eval-temp", "temporary for the violation vector used by L and max_constraint in _eval",
      ("        L = error + np.sum(lambda_vec * (gamma - self.constraints.bound()))\n\n        max_constraint = (gamma - self.constraints.bound()).max()",
       "        violation = gamma - self.constraints.bound()\n        L = error + np.sum(lambda_vec * violation)\n\n        max_constraint = violation.max()"), file=LG),
    R("r-eval-if-not-callable", "`if not callable(Q)` with swapped branches",
      ("        if callable(Q):\n            error = self.obj.gamma(Q).iloc[0]\n            gamma = self.constraints.gamma(Q)\n        else:\n"
       "            error = self.errors[Q.index].dot(Q)\n            gamma = self.gammas[Q.index].dot(Q)\n",
       "        if not callable(Q):\n            error = self.errors[Q.index].dot(Q)\n            gamma = self.gammas[Q.index].dot(Q)\n        else:\n"
       "            error = self.obj.gamma(Q).iloc[0]\n            gamma = self.constraints.gamma(Q)\n"), file=LG),
    R("r-lp-rename", "rename c / A_ub / b_eq / n_hs / result / dual_bounds in solve_linprog",
      ("        n_hs = len(self.hs)\n        n_constraints = len(self.constraints.index)\n        if self.last_linprog_n_hs == n_hs:",
       "        nh = len(self.hs)\n        n_constraints = len(self.constraints.index)\n        if self.last_linprog_n_hs == nh:"),
      ("        c = np.concatenate((self.errors, [self.B]))\n        A_ub = np.concatenate(", "        cost = np.concatenate((self.errors, [self.B]))\n        lhs = np.concatenate("),
      ("        A_eq = np.concatenate((np.ones((1, n_hs)), np.zeros((1, 1))), axis=1)\n        b_eq = np.ones(1)\n" + LP1,
       "        A_eq = np.concatenate((np.ones((1, nh)), np.zeros((1, 1))), axis=1)\n        rhs_eq = np.ones(1)\n"
       "        res = opt.linprog(cost, A_ub=lhs, b_ub=b_ub, A_eq=A_eq, b_eq=rhs_eq, method=\"highs-ds\")\n"),
      ("        Q = pd.Series(result.x[:-1], self.hs.index)\n        dual_c = np.concatenate((b_ub, -b_eq))\n"
       "        dual_A_ub = np.concatenate((-A_ub.transpose(), A_eq.transpose()), axis=1)\n        dual_b_ub = c\n        dual_bounds = [",
       "        Q = pd.Series(res.x[:-1], self.hs.index)\n        dual_c = np.concatenate((b_ub, -rhs_eq))\n"
       "        dual_A_ub = np.concatenate((-lhs.transpose(), A_eq.transpose()), axis=1)\n        dual_b_ub = cost\n        bnds = ["),
      ("            bounds=dual_bounds,", "            bounds=bnds,"),
      ("        self.last_linprog_n_hs = n_hs\n", "        self.last_linprog_n_hs = nh\n"), file=LG),
    R("r-lp-positional", "linprog called positionally; list instead of tuple in concatenate; comprehension variable renamed",
      (LP1, "        result = opt.linprog(c, A_ub, b_ub, A_eq, b_eq, method=\"highs-ds\")\n"),
      ("        c = np.concatenate((self.errors, [self.B]))", "        c = np.concatenate([self.errors, [self.B]])"),
      ("            (None, None) if i == n_constraints else (0, None) for i in range(n_constraints + 1)", "            (None, None) if j == n_constraints else (0, None) for j in range(n_constraints + 1)"), file=LG),
    R("r-lp-temps", "temporaries for the shifted gammas and the gap of the LP solution; reorder b_ub / A_eq",
      ("        A_ub = np.concatenate(\n            (\n                self.gammas.sub(self.constraints.bound(), axis=0),\n                -np.ones((n_constraints, 1)),\n            ),\n            axis=1,\n        )\n"
       "        b_ub = np.zeros(n_constraints)\n        A_eq = np.concatenate((np.ones((1, n_hs)), np.zeros((1, 1))), axis=1)\n",
       "        shifted = self.gammas.sub(self.constraints.bound(), axis=0)\n        A_ub = np.concatenate((shifted, -np.ones((n_constraints, 1))), axis=1)\n"
       "        A_eq = np.concatenate((np.ones((1, n_hs)), np.zeros((1, 1))), axis=1)\n        b_ub = np.zeros(n_constraints)\n"),
      ("        self.last_linprog_result = (\n            Q,\n            lambda_vec,\n            self.eval_gap(Q, lambda_vec, nu),\n        )",
       "        gap_result = self.eval_gap(Q, lambda_vec, nu)\n        self.last_linprog_result = (Q, lambda_vec, gap_result)"), file=LG),
    R("r-lp-dual-ifnot", "dual bounds with `if not i == n_constraints` swapped; cache test sides swapped",
      ("            (None, None) if i == n_constraints else (0, None) for i in range(n_constraints + 1)", "            (0, None) if not i == n_constraints else (None, None) for i in range(0, n_constraints + 1)"),
      ("        if self.last_linprog_n_hs == n_hs:", "        if n_hs == self.last_linprog_n_hs:"), file=LG),
    # ------------------------------------------------------------------ semantic edits: fit
    S("s-lam-one", "lambda_vec denominator 2 + sum", (LAM, LAM.replace("(1 + np", "(2 + np"))),
    S("s-lam-shape", "lambda_vec = B / exp * ...", (LAM, "            lambda_vec = B / np.exp(theta) * (1 + np.exp(theta).sum())\n")),
    S("s-lam-store", "column t stores lambda_EG", ("            self.lambda_vecs_EG_[t] = lambda_vec", "            self.lambda_vecs_EG_[t] = theta")),
    S("s-lam-mean-axis", "mean over axis 0", ("self.lambda_vecs_EG_.mean(axis=1)", "self.lambda_vecs_EG_.mean(axis=0)")),
    S("s-qnew", "new entry starts at 1.0", ("                Qsum.at[h_idx] = 0.0", "                Qsum.at[h_idx] = 1.0")),
    S("s-qbump", "bump by 2.0", ("            Qsum[h_idx] += 1.0", "            Qsum[h_idx] += 2.0")),
    S("s-qnorm", "Q_EG = Qsum / Qsum.max()", ("            Q_EG = Qsum / Qsum.sum()", "            Q_EG = Qsum / Qsum.max()")),
    S("s-eta", "eta = eta0 * B", ("                eta = self.eta0 / B", "                eta = self.eta0 * B")),
    S("s-skiplp-t", "LP skipped for t == 1", ("            if t == 0 or not self.run_linprog_step:", "            if t == 1 or not self.run_linprog_step:")),
    S("s-skiplp-and", "LP skip with `and`", ("            if t == 0 or not self.run_linprog_step:", "            if t == 0 and not self.run_linprog_step:")),
    S("s-skiplp-inf", "gap_LP = 0 when skipped", ("                gap_LP = np.inf", "                gap_LP = 0.0")),
    S("s-regret-gt", "regret check `>`", ("            if t >= last_regret_checked * _REGRET_CHECK_INCREASE_T:", "            if t > last_regret_checked * _REGRET_CHECK_INCREASE_T:")),
    S("s-shrink-lt", "shrink test `<`", ("                if best_gap > last_gap * _SHRINK_REGRET:", "                if best_gap < last_gap * _SHRINK_REGRET:")),
    S("s-shrink-div", "eta /= _SHRINK_ETA", ("                    eta *= _SHRINK_ETA", "                    eta /= _SHRINK_ETA")),
    S("s-shrink-max", "best_gap = max(gaps_EG)", ("                best_gap = min(gaps_EG)", "                best_gap = max(gaps_EG)")),
    S("s-theta-minus", "theta -= ...", (THETA, THETA.replace("+=", "-="))),
    S("s-theta-swapped", "bound - gamma", (THETA, "            theta += eta * (self.constraints.bound() - gamma)\n")),
    S("s-theta-init", "theta starts at 1", ("        theta = pd.Series(0, lagrangian.constraints.index)", "        theta = pd.Series(1, lagrangian.constraints.index)")),
    S("s-lastgap-init", "last_gap starts at 0", ("        last_gap = np.inf\n", "        last_gap = 0.0\n")),
    S("s-last-iter", "last_iter_ = len(Qs)", ("        self.last_iter_ = len(Qs) - 1", "        self.last_iter_ = len(Qs)")),
    S("s-order-theta-first", "theta updated before the regret check (dependent statements reordered)",
      ("            # update regret\n", THETA + "            # update regret\n"),
      ("            # update theta based on learning rate\n" + THETA, "")),
    S("s-order-gamma-stale", "gamma read before best_h",
      ("            h, h_idx = lagrangian.best_h(lambda_vec)\n", "            gamma = lagrangian.gammas[h_idx]\n            h, h_idx = lagrangian.best_h(lambda_vec)\n"),
      ("            Qsum[h_idx] += 1.0\n            gamma = lagrangian.gammas[h_idx]\n", "            Qsum[h_idx] += 1.0\n")),
    S("s-order-append-late", "gaps_EG.append after the regret check",
      ("            gap_EG = result_EG.gap()\n            gaps_EG.append(gap_EG)\n", "            gap_EG = result_EG.gap()\n"),
      ("            # update theta based on learning rate\n", "            gaps_EG.append(gap_EG)\n")),
    S("s-extra-statement", "an extra statement resets theta in the loop", (LAM, "            theta = theta * 0\n" + LAM)),
    S("s-evalgap-args", "eval_gap(Q_EG, lambda_vec, ...)", ("lagrangian.eval_gap(Q_EG, lambda_EG, self.nu)", "lagrangian.eval_gap(Q_EG, lambda_vec, self.nu)")),
    S("s-pad-value", "weights_ padded with 1.0", ("                self.weights_.at[h_idx] = 0.0", "                self.weights_.at[h_idx] = 1.0")),
    S("s-temp-stale-sum", "Q_EG normalised by a total taken BEFORE the bump (a temporary that must not be inlined)",
      ("            Qsum[h_idx] += 1.0\n", "            total = Qsum.sum()\n            Qsum[h_idx] += 1.0\n"),
      ("            Q_EG = Qsum / Qsum.sum()", "            Q_EG = Qsum / total")),
    S("s-evalgap-kw-swapped", "eval_gap called with keywords that bind lambda_vec as lambda_hat",
      ("lagrangian.eval_gap(Q_EG, lambda_EG, self.nu)", "lagrangian.eval_gap(Q_EG, nu=self.nu, lambda_hat=lambda_vec)")),
    S("s-theta-assign-other", "`theta = eta + ...` (not an in-place update of theta)",
      (THETA, "            theta = eta + eta * (gamma - self.constraints.bound())\n")),
    # ------------------------------------------------------------------ semantic edits: _lagrangian.py
    S("s-lp-positional-swapped", "linprog called positionally with A_ub / A_eq swapped",
      (LP1, "        result = opt.linprog(c, A_eq, b_ub, A_ub, b_eq, method=\"highs-ds\")\n"), file=LG),
    S("s-eval-temp-stale", "violation vector taken before the projection and reused for L: fine; taken from the UNPROJECTED lambda product: changed",
      ("        L = error + np.sum(lambda_vec * (gamma - self.constraints.bound()))\n", "        L = error + np.sum(weighted)\n"),
      ("        if self.opt_lambda:\n            lambda_vec = self.constraints.project_lambda(lambda_vec)\n",
       "        weighted = lambda_vec * (gamma - self.constraints.bound())\n        if self.opt_lambda:\n            lambda_vec = self.constraints.project_lambda(lambda_vec)\n"), file=LG),
    S("s-evalbreak-lt", "eval_gap break `<`", ("            if result.gap() > nu + _PRECISION:", "            if result.gap() < nu + _PRECISION:"), file=LG),
    S("s-evalgap-mass", "point mass 2.0", ("pd.Series({h_hat_idx: 1.0})", "pd.Series({h_hat_idx: 2.0})"), file=LG),
    S("s-evalgap-nomul", "best response at lambda_hat (not mul * lambda_hat)", ("self.best_h(mul * lambda_hat)", "self.best_h(lambda_hat)"), file=LG),
    S("s-eval-project-late", "projection after L (dependent statements reordered)",
      ("        if self.opt_lambda:\n            lambda_vec = self.constraints.project_lambda(lambda_vec)\n\n        L = error + np.sum(lambda_vec * (gamma - self.constraints.bound()))\n",
       "        L = error + np.sum(lambda_vec * (gamma - self.constraints.bound()))\n        if self.opt_lambda:\n            lambda_vec = self.constraints.project_lambda(lambda_vec)\n"), file=LG),
    S("s-eval-mixture", "mixture error without Q.index", ("            error = self.errors[Q.index].dot(Q)", "            error = self.errors.dot(Q)"), file=LG),
    S("s-hvalue-minus", "h_value = h_error - ...", ("        h_value = h_error + h_gamma.dot(lambda_vec)", "        h_value = h_error - h_gamma.dot(lambda_vec)"), file=LG),
    S("s-besth-idxmax", "best stored value by idxmax", ("            best_idx = values.idxmin()", "            best_idx = values.idxmax()"), file=LG),
    S("s-besth-empty-value", "best_value = 0 with no stored hypothesis", ("            best_value = np.inf", "            best_value = 0.0"), file=LG),
    S("s-besth-store-dropped", "errors not stored for a new hypothesis", ("            self.errors.at[h_idx] = h_error\n", ""), file=LG),
    S("s-besth-idx-late", "h_idx computed after the first store (dependent statements reordered)",
      ("            h_idx = len(self.hs)\n            self.hs.at[h_idx] = h\n", "            self.hs.at[len(self.hs)] = h\n            h_idx = len(self.hs)\n"), file=LG),
    S("s-lp-c", "c uses -B", ("        c = np.concatenate((self.errors, [self.B]))", "        c = np.concatenate((-self.errors, [self.B]))"), file=LG),
    S("s-lp-aub", "A_ub last column +1", ("                -np.ones((n_constraints, 1)),", "                np.ones((n_constraints, 1)),"), file=LG),
    S("s-lp-bub", "b_ub = ones", ("        b_ub = np.zeros(n_constraints)", "        b_ub = np.ones(n_constraints)"), file=LG),
    S("s-lp-aeq", "A_eq slack column one", ("np.zeros((1, 1))), axis=1)", "np.ones((1, 1))), axis=1)"), file=LG),
    S("s-lp-beq", "b_eq = zeros", ("        b_eq = np.ones(1)", "        b_eq = np.zeros(1)"), file=LG),
    S("s-lp-method", "primal method changed", (LP1, LP1.replace("highs-ds", "highs-ipm")), file=LG),
    S("s-lp-kw-swapped", "A_ub / A_eq swapped in the primal call", (LP1, LP1.replace("A_ub=A_ub, b_ub=b_ub, A_eq=A_eq", "A_ub=A_eq, b_ub=b_ub, A_eq=A_ub")), file=LG),
    S("s-lp-q", "Q from result.x[1:]", ("        Q = pd.Series(result.x[:-1], self.hs.index)", "        Q = pd.Series(result.x[1:], self.hs.index)"), file=LG),
    S("s-lp-dualc", "dual_c without the sign", ("        dual_c = np.concatenate((b_ub, -b_eq))", "        dual_c = np.concatenate((b_ub, b_eq))"), file=LG),
    S("s-lp-dual-aub", "dual_A_ub blocks swapped", ("np.concatenate((-A_ub.transpose(), A_eq.transpose()), axis=1)", "np.concatenate((A_eq.transpose(), -A_ub.transpose()), axis=1)"), file=LG),
    S("s-lp-dual-bounds", "free / non-negative dual variables swapped",
      ("            (None, None) if i == n_constraints else (0, None) for i in range(n_constraints + 1)", "            (0, None) if i == n_constraints else (None, None) for i in range(n_constraints + 1)"), file=LG),
    S("s-lp-dual-range", "one dual variable fewer", ("for i in range(n_constraints + 1)", "for i in range(n_constraints)"), file=LG),
    S("s-lp-cache", "cache test `!=`", ("        if self.last_linprog_n_hs == n_hs:", "        if self.last_linprog_n_hs != n_hs:"), file=LG),
    S("s-lp-cache-late", "n_hs measured after eval_gap (dependent statements reordered)",
      ("        self.last_linprog_n_hs = n_hs\n        self.last_linprog_result = (\n            Q,\n            lambda_vec,\n            self.eval_gap(Q, lambda_vec, nu),\n        )\n",
       "        self.last_linprog_result = (\n            Q,\n            lambda_vec,\n            self.eval_gap(Q, lambda_vec, nu),\n        )\n        self.last_linprog_n_hs = len(self.hs)\n"), file=LG),
]

QEG = "            Q_EG = Qsum / Qsum.sum()\n"
LEG = "            lambda_EG = self.lambda_vecs_EG_.mean(axis=1)\n"
PJ = "        if self.opt_lambda:\n            lambda_vec = self.constraints.project_lambda(lambda_vec)\n\n"
LEXP2 = "        L = error + np.sum(lambda_vec * (gamma - self.constraints.bound()))\n\n"

CASES += [
    # ---- lifted since L1: Qs holds fresh objects, lambda_EG aggregation, idxmin, projection order ------------ refactors
    R("r-qeg-div-method", "Q_EG = Qsum.div(Qsum.sum())", (QEG, "            Q_EG = Qsum.div(Qsum.sum())\n"),
      expect="refused", why="`.div` is not one of the translated arithmetic shapes of Q_EG (the expression itself is lifted as qNorm)"),
    R("r-qeg-total-temp", "temporary for Qsum.sum()", (QEG, "            total = Qsum.sum()\n            Q_EG = Qsum / total\n")),
    R("r-leg-axis-positional", "lambda_vecs_EG_.mean(1)", (LEG, "            lambda_EG = self.lambda_vecs_EG_.mean(1)\n")),
    R("r-gamma-before-bump", "gamma read before the Qsum bump (independent statements)",
      ("            Qsum[h_idx] += 1.0\n            gamma = lagrangian.gammas[h_idx]\n", "            gamma = lagrangian.gammas[h_idx]\n            Qsum[h_idx] += 1.0\n")),
    # ------------------------------------------------------------------ semantic edits
    S("s-qeg-inplace", "Q_EG normalised in place after the rebinding (the appended object is mutated later)",
      (QEG, QEG + "            Q_EG *= 1.0\n")),
    S("s-qeg-alias", "Q_EG aliases Qsum and is normalised in place (every EG entry of Qs is one object)",
      (QEG, "            Q_EG = Qsum\n")),
    S("s-qeg-item-store", "an entry of Q_EG overwritten after it was built", (QEG, QEG + "            Q_EG[h_idx] = Q_EG[h_idx]\n")),
    S("s-leg-sum", "lambda_EG = column SUM", (LEG, LEG.replace(".mean(axis=1)", ".sum(axis=1)"))),
    S("s-leg-axis0", "lambda_EG = mean over the other axis", (LEG, LEG.replace("axis=1", "axis=0"))),
    S("s-idxmax", "best_h takes the stored classifier with the LARGEST value", ("            best_idx = values.idxmin()\n", "            best_idx = values.idxmax()\n"), file=LG),
    S("s-project-after-L", "_eval projects the multiplier AFTER computing L", (PJ + LEXP2, LEXP2 + PJ), file=LG),
    S("s-lastgap-zero", "last_gap starts at 0", ("        last_gap = np.inf\n", "        last_gap = 0.0\n")),
]
