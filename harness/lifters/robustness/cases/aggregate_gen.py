"""aggregate_gen.py (AggregateGen.lean) -- bodies of DisaggregatedResult.apply_grouping / difference / ratio"""
F = "fairlearn/metrics/_disaggregated_result.py"


def R(id, what, *edits, **kw):
    return dict(id="aggregate_gen-" + id, kind="R", file=F, edits=list(edits), what=what, **kw)


def S(id, what, *edits, **kw):
    return dict(id="aggregate_gen-" + id, kind="S", file=F, edits=list(edits), what=what, **kw)


DIFF_TAIL = ("        if control_feature_names is None:\n            result = (mf - subtrahend).abs().max()\n        else:\n"
             "            result = (mf - subtrahend).abs().groupby(level=control_feature_names).max()\n")
COERCE1 = "        mf = self.by_group.apply(lambda x: x.apply(lambda y: y if np.isscalar(y) else np.nan))\n"

CASES = [
    # ------------------------------------------------------------------ refactors
    R("r-rename-diff-locals", "difference: rename subtrahend->sub, mf->frame, result->res; lambda variables",
      ("            subtrahend = self.apply_grouping(\"min\", control_feature_names, errors=errors)\n        elif method == \"to_overall\":\n            subtrahend = self.overall",
       "            sub = self.apply_grouping(\"min\", control_feature_names, errors=errors)\n        elif method == \"to_overall\":\n            sub = self.overall"),
      (COERCE1, "        frame = self.by_group.apply(lambda col: col.apply(lambda v: v if np.isscalar(v) else np.nan))\n"),
      (DIFF_TAIL + "\n        assert isinstance(result, pd.Series) or isinstance(result, pd.DataFrame)\n\n        return result\n\n    def ratio(",
       "        if control_feature_names is None:\n            res = (frame - sub).abs().max()\n        else:\n"
       "            res = (frame - sub).abs().groupby(level=control_feature_names).max()\n\n"
       "        assert isinstance(res, pd.Series) or isinstance(res, pd.DataFrame)\n\n        return res\n\n    def ratio(")),
    R("r-reorder-diff", "difference: compute mf before the method branch (independent statements)",
      (COERCE1, ""),
      ("        if method == \"between_groups\":\n            subtrahend = self.apply_grouping(",
       COERCE1 + "        if method == \"between_groups\":\n            subtrahend = self.apply_grouping(")),
    R("r-noise-diff", "difference: logger.debug, comment, blank lines, annotations",
      (COERCE1, "        logger.debug(\"difference with method %s\", method)\n\n        # coerce\n"
       "        mf: pd.DataFrame = self.by_group.apply(lambda x: x.apply(lambda y: y if np.isscalar(y) else np.nan))\n\n")),
    R("r-temps-diff", "difference: temporaries for mf - subtrahend and its abs",
      (DIFF_TAIL,
       "        delta = mf - subtrahend\n        magnitude = delta.abs()\n        if control_feature_names is None:\n            result = magnitude.max()\n"
       "        else:\n            grouped = magnitude.groupby(level=control_feature_names)\n            result = grouped.max()\n")),
    R("r-early-return-diff", "difference: inline result into two returns (assert kept in each branch)",
      (DIFF_TAIL + "\n        assert isinstance(result, pd.Series) or isinstance(result, pd.DataFrame)\n\n        return result\n\n    def ratio(",
       "        if control_feature_names is None:\n            return (mf - subtrahend).abs().max()\n"
       "        return (mf - subtrahend).abs().groupby(level=control_feature_names).max()\n\n    def ratio(")),
    R("r-flip-cf-test-diff", "difference: `is None` -> `is not None` with the branches swapped",
      (DIFF_TAIL,
       "        if control_feature_names is not None:\n            result = (mf - subtrahend).abs().groupby(level=control_feature_names).max()\n"
       "        else:\n            result = (mf - subtrahend).abs().max()\n")),
    R("r-agg-spelling-diff", "difference: `.max()` -> `.agg(\"max\", axis=0)` / `.agg(\"max\")` after groupby",
      (DIFF_TAIL,
       "        if control_feature_names is None:\n            result = (mf - subtrahend).abs().agg(\"max\", axis=0)\n        else:\n"
       "            result = (mf - subtrahend).abs().groupby(level=control_feature_names).agg(\"max\")\n")),
    R("r-kwargs-apply-grouping", "difference / ratio: apply_grouping called with keywords resp. all-positional",
      ("            subtrahend = self.apply_grouping(\"min\", control_feature_names, errors=errors)",
       "            subtrahend = self.apply_grouping(\n                grouping_function=\"min\", control_feature_names=control_feature_names, errors=errors\n            )"),
      ("            ) / self.apply_grouping(\"max\", control_feature_names, errors=errors)",
       "            ) / self.apply_grouping(\"max\", control_feature_names, errors)")),
    R("r-method-test-flipped", "difference: `\"between_groups\" == method`, format -> f-string in the raise",
      ("        if method == \"between_groups\":\n            subtrahend", "        if \"between_groups\" == method:\n            subtrahend"),
      ("            raise ValueError(\"Unrecognised method '{0}' in difference() call\".format(method))",
       "            raise ValueError(f\"Unrecognised method '{method}' in difference() call\")")),
    R("r-ag-else", "apply_grouping: `elif errors == \"coerce\"` -> `else` (errors was validated), rename ve, drop axis=0 default",
      ("            elif errors == \"coerce\":\n                # Fill in the possible min/max values, else np.nan\n", "            else:\n"),
      ("                    result = self.by_group.agg(grouping_function, axis=0)\n                except ValueError as ve:\n                    raise ValueError(_MF_CONTAINS_NON_SCALAR_ERROR_MESSAGE) from ve\n\n",
       "                    result = self.by_group.agg(grouping_function)\n                except ValueError as exc:\n                    raise ValueError(_MF_CONTAINS_NON_SCALAR_ERROR_MESSAGE) from exc\n\n")),
    R("r-ag-if-cf", "apply_grouping: `if not cf: A else: B` -> `if cf: B else: A` is done by normalize; here nest errors outside",
      ("                mf = self.by_group.apply(\n                    lambda x: x.apply(lambda y: y if np.isscalar(y) else np.nan)\n                )\n                result = mf.agg(grouping_function, axis=0)\n",
       "                coerced = self.by_group.apply(\n                    lambda x: x.apply(lambda y: y if np.isscalar(y) else np.nan)\n                )\n                result = coerced.agg(func=grouping_function, axis=0)\n")),
    R("r-ag-grouped-temp", "apply_grouping: temporary for the groupby object; alias for the level list",
      ("                result = mf.groupby(level=control_feature_names).agg(grouping_function)\n",
       "                levels = control_feature_names\n                grouped = mf.groupby(level=levels)\n                result = grouped.agg(grouping_function)\n")),
    R("r-ratio-locals", "ratio: drop the dead `ratios = None`, rename ratios/result, lambda variable",
      ("            ratios = None\n\n", ""),
      ("                ratios = self.by_group.unstack(level=control_feature_names) / self.overall.unstack(",
       "                quot = self.by_group.unstack(level=control_feature_names) / self.overall.unstack("),
      ("                ratios = self.by_group / self.overall\n\n            ratios = ratios.apply(lambda x: x.transform(ratio_sub_one))\n"
       "            if not control_feature_names:\n                result = ratios.min()\n            else:\n                result = ratios.min().unstack(0)",
       "                quot = self.by_group / self.overall\n\n            capped = quot.apply(lambda col: col.transform(ratio_sub_one))\n"
       "            if not control_feature_names:\n                result = capped.min()\n            else:\n                result = capped.min().unstack(0)")),
    R("r-ratio-between-temps", "ratio: temporaries for numerator / denominator",
      ("            result = self.apply_grouping(\n                \"min\", control_feature_names, errors=errors\n            ) / self.apply_grouping(\"max\", control_feature_names, errors=errors)",
       "            lo = self.apply_grouping(\"min\", control_feature_names, errors=errors)\n"
       "            hi = self.apply_grouping(\"max\", control_feature_names, errors=errors)\n            result = lo / hi")),
    R("r-ratio-unstack-temp", "ratio: temporaries for the two unstacked frames, `unstack(level=0)`",
      ("                ratios = self.by_group.unstack(level=control_feature_names) / self.overall.unstack(\n                    level=control_feature_names\n                )",
       "                wide = self.by_group.unstack(level=control_feature_names)\n                wide_overall = self.overall.unstack(level=control_feature_names)\n"
       "                ratios = wide / wide_overall"),
      ("                result = ratios.min().unstack(0)", "                result = ratios.min().unstack(level=0)")),
    # ------------------------------------------------------------------ semantic edits
    S("s-diff-no-abs", "difference: .abs() dropped (no control features)",
      ("            result = (mf - subtrahend).abs().max()", "            result = (mf - subtrahend).max()")),
    S("s-diff-sub-max", "difference: subtrahend = apply_grouping(\"max\")",
      ("subtrahend = self.apply_grouping(\"min\",", "subtrahend = self.apply_grouping(\"max\",")),
    S("s-diff-agg-min", "difference: grouped .max() -> .min()",
      (".abs().groupby(level=control_feature_names).max()", ".abs().groupby(level=control_feature_names).min()")),
    S("s-diff-swapped", "difference: subtrahend - mf (with control features only; hidden by abs in reality, but the term changes)",
      ("            result = (mf - subtrahend).abs().groupby", "            result = (subtrahend - mf).abs().groupby")),
    S("s-diff-no-groupby", "difference: groupby dropped in the control-feature branch",
      (".abs().groupby(level=control_feature_names).max()", ".abs().max()")),
    S("s-diff-no-coerce", "difference: mf = self.by_group (coercion dropped)",
      (COERCE1, "        mf = self.by_group\n")),
    S("s-diff-errors-const", "difference: errors=\"raise\" forwarded to apply_grouping",
      ("subtrahend = self.apply_grouping(\"min\", control_feature_names, errors=errors)",
       "subtrahend = self.apply_grouping(\"min\", control_feature_names, errors=\"raise\")")),
    S("s-diff-cf-dropped", "difference: apply_grouping called with control_feature_names=None",
      ("subtrahend = self.apply_grouping(\"min\", control_feature_names, errors=errors)",
       "subtrahend = self.apply_grouping(\"min\", None, errors=errors)")),
    S("s-diff-rebind-param", "difference: control_feature_names rebound to None at the top",
      ("        if method == \"between_groups\":\n            subtrahend = self.apply_grouping(",
       "        control_feature_names = None\n        if method == \"between_groups\":\n            subtrahend = self.apply_grouping(")),
    S("s-diff-rebind-method", "difference: method rebound before the branch",
      ("        if method == \"between_groups\":\n            subtrahend = self.apply_grouping(",
       "        method = \"to_overall\"\n        if method == \"between_groups\":\n            subtrahend = self.apply_grouping(")),
    S("s-diff-method-strings", "difference: the two method strings swapped",
      ("        if method == \"between_groups\":\n            subtrahend = self.apply_grouping(\"min\", control_feature_names, errors=errors)\n        elif method == \"to_overall\":",
       "        if method == \"to_overall\":\n            subtrahend = self.apply_grouping(\"min\", control_feature_names, errors=errors)\n        elif method == \"between_groups\":")),
    S("s-ratio-minmax", "ratio(between_groups): max / min",
      ("                \"min\", control_feature_names, errors=errors\n            ) / self.apply_grouping(\"max\",",
       "                \"max\", control_feature_names, errors=errors\n            ) / self.apply_grouping(\"min\",")),
    S("s-ratio-inverted", "ratio(to_overall): overall / by_group",
      ("                ratios = self.by_group / self.overall", "                ratios = self.overall / self.by_group")),
    S("s-ratio-no-transform", "ratio(to_overall): ratio_sub_one not applied",
      ("            ratios = ratios.apply(lambda x: x.transform(ratio_sub_one))\n", "")),
    S("s-ratio-agg-max", "ratio(to_overall): ratios.max()",
      ("                result = ratios.min()\n", "                result = ratios.max()\n")),
    S("s-ratio-transform-early", "ratio(to_overall): the transform statement moved before ratios is computed (dependent statements)",
      ("            ratios = None\n\n", "            ratios = None\n            ratios = ratios.apply(lambda x: x.transform(ratio_sub_one))\n\n"),
      ("                ratios = self.by_group / self.overall\n\n            ratios = ratios.apply(lambda x: x.transform(ratio_sub_one))\n",
       "                ratios = self.by_group / self.overall\n\n")),
    S("s-ratio-mult", "ratio(between_groups): product instead of quotient",
      ("            ) / self.apply_grouping(\"max\", control_feature_names, errors=errors)",
       "            ) * self.apply_grouping(\"max\", control_feature_names, errors=errors)")),
    S("s-ag-no-groupby", "apply_grouping(coerce, control features): groupby dropped",
      ("                result = mf.groupby(level=control_feature_names).agg(grouping_function)", "                result = mf.agg(grouping_function, axis=0)")),
    S("s-ag-no-coerce", "apply_grouping(coerce): aggregates self.by_group instead of the coerced frame",
      ("                result = mf.agg(grouping_function, axis=0)", "                result = self.by_group.agg(grouping_function, axis=0)")),
    S("s-ag-axis", "apply_grouping(raise): axis=1",
      ("                    result = self.by_group.agg(grouping_function, axis=0)", "                    result = self.by_group.agg(grouping_function, axis=1)")),
    S("s-ag-const-fn", "apply_grouping(raise, control features): always \"min\"",
      ("                    result = self.by_group.groupby(level=control_feature_names).agg(\n                        grouping_function\n                    )",
       "                    result = self.by_group.groupby(level=control_feature_names).agg(\"min\")")),
    S("s-ag-errors-swapped", "apply_grouping: the raise / coerce branches exchanged (no control features)",
      ("        if not control_feature_names:\n            if errors == \"raise\":", "        if not control_feature_names:\n            if errors == \"coerce\":"),
      ("            elif errors == \"coerce\":\n                # Fill in the possible min/max values, else np.nan", "            elif errors == \"raise\":")),
    S("s-ag-swallow", "apply_grouping: the ValueError handler returns None instead of re-raising",
      ("                except ValueError as ve:\n                    raise ValueError(_MF_CONTAINS_NON_SCALAR_ERROR_MESSAGE) from ve\n\n            elif",
       "                except ValueError:\n                    result = None\n\n            elif")),
    S("s-coerce-lambda", "coercion lambda keeps the non-scalars",
      (COERCE1, "        mf = self.by_group.apply(lambda x: x.apply(lambda y: np.nan if np.isscalar(y) else y))\n")),
]
