"""merge.py (MergeConsts.lean) -- fairlearn/utils/_input_validation.py: _MERGE_COLUMN_SEPARATOR, _merge_columns._join_names"""
F = "fairlearn/utils/_input_validation.py"


def R(id, what, *edits, **kw):
    return dict(id="merge-" + id, kind="R", file=F, edits=list(edits), what=what, **kw)


def S(id, what, *edits, **kw):
    return dict(id="merge-" + id, kind="S", file=F, edits=list(edits), what=what, **kw)


JOIN = ("        return _MERGE_COLUMN_SEPARATOR.join(\n            [\n                name\n                # escape backslash and separator\n"
        "                .replace(\"\\\\\", \"\\\\\\\\\").replace(\n                    _MERGE_COLUMN_SEPARATOR, f\"\\\\{_MERGE_COLUMN_SEPARATOR}\"\n                )\n"
        "                for name in names\n            ]\n        )\n")
OUTER = "    return np.array([_join_names(row) for row in feature_columns.astype(str)])\n"

CASES = [
    # ------------------------------------------------------------------ refactors
    R("r-rename", "rename names / name / row, one-line comprehension, annotation removed",
      ("    def _join_names(names: Sequence[str]) -> str:\n" + JOIN,
       "    def _join_names(parts):\n        return _MERGE_COLUMN_SEPARATOR.join(\n"
       "            [p.replace(\"\\\\\", \"\\\\\\\\\").replace(_MERGE_COLUMN_SEPARATOR, f\"\\\\{_MERGE_COLUMN_SEPARATOR}\") for p in parts]\n        )\n"),
      (OUTER, "    return np.array([_join_names(r) for r in feature_columns.astype(str)])\n")),
    R("r-generator-join", "join over a generator expression instead of a list",
      (JOIN, "        return _MERGE_COLUMN_SEPARATOR.join(\n            name.replace(\"\\\\\", \"\\\\\\\\\").replace(_MERGE_COLUMN_SEPARATOR, f\"\\\\{_MERGE_COLUMN_SEPARATOR}\")\n"
             "            for name in names\n        )\n")),
    R("r-format-concat", "escaped separator written with .format / by concatenation of constants",
      (JOIN, "        return _MERGE_COLUMN_SEPARATOR.join(\n            [\n                name.replace(\"\\\\\", \"\\\\\" + \"\\\\\").replace(\n"
             "                    _MERGE_COLUMN_SEPARATOR, \"\\\\{}\".format(_MERGE_COLUMN_SEPARATOR)\n                )\n                for name in names\n            ]\n        )\n")),
    R("r-literal-separator", "the separator written as a literal inside _join_names",
      (JOIN, "        return \",\".join([name.replace(\"\\\\\", \"\\\\\\\\\").replace(\",\", \"\\\\,\") for name in names])\n")),
    R("r-temporaries", "temporaries for the escaped names, the stringified table and the result; logger.debug; docstring",
      (JOIN, "        \"\"\"Join the escaped names.\"\"\"\n        escaped = [\n            name.replace(\"\\\\\", \"\\\\\\\\\").replace(_MERGE_COLUMN_SEPARATOR, f\"\\\\{_MERGE_COLUMN_SEPARATOR}\")\n"
             "            for name in names\n        ]\n        return _MERGE_COLUMN_SEPARATOR.join(escaped)\n"),
      (OUTER, "    as_text = feature_columns.astype(str)\n    logger.debug(\"merging %d rows\", len(as_text))\n    merged = np.array([_join_names(row) for row in as_text])\n    return merged\n")),
    R("r-rename-parameter", "rename the parameter of _merge_columns (callers pass it positionally)",
      ("def _merge_columns(feature_columns: np.ndarray) -> np.ndarray:", "def _merge_columns(columns: np.ndarray) -> np.ndarray:"),
      ("    if not isinstance(feature_columns, np.ndarray):\n        raise ValueError(\n            f\"Received argument of type {type(feature_columns).__name__} instead of expected numpy.ndarray\"",
       "    if not isinstance(columns, np.ndarray):\n        raise ValueError(\n            f\"Received argument of type {type(columns).__name__} instead of expected numpy.ndarray\""),
      (OUTER, "    return np.array([_join_names(row) for row in columns.astype(str)])\n")),
    R("r-escape-helper", "the two replacements moved into a helper function",
      ("    def _join_names(names: Sequence[str]) -> str:\n" + JOIN,
       "    def _escape(name):\n        return name.replace(\"\\\\\", \"\\\\\\\\\").replace(_MERGE_COLUMN_SEPARATOR, f\"\\\\{_MERGE_COLUMN_SEPARATOR}\")\n\n"
       "    def _join_names(names: Sequence[str]) -> str:\n        return _MERGE_COLUMN_SEPARATOR.join([_escape(name) for name in names])\n"),
      expect="refused", why="the replacement chain is only read off the comprehension itself; a helper function is not followed"),
    # ------------------------------------------------------------------ semantic edits
    S("s-order", "separator escaped before the backslash",
      (JOIN, "        return _MERGE_COLUMN_SEPARATOR.join(\n            [\n                name.replace(_MERGE_COLUMN_SEPARATOR, f\"\\\\{_MERGE_COLUMN_SEPARATOR}\").replace(\"\\\\\", \"\\\\\\\\\")\n"
             "                for name in names\n            ]\n        )\n")),
    S("s-backslash-not-escaped", "backslash no longer escaped", ("                .replace(\"\\\\\", \"\\\\\\\\\").replace(\n", "                .replace(\n")),
    S("s-separator", "another separator", ("_MERGE_COLUMN_SEPARATOR = \",\"", "_MERGE_COLUMN_SEPARATOR = \";\"")),
    S("s-escape-char", "separator escaped with another character", ("f\"\\\\{_MERGE_COLUMN_SEPARATOR}\"", "f\"/{_MERGE_COLUMN_SEPARATOR}\"")),
    S("s-join-literal", "names joined with another string", ("        return _MERGE_COLUMN_SEPARATOR.join(\n", "        return \"|\".join(\n")),
    S("s-replace-args", "replace(new, old)", ("                .replace(\"\\\\\", \"\\\\\\\\\").replace(\n", "                .replace(\"\\\\\\\\\", \"\\\\\").replace(\n")),
    S("s-no-astype", "rows no longer stringified", (OUTER, "    return np.array([_join_names(row) for row in feature_columns])\n")),
    S("s-filter", "empty names dropped", ("                for name in names\n            ]\n", "                for name in names if name\n            ]\n")),
    S("s-temp-other-table", "temporary bound to another table",
      (OUTER, "    as_text = feature_columns.T.astype(str)\n    return np.array([_join_names(row) for row in as_text])\n")),
]
