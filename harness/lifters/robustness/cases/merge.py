"""merge.py (MergeConsts.lean) -- fairlearn/utils/_input_validation.py: _MERGE_COLUMN_SEPARATOR, _merge_columns._join_names"""
F = "fairlearn/utils/_input_validation.py"


def R(id, what, *edits, **kw):
    return dict(id="merge-" + id, kind="R", file=F, edits=list(edits), what=what, **kw)


def S(id, what, *edits, **kw):
    return dict(id="merge-" + id, kind="S", file=F, edits=list(edits), what=what, **kw)


JOIN = ("        return _MERGE_COLUMN_SEPARATOR.join(\n            [\n                name\n                # escape backslash and separator\n"
        "                .replace(\"\\\\\", \"\\\\\\\\\").replace(\n                    _MERGE_COLUMN_SEPARATOR, f\"\\\\{_MERGE_COLUMN_SEPARATOR}\"\n                )\n"
        "                for name in names\n            ]\n        )\n")
OUTER = "    return np.array([_join_names(row) for row in feature_columns.astype(str)])\n"
GUARD = ("    if not isinstance(feature_columns, np.ndarray):\n        raise ValueError(\n            f\"Received argument of type {type(feature_columns).__name__} instead of expected numpy.ndarray\"\n        )\n")

CASES = [
    # ------------------------------------------------------------------ refactors
    R("r-rename", "rename names / name / row, one-line comprehension, annotation removed",
      ("    def _join_names(names: Sequence[str]) -> str:\n" + JOIN,
       "    def _join_names(parts):\n        return _MERGE_COLUMN_SEPARATOR.join(\n"
       "            [p.replace(\"\\\\\", \"\\\\\\\\\").replace(_MERGE_COLUMN_SEPARATOR, f\"\\\\{_MERGE_COLUMN_SEPARATOR}\") for p in parts]\n        )\n"),
      (OUTER, "    return np.array([_join_names(r) for r in feature_columns.astype(str)])\n")),
    R("r-generator-join", "join over a generator expression instead of a list",
      (JOIN, "        return _MERGE_COLUMN_SEPARATOR.join(\n            name.replace(\"\\\\\", \"\\\\\\\\\").replace(_MERGE_COLUMN_SEPARATOR, f\"\\\\{_MERGE_COLUMN_SEPARATOR}\")\n"
             "            for name in names\n        )\n")),
    R("r-format-concat", "escaped separator written with .format / by concatenation of constants",
      (JOIN, "        return _MERGE_COLUMN_SEPARATOR.join(\n            [\n                name.replace(\"\\\\\", \"\\\\\" + \"\\\\\").replace(\n"
             "                    _MERGE_COLUMN_SEPARATOR, \"\\\\{}\".format(_MERGE_COLUMN_SEPARATOR)\n                )\n                for name in names\n            ]\n        )\n")),
    R("r-literal-separator", "the separator written as a literal inside _join_names",
      (JOIN, "        return \",\".join([name.replace(\"\\\\\", \"\\\\\\\\\").replace(\",\", \"\\\\,\") for name in names])\n")),
    R("r-temporaries", "temporaries for the escaped names, the stringified table and the result; logger.debug; docstring",
      (JOIN, "        \"\"\"Join the escaped names.\"\"\"\n        escaped = [\n            name.replace(\"\\\\\", \"\\\\\\\\\").replace(_MERGE_COLUMN_SEPARATOR, f\"\\\\{_MERGE_COLUMN_SEPARATOR}\")\n"
             "            for name in names\n        ]\n        return _MERGE_COLUMN_SEPARATOR.join(escaped)\n"),
      (OUTER, "    as_text = feature_columns.astype(str)\n    logger.debug(\"merging %d rows\", len(as_text))\n    merged = np.array([_join_names(row) for row in as_text])\n    return merged\n")),
    R("r-rename-parameter", "rename the parameter of _merge_columns (callers pass it positionally)",
      ("def _merge_columns(feature_columns: np.ndarray) -> np.ndarray:", "def _merge_columns(columns: np.ndarray) -> np.ndarray:"),
      ("    if not isinstance(feature_columns, np.ndarray):\n        raise ValueError(\n            f\"Received argument of type {type(feature_columns).__name__} instead of expected numpy.ndarray\"",
       "    if not isinstance(columns, np.ndarray):\n        raise ValueError(\n            f\"Received argument of type {type(columns).__name__} instead of expected numpy.ndarray\""),
      (OUTER, "    return np.array([_join_names(row) for row in columns.astype(str)])\n")),
    R("r-escape-helper", "the two replacements moved into a helper function",
      ("    def _join_names(names: Sequence[str]) -> str:\n" + JOIN,
       "    def _escape(name):\n        return name.replace(\"\\\\\", \"\\\\\\\\\").replace(_MERGE_COLUMN_SEPARATOR, f\"\\\\{_MERGE_COLUMN_SEPARATOR}\")\n\n"
       "    def _join_names(names: Sequence[str]) -> str:\n        return _MERGE_COLUMN_SEPARATOR.join([_escape(name) for name in names])\n"),
      expect="refused", why="the replacement chain is only read off the comprehension itself; a helper function is not followed"),
    # -- whole-body census (L2): harmless edits of the statements around _join_names
    R("r-guard-after-def", "the isinstance guard moved after the inner function definition",
      (GUARD + "\n    def _join_names(names: Sequence[str]) -> str:\n" + JOIN,
       "    def _join_names(names: Sequence[str]) -> str:\n" + JOIN + "\n" + GUARD)),
    R("r-guard-tuple-typeerror", "the guard tests against a tuple of types and raises TypeError with another message",
      (GUARD, "    if not isinstance(feature_columns, (np.ndarray,)):\n        raise TypeError(\"numpy.ndarray expected\")\n")),
    R("r-guard-dropped", "the isinstance guard dropped (callers always pass the result of check_array)",
      (GUARD, "")),
    R("r-second-guard", "a second isinstance guard (np.generic excluded) with its own message; comment and docstring in _join_names",
      (GUARD, GUARD + "    if not isinstance(feature_columns, np.ndarray):  # paranoia\n        raise ValueError(\"ndarray expected\")\n"),
      ("    def _join_names(names: Sequence[str]) -> str:\n", "    def _join_names(names: Sequence[str]) -> str:\n        \"\"\"Escape, then join.\"\"\"\n")),
    # ------------------------------------------------------------------ semantic edits
    S("s-order", "separator escaped before the backslash",
      (JOIN, "        return _MERGE_COLUMN_SEPARATOR.join(\n            [\n                name.replace(_MERGE_COLUMN_SEPARATOR, f\"\\\\{_MERGE_COLUMN_SEPARATOR}\").replace(\"\\\\\", \"\\\\\\\\\")\n"
             "                for name in names\n            ]\n        )\n")),
    S("s-backslash-not-escaped", "backslash no longer escaped", ("                .replace(\"\\\\\", \"\\\\\\\\\").replace(\n", "                .replace(\n")),
    S("s-separator", "another separator", ("_MERGE_COLUMN_SEPARATOR = \",\"", "_MERGE_COLUMN_SEPARATOR = \";\"")),
    S("s-escape-char", "separator escaped with another character", ("f\"\\\\{_MERGE_COLUMN_SEPARATOR}\"", "f\"/{_MERGE_COLUMN_SEPARATOR}\"")),
    S("s-join-literal", "names joined with another string", ("        return _MERGE_COLUMN_SEPARATOR.join(\n", "        return \"|\".join(\n")),
    S("s-replace-args", "replace(new, old)", ("                .replace(\"\\\\\", \"\\\\\\\\\").replace(\n", "                .replace(\"\\\\\\\\\", \"\\\\\").replace(\n")),
    S("s-no-astype", "rows no longer stringified", (OUTER, "    return np.array([_join_names(row) for row in feature_columns])\n")),
    S("s-filter", "empty names dropped", ("                for name in names\n            ]\n", "                for name in names if name\n            ]\n")),
    S("s-temp-other-table", "temporary bound to another table",
      (OUTER, "    as_text = feature_columns.T.astype(str)\n    return np.array([_join_names(row) for row in as_text])\n")),
    # -- whole-body census (L2): statements the old top-level-only inspection did not see
    S("s-early-return-unescaped", "seeded C13a: when no cell contains the separator the names are joined WITHOUT escaping (early return in a branch)",
      (OUTER, "    str_columns = feature_columns.astype(str)\n    if not (np.char.find(str_columns, _MERGE_COLUMN_SEPARATOR) >= 0).any():\n"
              "        return np.array([_MERGE_COLUMN_SEPARATOR.join(row) for row in str_columns])\n\n"
              "    return np.array([_join_names(row) for row in str_columns])\n"), expect="refused"),
    S("s-early-return-in-guard", "the type guard returns its argument instead of raising",
      ("        raise ValueError(\n            f\"Received argument of type {type(feature_columns).__name__} instead of expected numpy.ndarray\"\n        )\n",
       "        return feature_columns\n"), expect="refused"),
    S("s-early-return-one-column", "a one-column table is returned unescaped before the join",
      (OUTER, "    if feature_columns.shape[1] == 1:\n        return feature_columns[:, 0].astype(str)\n" + OUTER), expect="refused"),
    S("s-param-rebound", "the parameter is cut to its first column before the join",
      (OUTER, "    feature_columns = feature_columns[:, :1]\n" + OUTER), expect="refused"),
    S("s-try-fallback", "the join wrapped in try/except with an unescaped fallback",
      (OUTER, "    try:\n    " + OUTER + "    except Exception:\n        return np.array([\",\".join(map(str, row)) for row in feature_columns])\n"),
      expect="refused"),
    S("s-loop-dedup", "a loop that post-processes the merged names (strips the escapes again) before a final return of another list",
      (OUTER, "    merged = [_join_names(row) for row in feature_columns.astype(str)]\n    for i in range(len(merged)):\n"
              "        merged[i] = merged[i].replace(\"\\\\\", \"\")\n    return np.array(merged)\n"), expect="refused"),
    S("s-separator-rebound", "the separator constant is re-assigned further down in the module",
      ("def _merge_columns(feature_columns: np.ndarray) -> np.ndarray:", "_MERGE_COLUMN_SEPARATOR = \";\"\n\n\ndef _merge_columns(feature_columns: np.ndarray) -> np.ndarray:"),
      expect="refused"),
    S("s-join-names-rebound", "_join_names is replaced by a plain join after its definition",
      (OUTER, "    _join_names = _MERGE_COLUMN_SEPARATOR.join\n" + OUTER), expect="refused"),
    S("s-guard-side-effect", "a guard whose test is not an isinstance test of the parameter (rejects wide tables)",
      (OUTER, "    if feature_columns.shape[1] > 3:\n        raise ValueError(\"too many columns\")\n" + OUTER), expect="refused"),
]
