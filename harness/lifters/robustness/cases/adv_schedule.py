"""adv_schedule.py (AdvScheduleSrc.lean) -- _AdversarialFairness.fit / partial_fit / predict, FloatTransformer.inverse_transform"""
F = "fairlearn/adversarial/_adversarial_mitigation.py"
FP = "fairlearn/adversarial/_preprocessor.py"


def R(id, what, *edits, **kw):
    return dict(id="adv_schedule-" + id, kind="R", file=kw.pop("file", F), edits=list(edits), what=what, **kw)


def S(id, what, *edits, **kw):
    return dict(id="adv_schedule-" + id, kind="S", file=kw.pop("file", F), edits=list(edits), what=what, **kw)


BS_BLOCK = ("        if self.batch_size == -1:\n            batch_size = X.shape[0]\n        else:\n            batch_size = self.batch_size\n"
            "        batches = ceil(X.shape[0] / batch_size)\n")
SLICE = ("                batch_slice = slice(\n                    batch * batch_size,\n                    min((batch + 1) * batch_size, X.shape[0]),\n                )\n"
         "                (LP, LA) = self.backendEngine_.train_step(\n                    X[batch_slice], y[batch_slice], A[batch_slice]\n                )\n")
CB = ("                    stop = False\n                    for cb in self.callbacks_:\n                        result = cb(\n"
      "                            self, step=self.n_iter_, X=X, y=y, z=sensitive_features, pos_label=1\n                        )\n"
      "                        if result and not isinstance(result, bool):\n                            raise RuntimeError(_CALLBACK_RETURNS_ERROR)\n"
      "                        stop = stop or result\n\n                    if stop:\n                        return self\n")
MAXTEST = "                if self.max_iter != -1 and self.n_iter_ >= self.max_iter:\n                    return self\n"
PREDICT = ("        y_pred = self._raw_predict(X)\n        y_pred = self.predictor_function_(y_pred)\n"
           "        y_pred = self._y_transform.inverse_transform(y_pred)\n        return y_pred\n")
LOSS = ("                    shape = pred.shape\n                    c = argmax(pred, axis=1)\n                    b = zeros(shape, dtype=float)\n"
        "                    a = arange(shape[0])\n                    b[a, c] = 1\n                    return b\n")

CASES = [
    # ------------------------------------------------------------------ refactors
    R("r-rename-size-slice", "fit: rename batch_size -> bsz, batch_slice -> sl, LP/LA",
      (BS_BLOCK, "        if self.batch_size == -1:\n            bsz = X.shape[0]\n        else:\n            bsz = self.batch_size\n        batches = ceil(X.shape[0] / bsz)\n"),
      (SLICE + "                predictor_losses.append(LP)\n                adversary_losses.append(LA)\n",
       "                sl = slice(\n                    batch * bsz,\n                    min((batch + 1) * bsz, X.shape[0]),\n                )\n"
       "                (loss_p, loss_a) = self.backendEngine_.train_step(\n                    X[sl], y[sl], A[sl]\n                )\n"
       "                predictor_losses.append(loss_p)\n                adversary_losses.append(loss_a)\n")),
    R("r-rename-epochs", "fit: rename epochs -> n_epochs",
      ("            epochs = ceil(self.max_iter / batches)\n        else:\n            epochs = self.epochs\n",
       "            n_epochs = ceil(self.max_iter / batches)\n        else:\n            n_epochs = self.epochs\n"),
      ("        for epoch in range(epochs):", "        for epoch in range(n_epochs):"),
      ("progress = (epoch / epochs) + (batch / (batches * epochs))", "progress = (epoch / n_epochs) + (batch / (batches * n_epochs))"),
      ("                                    epochs,\n", "                                    n_epochs,\n")),
    R("r-rename-callback-locals", "fit: rename stop -> halt, result -> res, cb -> callback",
      (CB, "                    halt = False\n                    for callback in self.callbacks_:\n                        res = callback(\n"
       "                            self, step=self.n_iter_, X=X, y=y, z=sensitive_features, pos_label=1\n                        )\n"
       "                        if res and not isinstance(res, bool):\n                            raise RuntimeError(_CALLBACK_RETURNS_ERROR)\n"
       "                        halt = halt or res\n\n                    if halt:\n                        return self\n")),
    R("r-n-alias", "fit: temporary n_samples = X.shape[0] used for the batch size, the batch count and the slice",
      (BS_BLOCK, "        n_samples = X.shape[0]\n        if self.batch_size == -1:\n            batch_size = n_samples\n        else:\n            batch_size = self.batch_size\n"
       "        batches = ceil(n_samples / batch_size)\n"),
      ("                    min((batch + 1) * batch_size, X.shape[0]),", "                    min((batch + 1) * batch_size, n_samples),")),
    R("r-len-x", "fit: len(X) instead of X.shape[0] in the batch count",
      ("        batches = ceil(X.shape[0] / batch_size)\n", "        batches = ceil(len(X) / batch_size)\n")),
    R("r-ifexp-batch-size", "fit: batch size and epochs as conditional expressions",
      ("        if self.batch_size == -1:\n            batch_size = X.shape[0]\n        else:\n            batch_size = self.batch_size\n",
       "        batch_size = X.shape[0] if self.batch_size == -1 else self.batch_size\n"),
      ("        if self.epochs == -1:\n            epochs = ceil(self.max_iter / batches)\n        else:\n            epochs = self.epochs\n",
       "        epochs = ceil(self.max_iter / batches) if self.epochs == -1 else self.epochs\n")),
    R("r-reorder-init", "fit: self.n_iter_ = 0 moved before the batch-size block; loss lists before the timers",
      ("        self.n_iter_ = 0\n        for epoch in range(epochs):", "        for epoch in range(epochs):"),
      ("        if self.batch_size == -1:\n            batch_size = X.shape[0]", "        self.n_iter_ = 0\n        if self.batch_size == -1:\n            batch_size = X.shape[0]"),
      ("        start_time = time()\n        last_update_time = start_time\n\n        predictor_losses = [None]\n        adversary_losses = []\n",
       "        predictor_losses = [None]\n        adversary_losses = []\n        start_time = time()\n        last_update_time = start_time\n")),
    R("r-noise", "fit: logger.debug, comments, annotations, docstring-like string in the batch loop",
      ("                self.n_iter_ += 1\n", "                logger.debug(\"step %d done\", self.n_iter_)\n                # count the step\n\n                self.n_iter_ += 1\n"),
      ("        batches = ceil(X.shape[0] / batch_size)\n", "        batches: int = ceil(X.shape[0] / batch_size)\n")),
    R("r-math-ceil", "fit: math.ceil instead of the imported ceil",
      ("from math import ceil\n", "import math\nfrom math import ceil\n"),
      ("        batches = ceil(X.shape[0] / batch_size)\n", "        batches = math.ceil(X.shape[0] / batch_size)\n")),
    R("r-inc-spelled-out", "fit: self.n_iter_ = self.n_iter_ + 1",
      ("                self.n_iter_ += 1\n", "                self.n_iter_ = self.n_iter_ + 1\n")),
    R("r-inc-commuted", "fit: self.n_iter_ = 1 + self.n_iter_; slice lower bound batch_size * batch",
      ("                self.n_iter_ += 1\n", "                self.n_iter_ = 1 + self.n_iter_\n"),
      ("                    batch * batch_size,\n", "                    batch_size * batch,\n")),
    R("r-slice-temps", "fit: temporaries for the two slice bounds",
      ("                batch_slice = slice(\n                    batch * batch_size,\n                    min((batch + 1) * batch_size, X.shape[0]),\n                )\n",
       "                lo = batch * batch_size\n                hi = min((batch + 1) * batch_size, X.shape[0])\n                batch_slice = slice(lo, hi)\n")),
    R("r-train-step-temp", "fit: train_step result kept in one name and indexed",
      ("                (LP, LA) = self.backendEngine_.train_step(\n                    X[batch_slice], y[batch_slice], A[batch_slice]\n                )\n"
       "                predictor_losses.append(LP)\n                adversary_losses.append(LA)\n",
       "                losses = self.backendEngine_.train_step(\n                    X[batch_slice], y[batch_slice], A[batch_slice]\n                )\n"
       "                predictor_losses.append(losses[0])\n                adversary_losses.append(losses[1])\n")),
    R("r-train-args-temps", "fit: temporaries for the three batch cuts",
      ("                (LP, LA) = self.backendEngine_.train_step(\n                    X[batch_slice], y[batch_slice], A[batch_slice]\n                )\n",
       "                X_b = X[batch_slice]\n                y_b = y[batch_slice]\n                A_b = A[batch_slice]\n"
       "                (LP, LA) = self.backendEngine_.train_step(X_b, y_b, A_b)\n")),
    R("r-max-test-flipped", "fit: `self.max_iter <= self.n_iter_` for `self.n_iter_ >= self.max_iter`",
      ("                if self.max_iter != -1 and self.n_iter_ >= self.max_iter:", "                if self.max_iter != -1 and self.max_iter <= self.n_iter_:")),
    R("r-acc-swapped", "fit: `stop = result or stop` (same truth value)",
      ("                        stop = stop or result\n", "                        stop = result or stop\n")),
    R("r-predict-inline", "predict: the three stages nested in one return",
      (PREDICT, "        return self._y_transform.inverse_transform(self.predictor_function_(self._raw_predict(X)))\n")),
    R("r-predict-names", "predict: one name per stage",
      (PREDICT, "        raw = self._raw_predict(X)\n        decided = self.predictor_function_(raw)\n"
       "        labels = self._y_transform.inverse_transform(decided)\n        return labels\n")),
    R("r-binary-flipped", "_binary_predictor_function: `self.threshold_value <= pred`, temporary, renamed argument",
      ("    def _binary_predictor_function(self, pred):\n        return (pred >= self.threshold_value).astype(float)\n",
       "    def _binary_predictor_function(self, scores):\n        mask = self.threshold_value <= scores\n        return mask.astype(float)\n")),
    R("r-loss-rename", "multiclass rule: rename shape/c/b/a, reorder the independent definitions",
      (LOSS, "                    dims = pred.shape\n                    onehot = zeros(dims, dtype=float)\n                    rows = arange(dims[0])\n"
       "                    best = argmax(pred, axis=1)\n                    onehot[rows, best] = 1\n                    return onehot\n")),
    R("r-partial-fit-rename", "partial_fit: rename first_call -> first; fit: reinitialize -> reinit",
      ("        first_call = not hasattr(self, \"classes_\")\n\n        if first_call and classes is not None:\n            self.classes_ = classes\n        if not first_call:",
       "        first = not hasattr(self, \"classes_\")\n\n        if first and classes is not None:\n            self.classes_ = classes\n        if not first:"),
      ("        X, y, A = self._validate_input(X, y, sensitive_features, first_call)", "        X, y, A = self._validate_input(X, y, sensitive_features, first)"),
      ("        reinitialize = not hasattr(self, \"classes_\") or not self.warm_start\n\n        X, y, A = self._validate_input(X, y, sensitive_features, reinitialize)",
       "        reinit = not hasattr(self, \"classes_\") or not self.warm_start\n\n        X, y, A = self._validate_input(X, y, sensitive_features, reinit)")),
    R("r-setup-parens", "_validate_input: parentheses dropped in the setup test",
      ("        if (not is_fitted) or (reinitialize):\n", "        if not is_fitted or reinitialize:\n")),
    R("r-inverse-rename", "FloatTransformer.inverse_transform: rename inverse -> out",
      ("                inverse = y\n            else:\n                inverse = self.transform_.inverse_transform(y)\n\n        return inverse.reshape(-1) if self.input_dim_ == 1 else inverse",
       "                out = y\n            else:\n                out = self.transform_.inverse_transform(y)\n\n        return out.reshape(-1) if self.input_dim_ == 1 else out"),
      file=FP),
    # ------------------------------------------------------------------ semantic edits
    S("s-reject-or", "fit: rejection guard `or`", ("        if self.epochs == -1 and self.max_iter == -1:", "        if self.epochs == -1 or self.max_iter == -1:")),
    S("s-bs-sentinel", "fit: batch size sentinel 0", ("        if self.batch_size == -1:\n", "        if self.batch_size == 0:\n")),
    S("s-batches-floor", "fit: floor division for the number of batches",
      ("        batches = ceil(X.shape[0] / batch_size)\n", "        batches = X.shape[0] // batch_size\n")),
    S("s-epochs-floor", "fit: epochs = max_iter // batches", ("            epochs = ceil(self.max_iter / batches)\n", "            epochs = self.max_iter // batches\n")),
    S("s-niter-init", "fit: self.n_iter_ = 1", ("        self.n_iter_ = 0\n", "        self.n_iter_ = 1\n")),
    S("s-slice-lo", "fit: slice starts at (batch + 1) * batch_size", ("                    batch * batch_size,\n", "                    (batch + 1) * batch_size,\n")),
    S("s-slice-hi-nomin", "fit: slice end without the min", ("                    min((batch + 1) * batch_size, X.shape[0]),\n", "                    (batch + 1) * batch_size,\n")),
    S("s-slice-y", "fit: y is not cut", ("X[batch_slice], y[batch_slice], A[batch_slice]", "X[batch_slice], y, A[batch_slice]")),
    S("s-inc-two", "fit: self.n_iter_ += 2", ("                self.n_iter_ += 1\n", "                self.n_iter_ += 2\n")),
    S("s-max-gt", "fit: max_iter test `>`", ("self.n_iter_ >= self.max_iter:", "self.n_iter_ > self.max_iter:")),
    S("s-max-break", "fit: max_iter test breaks instead of returning", (MAXTEST, "                if self.max_iter != -1 and self.n_iter_ >= self.max_iter:\n                    break\n")),
    S("s-order-inc-after-check", "fit: increment after the max_iter test (dependent statements)",
      ("                self.n_iter_ += 1\n\n                # Purposefully first stop and then handle callbacks\n" + MAXTEST,
       MAXTEST + "                self.n_iter_ += 1\n")),
    S("s-order-callbacks-first", "fit: callbacks before the max_iter test",
      ("                # Purposefully first stop and then handle callbacks\n" + MAXTEST, ""),
      ("                    if stop:\n                        return self\n", "                    if stop:\n                        return self\n" + MAXTEST)),
    S("s-stop-init", "fit: stop = True", ("                    stop = False\n", "                    stop = True\n")),
    S("s-stop-and", "fit: stop = stop and result", ("                        stop = stop or result\n", "                        stop = stop and result\n")),
    S("s-cb-step", "fit: callbacks get step=self.n_iter_ + 1", ("self, step=self.n_iter_, X=X", "self, step=self.n_iter_ + 1, X=X")),
    S("s-stop-break", "fit: `if stop: break`", ("                    if stop:\n                        return self\n", "                    if stop:\n                        break\n")),
    S("s-shuffle-unguarded", "fit: shuffle every epoch unconditionally",
      ("            if self.shuffle:\n                X, y, A = self.backendEngine_.shuffle(X, y, A)\n", "            X, y, A = self.backendEngine_.shuffle(X, y, A)\n")),
    S("s-shuffle-once", "fit: shuffle once before the loops",
      ("        for epoch in range(epochs):\n            if self.shuffle:\n                X, y, A = self.backendEngine_.shuffle(X, y, A)\n",
       "        if self.shuffle:\n            X, y, A = self.backendEngine_.shuffle(X, y, A)\n        for epoch in range(epochs):\n")),
    S("s-loops-swapped", "fit: batch loop over range(epochs)", ("            for batch in range(batches):", "            for batch in range(epochs):")),
    S("s-partial-two-steps", "partial_fit: two train steps",
      ("        self.backendEngine_.train_step(X, y, A)\n", "        self.backendEngine_.train_step(X, y, A)\n        self.backendEngine_.train_step(X, y, A)\n")),
    S("s-threshold-default", "__init__: threshold_value=0.4", ("        threshold_value=0.5,\n        predictor_optimizer=\"Adam\",", "        threshold_value=0.4,\n        predictor_optimizer=\"Adam\",")),
    S("s-binary-gt", "_binary_predictor_function: `>`", ("        return (pred >= self.threshold_value).astype(float)", "        return (pred > self.threshold_value).astype(float)")),
    S("s-argmin", "multiclass rule: argmin", ("                    c = argmax(pred, axis=1)\n", "                    c = argmin(pred, axis=1)\n"),
      ("from numpy import arange, argmax, unique, zeros", "from numpy import arange, argmax, argmin, unique, zeros")),
    S("s-argmax-axis", "multiclass rule: axis=0", ("                    c = argmax(pred, axis=1)\n", "                    c = argmax(pred, axis=0)\n")),
    S("s-onehot-swapped", "multiclass rule: b[c, a] = 1", ("                    b[a, c] = 1\n", "                    b[c, a] = 1\n")),
    S("s-predict-no-decision", "predict: predictor_function_ stage dropped", ("        y_pred = self.predictor_function_(y_pred)\n", "")),
    S("s-predict-order", "predict: inverse_transform before the decision rule",
      ("        y_pred = self.predictor_function_(y_pred)\n        y_pred = self._y_transform.inverse_transform(y_pred)\n",
       "        y_pred = self._y_transform.inverse_transform(y_pred)\n        y_pred = self.predictor_function_(y_pred)\n")),
    S("s-continuous-rule", "continuous rule: lambda pred: -pred", ("self.predictor_function_ = lambda pred: pred", "self.predictor_function_ = lambda pred: -pred")),
    S("s-reinit-and", "fit: reinitialize = ... and ...",
      ("not hasattr(self, \"classes_\") or not self.warm_start", "not hasattr(self, \"classes_\") and not self.warm_start")),
    S("s-reinit-warm", "fit: warm_start negation dropped",
      ("not hasattr(self, \"classes_\") or not self.warm_start", "not hasattr(self, \"classes_\") or self.warm_start")),
    S("s-validate-after-guard", "fit: _validate_input moved after the rejection guard",
      ("        X, y, A = self._validate_input(X, y, sensitive_features, reinitialize)\n\n", ""),
      ("        if self.predictor_model is not None:\n            predictor_model = self.predictor_model",
       "        X, y, A = self._validate_input(X, y, sensitive_features, reinitialize)\n        if self.predictor_model is not None:\n            predictor_model = self.predictor_model")),
    S("s-pf-first-call", "partial_fit: first_call = hasattr(...)", ("        first_call = not hasattr(self, \"classes_\")", "        first_call = hasattr(self, \"classes_\")")),
    S("s-pf-sets-or", "partial_fit: classes_ set when first_call or classes given",
      ("        if first_call and classes is not None:", "        if first_call or classes is not None:")),
    S("s-setup-and", "_validate_input: setup only when not fitted and reinitialize",
      ("        if (not is_fitted) or (reinitialize):", "        if (not is_fitted) and (reinitialize):")),
    S("s-raw-no-check", "_raw_predict: check_is_fitted dropped", ("        check_is_fitted(self)\n        X = validate_data(\n            self,\n            X,\n            accept_sparse=False,\n            accept_large_sparse=False,\n            dtype=float,\n            allow_nd=True,\n            reset=False,",
                                                                    "        X = validate_data(\n            self,\n            X,\n            accept_sparse=False,\n            accept_large_sparse=False,\n            dtype=float,\n            allow_nd=True,\n            reset=False,")),
    S("s-inverse-swapped", "FloatTransformer.inverse_transform: branches swapped",
      ("            if self.inferred_type_ == \"continuous\":\n                inverse = y\n            else:\n                inverse = self.transform_.inverse_transform(y)",
       "            if self.inferred_type_ == \"continuous\":\n                inverse = self.transform_.inverse_transform(y)\n            else:\n                inverse = y"),
      file=FP),
    S("s-encoder-drop", "FloatTransformer.fit: OneHotEncoder(drop=None)", ("                    drop=\"if_binary\",\n", "                    drop=None,\n"), file=FP),
]
