"""adv_trainstep.py (AdvTrainStepSrc.lean) -- statement structure of PytorchEngine.train_step, pass_y_, adversary input width"""
F = "fairlearn/adversarial/_pytorch_engine.py"
FM = "fairlearn/adversarial/_adversarial_mitigation.py"
FB = "fairlearn/adversarial/_backend_engine.py"


def R(id, what, *edits, **kw):
    return dict(id="adv_trainstep-" + id, kind="R", file=kw.pop("file", F), edits=list(edits), what=what, **kw)


def S(id, what, *edits, **kw):
    return dict(id="adv_trainstep-" + id, kind="S", file=kw.pop("file", F), edits=list(edits), what=what, **kw)


HEAD = ("        Y_hat = self.predictor_model(X)\n        LP = self.predictor_loss(Y_hat, Y)\n"
        "        LP.backward(retain_graph=True)  # Check what this does at some point in time\n\n"
        "        dW_LP = [torch.clone(p.grad.detach()) for p in self.predictor_model.parameters()]\n")
MID = ("        if self.base.pass_y_:\n            Y_hat = torch.cat((Y_hat, Y), dim=1)\n\n        A_hat = self.adversary_model(Y_hat)\n"
       "        LA = self.adversary_loss(A_hat, A)\n        LA.backward()\n\n"
       "        dW_LA = [torch.clone(p.grad.detach()) for p in self.predictor_model.parameters()]\n")
LOOP = ("        for i, p in enumerate(self.predictor_model.parameters()):\n            # Normalize dW_LA\n"
        "            unit_dW_LA = dW_LA[i] / (torch.norm(dW_LA[i]) + torch.finfo(torch.float32).tiny)\n            # Project\n"
        "            proj = torch.sum(unit_dW_LA * dW_LP[i])\n            # Calculate dW\n"
        "            p.grad = dW_LP[i] - (proj * unit_dW_LA) - (self.base.alpha * dW_LA[i])\n")
TAIL = "        self.predictor_optimizer.step()\n        self.adversary_optimizer.step()\n\n        return (LP.item(), LA.item())\n"

CASES = [
    # ------------------------------------------------------------------ refactors
    R("r-rename-all", "train_step: rename Y_hat, LP, LA, A_hat, dW_LP, dW_LA, loop variables",
      (HEAD, "        out = self.predictor_model(X)\n        loss_p = self.predictor_loss(out, Y)\n        loss_p.backward(retain_graph=True)\n\n"
       "        g_pred = [torch.clone(p.grad.detach()) for p in self.predictor_model.parameters()]\n"),
      (MID, "        if self.base.pass_y_:\n            out = torch.cat((out, Y), dim=1)\n\n        guess = self.adversary_model(out)\n"
       "        loss_a = self.adversary_loss(guess, A)\n        loss_a.backward()\n\n"
       "        g_adv = [torch.clone(p.grad.detach()) for p in self.predictor_model.parameters()]\n"),
      (LOOP, "        for k, p in enumerate(self.predictor_model.parameters()):\n"
       "            unit = g_adv[k] / (torch.norm(g_adv[k]) + torch.finfo(torch.float32).tiny)\n"
       "            along = torch.sum(unit * g_pred[k])\n"
       "            p.grad = g_pred[k] - (along * unit) - (self.base.alpha * g_adv[k])\n"),
      ("        return (LP.item(), LA.item())\n", "        return (loss_p.item(), loss_a.item())\n")),
    R("r-swap-zero-grad", "train_step: the two zero_grad() calls of each pair, the two train() calls and the two step() calls swapped",
      ("        self.predictor_model.train()\n        self.adversary_model.train()\n\n        # Clear gradient\n        self.predictor_optimizer.zero_grad()\n        self.adversary_optimizer.zero_grad()\n",
       "        self.adversary_model.train()\n        self.predictor_model.train()\n\n        self.adversary_optimizer.zero_grad()\n        self.predictor_optimizer.zero_grad()\n"),
      ("        self.predictor_optimizer.step()\n        self.adversary_optimizer.step()\n", "        self.adversary_optimizer.step()\n        self.predictor_optimizer.step()\n")),
    R("r-noise", "train_step: logger.debug, comments, annotations",
      ("        LA.backward()\n", "        logger.debug(\"adversary loss computed\")\n        # back-propagate\n\n        LA.backward()\n"),
      ("        Y_hat = self.predictor_model(X)\n", "        Y_hat: torch.Tensor = self.predictor_model(X)\n"),
      ("# dynamic import.\ntorch = None\n", "import logging\n\nlogger = logging.getLogger(__name__)\n\n# dynamic import.\ntorch = None\n")),
    R("r-clone-spelling", "train_step: `p.grad.detach().clone()` and torch.cat([..], dim=-1)",
      ("        dW_LA = [torch.clone(p.grad.detach()) for p in self.predictor_model.parameters()]\n",
       "        dW_LA = [q.grad.detach().clone() for q in self.predictor_model.parameters()]\n"),
      ("            Y_hat = torch.cat((Y_hat, Y), dim=1)\n", "            Y_hat = torch.cat([Y_hat, Y], dim=-1)\n")),
    R("r-inline-a-hat", "train_step: adversary forward pass nested in the loss call",
      ("        A_hat = self.adversary_model(Y_hat)\n        LA = self.adversary_loss(A_hat, A)\n", "        LA = self.adversary_loss(self.adversary_model(Y_hat), A)\n")),
    R("r-return-temps", "train_step: temporaries for the two returned floats; tuple without parentheses",
      ("        return (LP.item(), LA.item())\n", "        lp_value = LP.item()\n        la_value = LA.item()\n        return lp_value, la_value\n")),
    R("r-width-commuted", "_backend_engine: `(2 if base.pass_y_ else 1) * n_Y_features`",
      ("                n_Y_features * (2 if base.pass_y_ else 1),\n", "                (2 if base.pass_y_ else 1) * n_Y_features,\n"), file=FB),
    # ---- arguments of the bookkeeping calls (pinned whitelist)
    R("r-zero-grad-keep-tensors", "train_step: the first pair of zero_grad() calls with set_to_none=False",
      ("        # Clear gradient\n        self.predictor_optimizer.zero_grad()\n        self.adversary_optimizer.zero_grad()\n", "        self.predictor_optimizer.zero_grad(set_to_none=False)\n        self.adversary_optimizer.zero_grad(set_to_none=False)\n")),
    R("r-zero-grad-positional", "train_step: zero_grad(True) / zero_grad(set_to_none=True)",
      ("        # Clear gradient\n        self.predictor_optimizer.zero_grad()\n        self.adversary_optimizer.zero_grad()\n", "        self.predictor_optimizer.zero_grad(True)\n        self.adversary_optimizer.zero_grad(set_to_none=True)\n")),
    R("r-train-mode", "train_step: train(True) / train(mode=True)",
      ("        self.predictor_model.train()\n        self.adversary_model.train()\n", "        self.predictor_model.train(True)\n        self.adversary_model.train(mode=True)\n")),
    R("r-la-retain-graph", "train_step: LA.backward(retain_graph=True) (no backward pass follows: only memory)",
      ("        LA.backward()\n", "        LA.backward(retain_graph=True)\n")),
    R("r-la-retain-false", "train_step: LA.backward(retain_graph=False) (the default, spelled out)",
      ("        LA.backward()\n", "        LA.backward(retain_graph=False)\n")),
    # ------------------------------------------------------------------ semantic edits
    S("s-no-second-zero", "train_step: predictor gradients not cleared before LA.backward()",
      ("        self.predictor_optimizer.zero_grad()\n        self.adversary_optimizer.zero_grad()\n\n        # For equalized odds\n",
       "        self.adversary_optimizer.zero_grad()\n\n        # For equalized odds\n")),
    S("s-snapshot-before-backward", "train_step: dW_LP copied before LP.backward()",
      ("        LP.backward(retain_graph=True)  # Check what this does at some point in time\n\n        dW_LP = [torch.clone(p.grad.detach()) for p in self.predictor_model.parameters()]\n",
       "        dW_LP = [torch.clone(p.grad.detach()) for p in self.predictor_model.parameters()]\n        LP.backward(retain_graph=True)\n")),
    S("s-detach", "train_step: the adversary is fed Y_hat.detach()", ("        A_hat = self.adversary_model(Y_hat)\n", "        A_hat = self.adversary_model(Y_hat.detach())\n")),
    S("s-no-adv-step", "train_step: adversary optimiser does not step", ("        self.adversary_optimizer.step()\n", "")),
    S("s-step-before-combine", "train_step: predictor steps before the combine loop",
      ("        for i, p in enumerate(self.predictor_model.parameters()):", "        self.predictor_optimizer.step()\n        for i, p in enumerate(self.predictor_model.parameters()):"),
      ("        self.predictor_optimizer.step()\n        self.adversary_optimizer.step()\n", "        self.adversary_optimizer.step()\n")),
    S("s-la-target", "train_step: LA compares with Y", ("        LA = self.adversary_loss(A_hat, A)\n", "        LA = self.adversary_loss(A_hat, Y)\n")),
    S("s-snapshot-adversary", "train_step: dW_LA copied from the adversary's parameters",
      ("        dW_LA = [torch.clone(p.grad.detach()) for p in self.predictor_model.parameters()]", "        dW_LA = [torch.clone(p.grad.detach()) for p in self.adversary_model.parameters()]")),
    S("s-snapshot-names", "train_step: the two copies exchange names (dW_LA taken after LP.backward)",
      ("        dW_LP = [torch.clone(p.grad.detach()) for p in self.predictor_model.parameters()]", "        dW_LA = [torch.clone(p.grad.detach()) for p in self.predictor_model.parameters()]"),
      ("        dW_LA = [torch.clone(p.grad.detach()) for p in self.predictor_model.parameters()]\n\n        for i, p", "        dW_LP = [torch.clone(p.grad.detach()) for p in self.predictor_model.parameters()]\n\n        for i, p")),
    S("s-no-clone", "train_step: dW_LP aliases the .grad buffers", ("        dW_LP = [torch.clone(p.grad.detach()) for p", "        dW_LP = [p.grad for p")),
    S("s-cat-order", "train_step: torch.cat((Y, Y_hat))", ("torch.cat((Y_hat, Y), dim=1)", "torch.cat((Y, Y_hat), dim=1)")),
    S("s-cat-guard", "train_step: concatenation when NOT pass_y_", ("        if self.base.pass_y_:\n", "        if not self.base.pass_y_:\n")),
    S("s-pass-y", "__setup: demographic_parity sets pass_y_ = True",
      ("            self.pass_y_ = False\n", "            self.pass_y_ = True\n"), file=FM),
    S("s-width", "_backend_engine: adversary width 3 * n_Y_features", ("(2 if base.pass_y_ else 1)", "(3 if base.pass_y_ else 1)"), file=FB),
    # ---- arguments of the bookkeeping calls
    S("s-backward-inputs", "train_step: LA.backward(inputs=<adversary parameters>): the predictor's buffers stay zero/None",
      ("        LA.backward()\n", "        LA.backward(inputs=list(self.adversary_model.parameters()))\n")),
    S("s-backward-gradient", "train_step: LP.backward(gradient=torch.tensor(2.0), retain_graph=True): dLP/dW doubled",
      ("        LP.backward(retain_graph=True)", "        LP.backward(gradient=torch.tensor(2.0), retain_graph=True)")),
    S("s-backward-positional", "train_step: LA.backward(torch.tensor(0.5)): positional `gradient`",
      ("        LA.backward()\n", "        LA.backward(torch.tensor(0.5))\n")),
    S("s-lp-no-retain", "train_step: LP.backward() without retain_graph (LA.backward() then walks a freed graph)",
      ("        LP.backward(retain_graph=True)", "        LP.backward()")),
    S("s-backward-create-graph", "train_step: LA.backward(create_graph=True)",
      ("        LA.backward()\n", "        LA.backward(create_graph=True)\n")),
    S("s-step-closure", "train_step: predictor_optimizer.step(closure)",
      ("        self.predictor_optimizer.step()\n", "        self.predictor_optimizer.step(lambda: self.predictor_loss(self.predictor_model(X), Y))\n")),
    S("s-backward-kwargs", "train_step: LA.backward(**self.backward_kwargs)",
      ("        LA.backward()\n", "        LA.backward(**self.backward_kwargs)\n")),
    S("s-backward-twice", "train_step: LP back-propagated twice",
      ("        LP.backward(retain_graph=True)  # Check what this does at some point in time\n", "        LP.backward(retain_graph=True)\n        LP.backward(retain_graph=True)\n")),
]
