"""thresholder.py (ThresholderSrc.lean) -- _threshold_operation.py, _interpolated_thresholder.py, ThresholdOptimizer.predict"""
OPF = "fairlearn/postprocessing/_threshold_operation.py"
ITF = "fairlearn/postprocessing/_interpolated_thresholder.py"
TOF = "fairlearn/postprocessing/_threshold_optimizer.py"


def R(id, f, what, *edits, **kw):
    return dict(id="thresholder-" + id, kind="R", file=f, edits=list(edits), what=what, **kw)


def S(id, f, what, *edits, **kw):
    return dict(id="thresholder-" + id, kind="S", file=f, edits=list(edits), what=what, **kw)


CASES = [
    R("r-op-flipped-cmp", OPF, "`y_hat > t` written as `t < y_hat`",
      ("            return y_hat > self._threshold", "            return self._threshold < y_hat")),
    R("r-op-else-chain", OPF, "`elif` -> plain `if` after return; rename y_hat",
      ("    def __call__(self, y_hat):", "    def __call__(self, scores):"),
      ("        if self._operator == \">\":\n            return y_hat > self._threshold\n        elif self._operator == \"<\":\n            return y_hat < self._threshold\n        else:\n            raise ValueError(\"Unrecognized operator: \" + self._operator)",
       "        if self._operator == \">\":\n            return scores > self._threshold\n        if self._operator == \"<\":\n            return scores < self._threshold\n        raise ValueError(\"Unrecognized operator: \" + self._operator)")),
    R("r-op-branches-swapped", OPF, "test `<` first; literal on the left",
      ("        if self._operator == \">\":\n            return y_hat > self._threshold\n        elif self._operator == \"<\":\n            return y_hat < self._threshold",
       "        if \"<\" == self._operator:\n            return y_hat < self._threshold\n        elif self._operator == \">\":\n            return y_hat > self._threshold")),
    R("r-op-temp", OPF, "temporary for the threshold, logger call, f-string message",
      ("        if self._operator == \">\":\n            return y_hat > self._threshold", "        logger.debug(\"applying %s\", self._operator)\n        if self._operator == \">\":\n            t = self._threshold\n            return y_hat > t"),
      ("            raise ValueError(\"Unrecognized operator: \" + self._operator)\n\n    def __repr__", "            raise ValueError(f\"Unrecognized operator: {self._operator}\")\n\n    def __repr__")),
    R("r-op-init-reorder", OPF, "reorder the two stores of __init__",
      ("        self._operator = operator\n        self._threshold = threshold", "        self._threshold = threshold\n        self._operator = operator")),
    R("r-pmf-rename", ITF, "rename positive_probs / interpolation / a / interpolated_predictions",
      ("        positive_probs = 0.0 * base_predictions_vector\n        for a, interpolation in self.interpolation_dict.items():\n            interpolated_predictions = interpolation.p0 * interpolation.operation0(\n                base_predictions_vector\n            ) + interpolation.p1 * interpolation.operation1(base_predictions_vector)\n            if \"p_ignore\" in interpolation:\n                interpolated_predictions = (\n                    interpolation.p_ignore * interpolation.prediction_constant\n                    + (1 - interpolation.p_ignore) * interpolated_predictions\n                )\n            positive_probs[sensitive_feature_vector == a] = interpolated_predictions[\n                sensitive_feature_vector == a\n            ]\n        return np.array([1.0 - positive_probs, positive_probs]).transpose()",
       "        probs = 0.0 * base_predictions_vector\n        for value, rule in self.interpolation_dict.items():\n            mixed = rule.p0 * rule.operation0(\n                base_predictions_vector\n            ) + rule.p1 * rule.operation1(base_predictions_vector)\n            if \"p_ignore\" in rule:\n                mixed = (\n                    rule.p_ignore * rule.prediction_constant\n                    + (1 - rule.p_ignore) * mixed\n                )\n            probs[sensitive_feature_vector == value] = mixed[\n                sensitive_feature_vector == value\n            ]\n        return np.array([1.0 - probs, probs]).transpose()")),
    R("r-pmf-commute", ITF, "commute the interpolation sum, the products of the p_ignore mix and the start value",
      ("        positive_probs = 0.0 * base_predictions_vector", "        positive_probs = base_predictions_vector * 0.0"),
      ("                    interpolation.p_ignore * interpolation.prediction_constant\n                    + (1 - interpolation.p_ignore) * interpolated_predictions",
       "                    interpolated_predictions * (1 - interpolation.p_ignore)\n                    + interpolation.prediction_constant * interpolation.p_ignore")),
    R("r-pmf-temps", ITF, "temporaries for the two thresholded vectors and the mask",
      ("            interpolated_predictions = interpolation.p0 * interpolation.operation0(\n                base_predictions_vector\n            ) + interpolation.p1 * interpolation.operation1(base_predictions_vector)",
       "            first = interpolation.operation0(base_predictions_vector)\n            second = interpolation.operation1(base_predictions_vector)\n            interpolated_predictions = interpolation.p0 * first + interpolation.p1 * second"),
      ("            positive_probs[sensitive_feature_vector == a] = interpolated_predictions[\n                sensitive_feature_vector == a\n            ]",
       "            rows = sensitive_feature_vector == a\n            positive_probs[rows] = interpolated_predictions[rows]")),
    R("r-pmf-mask-swapped", ITF, "`a == sensitive_feature_vector` in the mask; logger + annotation",
      ("            positive_probs[sensitive_feature_vector == a] = interpolated_predictions[", "            logger.debug(\"group %s\", a)\n            positive_probs[a == sensitive_feature_vector] = interpolated_predictions["),
      ("        positive_probs = 0.0 * base_predictions_vector", "        positive_probs: np.ndarray = 0.0 * base_predictions_vector")),
    R("r-pmf-return-temp", ITF, "temporaries for the returned columns",
      ("        return np.array([1.0 - positive_probs, positive_probs]).transpose()", "        negative_probs = 1.0 - positive_probs\n        pmf = np.array([negative_probs, positive_probs])\n        return pmf.transpose()")),
    R("r-pmf-inline-base", ITF, "inline base_predictions into the validation call",
      ("        base_predictions = np.array(\n            _get_soft_predictions(self.estimator_, X, self._predict_method)\n        )\n", ""),
      ("            y=base_predictions,\n", "            y=np.array(_get_soft_predictions(self.estimator_, X, self._predict_method)),\n")),
    R("r-predict-flip", ITF, "`probs >= draws` written as `draws <= probs`; rename positive_probs",
      ("        positive_probs = self._pmf_predict(X, sensitive_features=sensitive_features)[:, 1]\n        return (positive_probs >= random_state.rand(len(positive_probs))) * 1",
       "        p1 = self._pmf_predict(X, sensitive_features=sensitive_features)[:, 1]\n        return (random_state.rand(len(p1)) <= p1) * 1")),
    R("r-predict-temp-draws", ITF, "temporary for the draws, `1 *` in front",
      ("        return (positive_probs >= random_state.rand(len(positive_probs))) * 1",
       "        draws = random_state.rand(len(positive_probs))\n        return 1 * (positive_probs >= draws)")),
    R("r-delegate-temp", TOF, "temporary for the delegated result in ThresholdOptimizer.predict",
      ("        return self.interpolated_thresholder_.predict(\n            X, sensitive_features=sensitive_features, random_state=random_state\n        )",
       "        labels = self.interpolated_thresholder_.predict(\n            X,\n            random_state=random_state,\n            sensitive_features=sensitive_features,\n        )\n        return labels")),
    # ------------------------------------------------------------------ semantic edits
    S("s-op-gt-ge", OPF, "`>` evaluates `>=`", ("            return y_hat > self._threshold", "            return y_hat >= self._threshold")),
    S("s-op-swapped", OPF, "`<` evaluates y_hat > threshold", ("            return y_hat < self._threshold", "            return y_hat > self._threshold")),
    S("s-op-sides", OPF, "threshold on the left without flipping", ("            return y_hat > self._threshold", "            return self._threshold > y_hat")),
    S("s-op-init", OPF, "threshold stored negated", ("        self._threshold = threshold", "        self._threshold = -threshold")),
    S("s-pmf-init", ITF, "start value 1.0 * scores", ("        positive_probs = 0.0 * base_predictions_vector", "        positive_probs = 1.0 * base_predictions_vector")),
    S("s-pmf-p-swapped", ITF, "p1 weights operation0", ("            interpolated_predictions = interpolation.p0 * interpolation.operation0(", "            interpolated_predictions = interpolation.p1 * interpolation.operation0(")),
    S("s-pmf-ignore-const", ITF, "p_ignore mix with (1 + p_ignore)", ("                    + (1 - interpolation.p_ignore) * interpolated_predictions", "                    + (1 + interpolation.p_ignore) * interpolated_predictions")),
    S("s-pmf-ignore-guard", ITF, "guard on `p0`", ('            if "p_ignore" in interpolation:', '            if "p0" in interpolation:')),
    S("s-pmf-mask", ITF, "mask with `!=`", ("            positive_probs[sensitive_feature_vector == a] = interpolated_predictions[", "            positive_probs[sensitive_feature_vector != a] = interpolated_predictions[")),
    S("s-pmf-cols", ITF, "columns swapped", ("        return np.array([1.0 - positive_probs, positive_probs]).transpose()", "        return np.array([positive_probs, 1.0 - positive_probs]).transpose()")),
    S("s-pmf-op-arg", ITF, "operation1 applied to base_predictions", ("interpolation.operation1(base_predictions_vector)", "interpolation.operation1(base_predictions)")),
    S("s-pmf-ignore-before", ITF, "p_ignore mixing moved after the masked assignment",
      ("            if \"p_ignore\" in interpolation:\n                interpolated_predictions = (\n                    interpolation.p_ignore * interpolation.prediction_constant\n                    + (1 - interpolation.p_ignore) * interpolated_predictions\n                )\n            positive_probs[sensitive_feature_vector == a] = interpolated_predictions[\n                sensitive_feature_vector == a\n            ]\n",
       "            positive_probs[sensitive_feature_vector == a] = interpolated_predictions[\n                sensitive_feature_vector == a\n            ]\n            if \"p_ignore\" in interpolation:\n                interpolated_predictions = (\n                    interpolation.p_ignore * interpolation.prediction_constant\n                    + (1 - interpolation.p_ignore) * interpolated_predictions\n                )\n")),
    S("s-predict-col", ITF, "column 0 compared with the draws", ("sensitive_features=sensitive_features)[:, 1]", "sensitive_features=sensitive_features)[:, 0]")),
    S("s-predict-gt", ITF, "`>` instead of `>=`", ("        return (positive_probs >= random_state.rand(", "        return (positive_probs > random_state.rand(")),
    S("s-predict-one-draw", ITF, "a single draw for all rows", ("random_state.rand(len(positive_probs))) * 1", "random_state.rand(1)) * 1")),
    S("s-predict-rs", ITF, "random_state not passed through check_random_state", ("        random_state = check_random_state(random_state)\n        positive_probs", "        random_state = np.random.RandomState(0)\n        positive_probs")),
    S("s-delegate-kw", TOF, "ThresholdOptimizer.predict forwards random_state=None", ("sensitive_features=sensitive_features, random_state=random_state\n", "sensitive_features=sensitive_features, random_state=None\n")),
]
