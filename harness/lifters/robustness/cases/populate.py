"""populate.py (PopulateSrc.lean) -- the result cache of MetricFrame: `_populate_results` / `_group` (which (method, errors)
a slot is computed with, the `no_control_levels=` flag) and the defaults / cache path of group_min, group_max, difference, ratio"""
F = "fairlearn/metrics/_metric_frame.py"


def R(id, what, *edits, **kw):
    return dict(id="populate-" + id, kind="R", file=F, edits=list(edits), what=what, **kw)


def S(id, what, *edits, **kw):
    return dict(id="populate-" + id, kind="S", file=F, edits=list(edits), what=what, **kw)


GROUP_LOOP = ('        group_functions = {"group_min": "min", "group_max": "max"}\n'
              '        for k, v in group_functions.items():\n'
              '            self._result_cache[k] = dict()\n'
              '            for err_string in _VALID_ERROR_STRING:\n'
              '                try:\n'
              '                    self._result_cache[k][err_string] = self._group(raw_result, v, err_string)\n'
              '                except Exception as e:  # noqa: B902\n'
              '                    # Store any exception for later\n'
              '                    self._result_cache[k][err_string] = e\n')
DIFF_CALL = ('                            tmp = raw_result.difference(\n'
             '                                self.control_levels, method=c_m, errors=err_string\n'
             '                            )\n')
RATIO_CALL = ('                            tmp = raw_result.ratio(\n'
              '                                self.control_levels, method=c_m, errors=err_string\n'
              '                            )\n')
BRANCH = ('                        if c_t == "difference":\n' + DIFF_CALL + '                        else:\n' + RATIO_CALL)
STORE = ('                        result = self._none_to_nan(tmp)\n\n'
         '                        self._result_cache[c_t][c_m][err_string] = self._extract_result(\n'
         '                            result, no_control_levels=False\n'
         '                        )\n')
GROUP_BODY = ('        result = disagg_result.apply_grouping(\n'
              '            grouping_function, self.control_levels, errors=errors\n'
              '        )\n\n'
              '        return self._extract_result(result, no_control_levels=False)\n')
GMAX_TAIL = ('        value = self._result_cache["group_max"][errors]\n'
             '        if isinstance(value, Exception):\n'
             '            raise value\n'
             '        else:\n'
             '            return value\n')
OVERALL = ('        # Start with overall\n'
           '        self._result_cache["overall"] = self._extract_result(\n'
           '            raw_result.overall, no_control_levels=False\n'
           '        )\n\n')
DIFF_SIG = ('        errors: Literal["raise", "coerce"] = "coerce",\n'
            '    ) -> Any | pd.Series | pd.DataFrame:\n'
            '        """Return the maximum absolute difference between groups for each metric.')
RATIO_SIG = ('        method: Literal["between_groups", "to_overall"] = "between_groups",\n'
             '        errors: Literal["raise", "coerce"] = "coerce",\n'
             '    ) -> Any | pd.Series | pd.DataFrame:\n'
             '        """Return the minimum ratio between groups for each metric.')
GMAX_SIG = ('        self, errors: Literal["raise", "coerce"] = "raise"\n'
            '    ) -> Any | pd.Series | pd.DataFrame:\n'
            '        """Return the maximum value of the metric over the sensitive features.\n\n'
            '        This method computes the maximum value')

CASES = [
    # ------------------------------------------------------------------ refactors
    R("r-rename-loopvars", "group loop: rename k, v, err_string, e",
      (GROUP_LOOP, GROUP_LOOP.replace("for k, v in", "for cache_key, fn in").replace("[k]", "[cache_key]")
       .replace(", v, err_string)", ", fn, es)").replace("err_string", "es").replace(" as e:", " as exc:").replace("= e\n", "= exc\n"))),
    R("r-unroll-group-loop", "group loop unrolled into a group_min block and a group_max block",
      (GROUP_LOOP,
       '        self._result_cache["group_min"] = dict()\n'
       '        for err_string in _VALID_ERROR_STRING:\n'
       '            try:\n'
       '                self._result_cache["group_min"][err_string] = self._group(raw_result, "min", err_string)\n'
       '            except Exception as e:  # noqa: B902\n'
       '                self._result_cache["group_min"][err_string] = e\n'
       '        self._result_cache["group_max"] = dict()\n'
       '        for err_string in _VALID_ERROR_STRING:\n'
       '            try:\n'
       '                self._result_cache["group_max"][err_string] = self._group(raw_result, "max", err_string)\n'
       '            except Exception as e:  # noqa: B902\n'
       '                self._result_cache["group_max"][err_string] = e\n')),
    R("r-kind-order", "differences loop over [\"ratio\", \"difference\"]",
      ('        for c_t in ["difference", "ratio"]:\n            self._result_cache[c_t] = dict()\n            for c_m in _COMPARE_METHODS:\n                self._result_cache[c_t][c_m] = dict()\n                for err_string in _VALID_ERROR_STRING:\n                    try:\n                        if',
       '        for c_t in ["ratio", "difference"]:\n            self._result_cache[c_t] = dict()\n            for c_m in _COMPARE_METHODS:\n                self._result_cache[c_t][c_m] = dict()\n                for err_string in _VALID_ERROR_STRING:\n                    try:\n                        if')),
    R("r-branch-swap", "`if c_t == \"ratio\": ratio(...) else: difference(...)`",
      (BRANCH, '                        if c_t == "ratio":\n' + RATIO_CALL + '                        else:\n' + DIFF_CALL)),
    R("r-inline-temp", "no `result` temporary: _extract_result(self._none_to_nan(tmp), ...)",
      (STORE, '                        self._result_cache[c_t][c_m][err_string] = self._extract_result(\n'
              '                            self._none_to_nan(tmp), no_control_levels=False\n'
              '                        )\n')),
    R("r-group-keywords", "_group: apply_grouping called with keywords only",
      ('            grouping_function, self.control_levels, errors=errors\n',
       '            errors=errors, grouping_function=grouping_function, control_feature_names=self.control_levels\n')),
    R("r-group-call-keyword", "_populate_results: self._group(raw_result, v, errors=err_string)",
      ("self._group(raw_result, v, err_string)", "self._group(raw_result, v, errors=err_string)")),
    R("r-positional", "raw_result.difference(self.control_levels, c_m, err_string)",
      (DIFF_CALL, '                            tmp = raw_result.difference(self.control_levels, c_m, err_string)\n')),
    R("r-accessor-no-else", "group_max: `if isinstance(value, Exception): raise value` then `return value`",
      (GMAX_TAIL, '        value = self._result_cache["group_max"][errors]\n        if isinstance(value, Exception):\n            raise value\n        return value\n')),
    R("r-accessor-rename", "group_max: the local `value` renamed",
      (GMAX_TAIL, '        cached = self._result_cache["group_max"][errors]\n        if isinstance(cached, Exception):\n            raise cached\n        else:\n            return cached\n')),
    R("r-move-overall", "the overall entry is stored after the aggregates",
      (OVERALL, ""),
      ('                        self._result_cache[c_t][c_m][err_string] = e\n\n    def _populate_results_ci(',
       '                        self._result_cache[c_t][c_m][err_string] = e\n\n' + OVERALL.rstrip("\n") + '\n\n    def _populate_results_ci(')),
    R("r-literal-loop", "`for err_string in [\"raise\", \"coerce\"]` instead of the module constant (group loop)",
      ('            self._result_cache[k] = dict()\n            for err_string in _VALID_ERROR_STRING:\n',
       '            self._result_cache[k] = dict()\n            for err_string in ["raise", "coerce"]:\n')),
    # ------------------------------------------------------------------ semantic edits
    S("s-ratio-always-coerce", "reviewer's mutant: _populate_results always passes errors='coerce' to ratio",
      (RATIO_CALL, RATIO_CALL.replace("errors=err_string", 'errors="coerce"'))),
    S("s-difference-default-raise", "MetricFrame.difference: default errors='raise'",
      (DIFF_SIG, DIFF_SIG.replace('= "coerce"', '= "raise"'))),
    S("s-ratio-default-method", "MetricFrame.ratio: default method='to_overall'",
      (RATIO_SIG, RATIO_SIG.replace('= "between_groups"', '= "to_overall"'))),
    S("s-group-max-default-coerce", "MetricFrame.group_max: default errors='coerce'",
      (GMAX_SIG, GMAX_SIG.replace('= "raise"', '= "coerce"'))),
    S("s-group-min-key-literal", "group_min ignores errors: reads [\"group_min\"][\"raise\"]",
      ('self._result_cache["group_min"][errors]', 'self._result_cache["group_min"]["raise"]')),
    S("s-ratio-key-method", "ratio ignores method: reads [\"ratio\"][\"between_groups\"][errors]",
      ('self._result_cache["ratio"][method][errors]', 'self._result_cache["ratio"]["between_groups"][errors]')),
    S("s-difference-reads-ratio", "difference reads the ratio cache",
      ('self._result_cache["difference"][method][errors]', 'self._result_cache["ratio"][method][errors]')),
    S("s-group-flag", "_group: no_control_levels=True",
      (GROUP_BODY, GROUP_BODY.replace("no_control_levels=False", "no_control_levels=True"))),
    S("s-compare-flag", "difference / ratio entries: no_control_levels=True",
      (STORE, STORE.replace("no_control_levels=False", "no_control_levels=True"))),
    S("s-drop-method", "difference entries computed without method= (always between_groups)",
      (DIFF_CALL, DIFF_CALL.replace("method=c_m, ", ""))),
    S("s-branch-test", "`if c_t == \"ratio\"` with the branches left as they are (difference slots hold ratios)",
      ('                        if c_t == "difference":\n', '                        if c_t == "ratio":\n')),
    S("s-no-none-to-nan", "difference / ratio entries skip _none_to_nan",
      ("                        result = self._none_to_nan(tmp)\n", "                        result = tmp\n")),
    S("s-handler-pass", "group loop: the exception handler stores nothing",
      ("                    # Store any exception for later\n                    self._result_cache[k][err_string] = e\n",
       "                    pass\n")),
    S("s-group-swapped", "group_functions = {\"group_min\": \"max\", \"group_max\": \"min\"}",
      ('group_functions = {"group_min": "min", "group_max": "max"}', 'group_functions = {"group_min": "max", "group_max": "min"}')),
    S("s-group-errors-fixed", "_group passes errors=\"coerce\" whatever it is given",
      ('            grouping_function, self.control_levels, errors=errors\n', '            grouping_function, self.control_levels, errors="coerce"\n')),
    S("s-group-only-coerce", "group loop computes the coerce entries only",
      ('            self._result_cache[k] = dict()\n            for err_string in _VALID_ERROR_STRING:\n',
       '            self._result_cache[k] = dict()\n            for err_string in ["coerce"]:\n')),
    S("s-method-errors-swapped", "cache stored under [c_t][err_string][c_m]",
      ('                        self._result_cache[c_t][c_m][err_string] = self._extract_result(\n',
       '                        self._result_cache[c_t][err_string][c_m] = self._extract_result(\n')),
]
